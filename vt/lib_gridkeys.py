"""Deterministic ed25519 fixtures shared by C32 / C33 / C34.

Keys are derived from (VERIF_SEED, label) and loaded through the real
allmydata.crypto.ed25519.signing_keypair_from_string, so the seed only selects key
*values*.  Ed25519 signatures are deterministic, hence every signed fixture is a pure
function of the seed.
"""
import hashlib

from allmydata.crypto import ed25519
from allmydata.util import base32


class Key(object):
    def __init__(self, seed, label):
        raw = hashlib.sha256(b"vt-key:%d:" % seed + label.encode("ascii")).digest()
        self.label = label
        self.priv_s = b"priv-v0-" + base32.b2a(raw)
        self.sk, self.vk = ed25519.signing_keypair_from_string(self.priv_s)
        self.pub_s = ed25519.string_from_verifying_key(self.vk)      # b"pub-v0-..."
        self.v0 = self.pub_s[len(b"pub-"):]                           # b"v0-..."  (server id / key_s)
        self.raw_pub = base32.a2b(self.v0[3:])

    def sign(self, data):
        return ed25519.sign_data(self.sk, data)


_CACHE = {}


def key(seed, label):
    k = _CACHE.get((seed, label))
    if k is None:
        k = _CACHE[(seed, label)] = Key(seed, label)
    return k


def flip_byte(b, pos, mask=0x01):
    pos %= len(b)
    return b[:pos] + bytes([b[pos] ^ mask]) + b[pos + 1:]


def cache_plugin_scan():
    """NativeStorageServer.__init__ rescans twisted's plugin directories (hundreds of stat()
    calls) for every server object.  The scan is a pure function of the installation, so do
    it once with the real getPlugins and serve the same list afterwards."""
    import allmydata.storage_client as sc
    if getattr(sc.getPlugins, "_vt_cached", False):
        return
    real = sc.getPlugins
    memo = {}

    def getPlugins(interface, package=None):
        k = (interface, package)
        if k not in memo:
            memo[k] = list(real(interface) if package is None else real(interface, package))
        return list(memo[k])
    getPlugins._vt_cached = True
    sc.getPlugins = getPlugins


def cert_body(pub_s, exp_iso, version=1):
    """Certificate body exactly as allmydata.grid_manager._GridManager.sign serialises it."""
    import json
    return json.dumps({"expires": exp_iso, "public_key": pub_s.decode("ascii"), "version": version},
                      separators=(",", ":"), sort_keys=True).encode("utf-8")


def ann_cert(gm_key, pub_s, exp_iso):
    """A certificate in the form storage servers put into their announcement."""
    body = cert_body(pub_s, exp_iso)
    return {"certificate": body.decode("utf-8"), "signature": base32.b2a(gm_key.sign(body)).decode("ascii")}
