"""Level-synchronous BFS over histories, like vt.hbfs.explore, for checks whose replay function also
reports per-transition counters (outcome kinds, probe reads, ...).

replay(hist) -> (canon, violations[(sig, msg)], enabled_ops, counts{key: n})
A state in which a violation was observed is not expanded; BFS order makes the first counterexample minimal.
"""
import gc

from . import common


def _level(chunk, replay):
    # forked workers inherit the parent's heap (frontier + seen set): keep the cyclic GC away from it
    gc.freeze()
    res = common.Result()
    out = []
    for hist in chunk:
        canon, viols, ops, counts = replay(hist)
        res.count("transitions")
        for k, n in counts.items():
            res.count(k, n)
        for sig, msg in viols:
            res.violation(sig, {"history": hist}, msg)
        out.append((hist, canon, bool(viols), ops))
    res.notes["outs"] = out
    return res


def explore(replay, max_depth, root, workers=None, sample_every=9973):
    total = common.Result()
    seen = set()
    frontier = [list(root)]
    depth = 0
    while frontier:
        parts = common.pmap(_level, frontier, (replay,), workers=workers)
        outs = parts.notes.pop("outs", [])
        total.merge(parts)
        nxt = []
        for hist, canon, bad, ops in outs:
            if canon in seen:
                continue
            seen.add(canon)
            if len(seen) % sample_every == 1:
                total.sample({"history": hist})
            if bad or depth >= max_depth:
                continue
            for op in ops:
                nxt.append(hist + [op])
        total.notes["max_depth"] = depth
        frontier = nxt
        depth += 1
    total.counts["states"] = len(seen)
    return total
