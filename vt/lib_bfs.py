"""Level-synchronous BFS over histories, like vt.hbfs.explore, for checks whose replay function also
reports per-transition counters (outcome kinds, probe reads, ...).

replay(hist) -> (canon, violations[(sig, msg)], enabled_ops, counts{key: n})
A state in which a violation was observed is not expanded; BFS order makes the first counterexample minimal.

Unlike common.pmap (one forked pool per call) the worker pool is forked ONCE, before the frontier and the
seen-set grow, and reused for every level and root: on this machine every fresh fork of a large parent costs
each child hundreds of copy-on-write faults, which with 16 workers x dozens of levels dominated the run.
"""
import multiprocessing
import sys
import traceback

from . import common

_POOL = None
_POOL_SIZE = 0


def _pool(workers):
    global _POOL, _POOL_SIZE
    if _POOL is None or _POOL_SIZE != workers:
        shutdown()
        _POOL = multiprocessing.get_context("fork").Pool(workers)
        _POOL_SIZE = workers
    return _POOL


def shutdown():
    global _POOL
    if _POOL is not None:
        _POOL.terminate()
        _POOL.join()
        _POOL = None


def _level(args):
    chunk, replay = args
    try:
        res = common.Result()
        out = []
        for hist in chunk:
            canon, viols, ops, counts = replay(hist)
            res.count("transitions")
            for k, n in counts.items():
                res.count(k, n)
            for sig, msg in viols:
                res.violation(sig, {"history": hist}, msg)
            out.append((canon, bool(viols), ops))
        return ("ok", res, out)
    except BaseException:
        return ("err", traceback.format_exc(), None)


def explore(replay, max_depth, root, workers=None, sample_every=9973):
    workers = workers or common.NWORKERS
    total = common.Result()
    seen = set()
    frontier = [list(root)]
    depth = 0
    while frontier:
        if workers <= 1 or len(frontier) < 4 * workers:
            parts = [frontier]
            results = [_level((frontier, replay))]
        else:
            size = max(1, min(4000, (len(frontier) + workers * 6 - 1) // (workers * 6)))
            parts = [frontier[i:i + size] for i in range(0, len(frontier), size)]
            results = _pool(workers).map(_level, [(p, replay) for p in parts], chunksize=1)
        nxt = []
        for part, (kind, res, out) in zip(parts, results):
            if kind == "err":
                sys.stderr.write("HARNESS-ERROR in worker:\n%s\n" % res)
                shutdown()
                raise SystemExit(2)
            total.merge(res)
            for hist, (canon, bad, ops) in zip(part, out):
                if canon in seen:
                    continue
                seen.add(canon)
                if len(seen) % sample_every == 1:
                    total.sample({"history": hist})
                if bad or depth >= max_depth:
                    continue
                for op in ops:
                    nxt.append(hist + [op])
        total.notes["max_depth"] = depth
        frontier = nxt
        depth += 1
    total.counts["states"] = len(seen)
    return total
