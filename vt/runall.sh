#!/bin/bash
# run every claimed check (quick by default) on /repo and summarise
cd /verif
TIER=${1:-quick}
for P in $(cat vt/claimed.txt); do
  S=$(date +%s)
  ./check $P $TIER > /dev/shm/runall-$P.log 2>&1; C=$?
  echo "$P exit=$C $(( $(date +%s) - S ))s $(grep -c '^VIOLATION' /dev/shm/runall-$P.log) violations $(grep -c '^KNOWN-FINDING' /dev/shm/runall-$P.log) known"
done
