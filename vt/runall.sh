#!/bin/bash
# run every claimed check (quick by default) and summarise.  Runs the /verif tree this script lives in
# (a `vp run` snapshot runs its own copy and keeps its evidence/replay files there via VERIF_OUT).
HERE=$(cd "$(dirname "$0")/.." && pwd)
cd "$HERE"
TIER=${1:-quick}
shift
LIST=${@:-$(cat vt/claimed.txt)}
if [ "$HERE" != /verif ]; then export VERIF_OUT="$HERE/out"; mkdir -p "$VERIF_OUT"; fi
for P in $LIST; do
  S=$(date +%s)
  ./check $P $TIER > /dev/shm/runall-$TIER-$P.log 2>&1; C=$?
  echo "$P exit=$C $(( $(date +%s) - S ))s $(grep -c '^VIOLATION' /dev/shm/runall-$TIER-$P.log) violations $(grep -c '^KNOWN-FINDING' /dev/shm/runall-$TIER-$P.log) known"
done
