"""Shared harness for the HTTP storage protocol checks (C30, C31).

A REAL allmydata.storage.server.StorageServer on a tmpfs directory (clock = boot.R) is wrapped
by the REAL allmydata.storage.http_server.HTTPServer and reached with no network through
treq.testing.StubTreq(HTTPServer(...).get_resource()).  On top of that:

  node.client()            allmydata.storage.http_client.StorageClient (typed low-level client)
  node.http_server_iface() allmydata.storage_client._HTTPStorageServer  (IStorageServer, HTTP path)
  node.foolscap_iface()    allmydata.storage_client._StorageServer over LocalRef(FoolscapStorageServer)
                           (IStorageServer, Foolscap path; LocalRef is a trivial IRemoteReference
                           stand-in that calls remote_* directly - no serialisation, no schema check)
  node.raw(...)            arbitrary request with arbitrary headers through the same StubTreq
  node.digest()            byte-exact digest of everything under the storage directory
  node.uploads_table()     canonical form of the HTTP server's uploads-in-progress table and of
                           the StorageServer's _bucket_writers (with written ranges)

`wait(d)` pumps the virtual reactor / the stub connection until the Deferred fires; it raises
NeverFired if it does not.
"""
import hashlib
import itertools
import math
import os
import shutil
from base64 import b64encode

from . import boot
from .boot import R

from twisted.internet import defer
from twisted.python.failure import Failure
from twisted.web.http_headers import Headers
from hyperlink import DecodedURL
from treq.testing import StubTreq
from foolscap.api import Referenceable

from allmydata.storage.server import StorageServer, FoolscapStorageServer
from allmydata.storage.http_server import HTTPServer
from allmydata.storage.http_client import (
    StorageClient, StorageClientImmutables, StorageClientMutables, StorageClientGeneral,
    ClientException,
)
from allmydata.storage.http_common import swissnum_auth_header
from allmydata.storage.common import si_b2a
from allmydata.storage_client import _HTTPStorageServer, _StorageServer

__all__ = [
    "Node", "wait", "NeverFired", "LocalRef", "Canary", "align_clock", "clock_drift", "EPOCH", "b64", "si_text",
    "StorageClientImmutables", "StorageClientMutables", "StorageClientGeneral", "ClientException",
]

# Failed reads issued in parallel by the HTTP adapter leave "Unhandled error in Deferred" reports
# for twisted's log system; nothing here reads that log, so give it a null observer instead of
# letting it print to stderr.
from twisted.logger import globalLogBeginner as _glb  # noqa: E402
try:
    _glb.beginLoggingTo([lambda event: None], redirectStandardIO=False, discardBuffer=True)
except Exception:  # noqa  (already begun by someone else)
    pass

# StorageServer.__init__ builds two crawlers, each of which base32-encodes its 1024 prefixes
# (4 ms); that dominates a replay.  si_b2a is a pure function: rebind the crawler module's
# reference to a memoised one (module global rebound from outside, /repo untouched).
import functools as _functools  # noqa: E402
import allmydata.storage.crawler as _crawler  # noqa: E402
if not hasattr(_crawler.si_b2a, "cache_info"):
    _crawler.si_b2a = _functools.lru_cache(maxsize=4096)(_crawler.si_b2a)

SWISSNUM = b"swissnum-of-the-server-0123456789"
BASE_URL = "http://127.0.0.1"
_counter = itertools.count()


class NeverFired(RuntimeError):
    """The Deferred did not fire although the reactor and the stub connection were pumped."""


def b64(x):
    return b64encode(x).decode("ascii")


def si_text(si):
    return si_b2a(si).decode("ascii")


EPOCH = 1000001000.0


def align_clock():
    """Put the virtual clock on a whole second.  Everything a replay does pumps the clock by
    microseconds only, so all lease expiry times (whole seconds) computed during one replay are
    equal on every path (clock_drift() lets the caller assert that).  When no timer is pending
    (the normal case: every Node.close() cancels its BucketWriter timers) the clock is set back
    to the fixed EPOCH so that byte digests of share files (which contain lease expiry times)
    are comparable between replays; otherwise it is advanced to the next whole second."""
    if not R.getDelayedCalls():
        R.rightNow = EPOCH
    else:
        now = R.seconds()
        R.advance(math.floor(now) + 1.0 - now)
    return R.seconds()


def clock_drift():
    """seconds since the last whole second"""
    return R.seconds() - math.floor(R.seconds())


def wait(d, stubs=(), limit=4000):
    """Pump until `d` fires.  Returns its result or raises its exception."""
    out = []
    d.addBoth(out.append)
    n = 0
    while not out:
        for s in stubs:
            s.flush()
        R.advance(1e-6)
        n += 1
        if n > limit:
            raise NeverFired("Deferred did not fire after %d pump rounds" % limit)
    r = out[0]
    if isinstance(r, Failure):
        r.raiseException()
    return r


# ------------------------------------------------------------------ Foolscap-path stand-in
def _wrap(x):
    """What foolscap does to results: Referenceables become remote references."""
    if isinstance(x, Referenceable):
        return LocalRef(x)
    if isinstance(x, dict):
        return {k: _wrap(v) for k, v in x.items()}
    if isinstance(x, tuple):
        return tuple(_wrap(v) for v in x)
    if isinstance(x, list):
        return [_wrap(v) for v in x]
    return x


class LocalRef(object):
    """Trivial IRemoteReference stand-in: callRemote(name, ...) -> target.remote_<name>(...)."""

    def __init__(self, target):
        self.target = target

    def callRemote(self, name, *args, **kwargs):
        try:
            r = getattr(self.target, "remote_" + name)(*args, **kwargs)
        except Exception:  # noqa
            return defer.fail(Failure())
        if isinstance(r, defer.Deferred):
            return r.addCallback(_wrap)
        return defer.succeed(_wrap(r))

    def notifyOnDisconnect(self, cb, *a, **kw):
        raise RuntimeError("not used")


class Canary(object):
    """Client-side canary handed to allocate_buckets on the Foolscap path."""

    def __init__(self):
        self.cbs = {}
        self.n = 0

    def notifyOnDisconnect(self, cb, *a, **kw):
        self.n += 1
        self.cbs[self.n] = (cb, a, kw)
        return self.n

    def dontNotifyOnDisconnect(self, marker):
        self.cbs.pop(marker, None)

    def disconnect(self):
        for (cb, a, kw) in list(self.cbs.values()):
            cb(*a, **kw)
        self.cbs.clear()


_frozen_pid = None


def worker_init():
    """Once per process: gc.freeze().  In a forked pmap worker a full (generation 2) collection
    walks every object inherited from the parent and so copies every inherited page
    (measured here: ~4000 page faults = seconds per collection); freezing the inherited objects
    keeps later collections on the worker's own garbage only."""
    global _frozen_pid
    if _frozen_pid != os.getpid():
        _frozen_pid = os.getpid()
        import gc
        gc.freeze()


# ------------------------------------------------------------------ the node
class Node(object):
    def __init__(self, swissnum=SWISSNUM, nodeid=b"\x00" * 20, label=""):
        worker_init()
        self.dir = "/dev/shm/vt-%d-%d%s" % (os.getpid(), next(_counter), label)
        if os.path.exists(self.dir):
            shutil.rmtree(self.dir)
        self.swissnum = swissnum
        self.ss = StorageServer(self.dir, nodeid, clock=R)
        self.http = HTTPServer(R, self.ss, swissnum)
        self.stub = StubTreq(self.http.get_resource())
        self.fss = None

    # -- clients
    def client(self, swissnum=None):
        return StorageClient(DecodedURL.from_text(BASE_URL), self.swissnum if swissnum is None else swissnum,
                             treq=self.stub, pool=None, clock=R)

    def http_server_iface(self):
        return _HTTPStorageServer.from_http_client(self.client())

    def foolscap_iface(self):
        if self.fss is None:
            self.fss = FoolscapStorageServer(self.ss)
        ref = LocalRef(self.fss)
        return _StorageServer(get_rref=lambda: ref)

    def wait(self, d, limit=4000):
        return wait(d, (self.stub,), limit)

    # -- raw requests
    def raw(self, method, path, headers=None, data=None):
        """headers: list of (name, value) pairs, names/values str or bytes (sent verbatim).
        Returns (code, {lower-name: [values]}, body)."""
        h = Headers()
        for k, v in headers or []:
            h.addRawHeader(k, v)
        kw = {}
        if data is not None:
            kw["data"] = data
        resp = self.wait(self.stub.request(method, BASE_URL + path, headers=h, **kw))
        body = self.wait(resp.content())
        hd = {}
        for k, vs in resp.headers.getAllRawHeaders():
            hd[k.decode("latin-1").lower()] = [v.decode("latin-1") for v in vs]
        return resp.code, hd, body

    def auth_value(self):
        return swissnum_auth_header(self.swissnum)

    # -- observation
    def digest(self, normalise_advisories=False):
        """Tuple describing every directory and file (sha256 of the bytes) under the server's
        directory.  With normalise_advisories the timestamp prefix of corruption-advisory
        file names (microsecond clock) is dropped."""
        items = []
        for dirpath, dirnames, filenames in os.walk(self.dir):
            dirnames.sort()
            rel = os.path.relpath(dirpath, self.dir)
            items.append(("d", rel))
            for f in sorted(filenames):
                with open(os.path.join(dirpath, f), "rb") as fh:
                    hx = hashlib.sha256(fh.read()).hexdigest()
                name = f
                if normalise_advisories and rel == "corruption-advisories":
                    name = f.split("--", 1)[-1]
                items.append(("f", os.path.join(rel, name), hx))
        return tuple(sorted(items))

    def file_bytes(self):
        """{relative path: bytes} for every file under shares/ (to look for share bytes)."""
        out = {}
        root = os.path.join(self.dir, "shares")
        for dirpath, dirnames, filenames in os.walk(root):
            for f in filenames:
                p = os.path.join(dirpath, f)
                with open(p, "rb") as fh:
                    out[os.path.relpath(p, self.dir)] = fh.read()
        return out

    def uploads_table(self):
        up = self.http._uploads
        tab = []
        for si, u in sorted(up._uploads.items()):
            tab.append((si, tuple(sorted(u.shares)), tuple(sorted(u.upload_secrets.items()))))
        bws = []
        for path, bw in sorted(self.ss._bucket_writers.items()):
            ranges = tuple((r.start, r.stop) for r in bw._already_written.ranges())
            bws.append((os.path.relpath(path, self.dir), bw.closed, ranges, bw in up._bucketwriters))
        return (tuple(tab), tuple(sorted(up._bucketwriters.values())), tuple(bws))

    # -- end
    def close(self):
        for bw in list(self.ss._bucket_writers.values()):
            try:
                bw.abort()
            except Exception:  # noqa
                if bw._timeout.active():
                    bw._timeout.cancel()
        shutil.rmtree(self.dir, ignore_errors=True)
