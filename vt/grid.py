"""Engine G: a virtual tahoe grid under a controlled scheduler.

Real StorageServer objects (real share files on tmpfs) behind FoolscapStorageServer, real
Uploader / NodeMaker / SecretHolder / Terminator on the client side.  Every callRemote in
either direction goes through `VRef`, which only *queues* an event; the `Sched` loop is the
only thing that makes progress, and every decision it takes (which pending call to deliver,
whether to inject a fault, whether to fire the next timer first) is a recorded choice point.
An execution is a pure function of its choice list; `explore()` enumerates all executions
with <= d schedule deviations and <= f faults (iterative deviation bounding).
"""
import hashlib
import json
import os
import shutil

from . import boot
from .boot import R

from zope.interface import implementer
from twisted.internet import defer
from twisted.python.failure import Failure
from twisted.application import service
from foolscap.api import Referenceable, RemoteException, DeadReferenceError
from foolscap.ipb import IRemoteReference

from allmydata.interfaces import IStorageBroker, IServer
from allmydata.storage.server import StorageServer, FoolscapStorageServer
from allmydata.storage_client import _StorageServer
from allmydata.util import idlib
from allmydata.util.hashutil import permute_server_hash
from allmydata.client import SecretHolder, Terminator
from allmydata.nodemaker import NodeMaker
from allmydata.immutable.upload import Uploader
from allmydata.crypto import rsa

HERE = os.path.dirname(os.path.dirname(os.path.abspath(__file__)))
_TMPROOT = "/dev/shm/vt-%d" % os.getpid()
_counter = [0]


class IntentionalError(Exception):
    pass


class HarnessError(Exception):
    """nondeterminism / replay divergence: never a property violation"""


class Chooser(object):
    def __init__(self, prefix=()):
        self.prefix = list(prefix)
        self.trace = []   # (n, pick, metas)

    def choose(self, metas):
        i = len(self.trace)
        n = len(metas)
        if i < len(self.prefix):
            pick = self.prefix[i]
            if pick >= n:
                raise HarnessError("replay divergence at choice %d: want %d of %d options %r" % (i, pick, n, metas))
        else:
            pick = 0
        self.trace.append((n, pick, metas))
        return pick


class Conn(object):
    """one client<->server connection"""

    def __init__(self, ci, si):
        self.ci, self.si = ci, si
        self.dead = False
        self.seq = 0
        self.disconnectors = {}
        self._m = 0

    def key(self):
        return (self.ci, self.si)


class Event(object):
    __slots__ = ("conn", "seq", "meth", "args", "kwargs", "d", "target", "direction", "executed", "result")

    def __init__(self, conn, seq, meth, args, kwargs, d, target, direction):
        self.conn, self.seq, self.meth, self.args, self.kwargs = conn, seq, meth, args, kwargs
        self.d, self.target, self.direction = d, target, direction
        self.executed = False
        self.result = None

    def key(self):
        return (self.conn.ci, self.conn.si, self.seq)

    def label(self):
        if self.direction == "cpu":
            return "cpu#%d:%s" % (self.seq, self.meth[4:])
        return "c%d%ss%d#%d:%s" % (self.conn.ci, ">" if self.direction == "c2s" else "<", self.conn.si, self.seq, self.meth)


@implementer(IRemoteReference)
class VRef(object):
    def __init__(self, sched, original, conn, direction):
        self.sched, self.original, self.conn, self.direction = sched, original, conn, direction

    def _wrap_out(self, x):
        """wrap Referenceables travelling from caller to callee"""
        return self.sched.membrane(x, self.conn, "s2c" if self.direction == "c2s" else "c2s")

    def callRemote(self, methname, *args, **kwargs):
        if self.conn.dead:
            return defer.fail(Failure(DeadReferenceError("connection dead (harness)")))
        args = tuple(self._wrap_out(a) for a in args)
        kwargs = {k: self._wrap_out(v) for k, v in kwargs.items()}
        d = defer.Deferred()
        self.conn.seq += 1
        ev = Event(self.conn, self.conn.seq, methname, args, kwargs, d, self.original, self.direction)
        self.sched.pending.append(ev)
        self.sched.issued += 1
        return d

    def callRemoteOnly(self, methname, *args, **kwargs):
        d = self.callRemote(methname, *args, **kwargs)
        d.addErrback(lambda f: None)
        return None

    def notifyOnDisconnect(self, f, *args, **kwargs):
        self.conn._m += 1
        m = self.conn._m
        self.conn.disconnectors[m] = (f, args, kwargs)
        return m

    def dontNotifyOnDisconnect(self, marker):
        self.conn.disconnectors.pop(marker, None)

    def getRemoteTubID(self):
        return "vref-%d-%d" % self.conn.key()

    def getPeer(self):
        return "vpeer"

    def getLocationHints(self):
        return []

    def getDataLastReceivedAt(self):
        return None


class Sched(object):
    def __init__(self, chooser=None, fault_kinds=(), split=False, fault_filter=None, timer_choice=True):
        self.chooser = chooser or Chooser()
        self.pending = []
        self.explore = False
        self.fault_kinds = tuple(fault_kinds)
        self.fault_filter = fault_filter      # callable(event) -> bool: may this event be faulted
        self.split = split                    # execute-at-server and deliver-response are separate events
        self.timer_choice = timer_choice
        self.fifo = True
        # turn granularity.  False: the client's eventual-send queue (foolscap eventually(), zero-delay
        # timers) runs after EVERY delivered answer.  True: every answer that is deliverable when a
        # reactor turn starts is delivered before the queue runs - what a real reactor does when
        # several answers are read from the sockets in one iteration.
        self.batch = bool(os.environ.get("VERIF_BATCH"))      # env: experiments only; checks set it per case
        self._batch = set()
        self.refuse_round = set()             # clients whose writes are refused until their next survey
        self.extras = []                      # [(label, callable)] harness-side pending actions (e.g. consumer resume)
        self.log = []
        self.issued = 0
        self.steps = 0
        self.timer_fires = 0
        self.hooks = {}                       # methname -> callable(ev, result) -> result   (lying servers etc.)
        self.observers = []                   # callable(kind, ev, outcome)

    # -------------------------------------------------------------- CPU work as scheduled events
    def cpu_events(self, on=True):
        """vt.boot makes allmydata's defer_to_thread() run its function synchronously.  In production
        the result comes back from the thread pool in a LATER reactor turn, and answers from the
        network can be handled in between.  With cpu_events every defer_to_thread() call of the code
        under test becomes a pending event on a virtual 'cpu' connection (FIFO; it sorts first, so the
        default schedule finishes CPU work before the next answer is delivered and every other order
        is a deviation).  restore with cpu_events(False) (Grid.close does)."""
        import allmydata.codec as _codec
        import allmydata.mutable.retrieve as _rt
        import allmydata.mutable.publish as _pb
        import allmydata.mutable.filenode as _fn
        mods = [_codec, _rt, _pb, _fn]
        if not on:
            for m, orig in getattr(self, "_cpu_saved", []):
                m.defer_to_thread = orig
            self._cpu_saved = []
            return
        if getattr(self, "_cpu_saved", None):
            return
        conn = Conn(-1, -1)
        sched = self

        async def via_sched(f, *a, **kw):
            d = defer.Deferred()
            conn.seq += 1
            name = getattr(f, "__name__", "f")
            sched.pending.append(Event(conn, conn.seq, "cpu:" + name.strip("<>"), (f, a, kw), {}, d, None, "cpu"))
            return await d
        self._cpu_saved = [(m, m.defer_to_thread) for m in mods]
        for m in mods:
            m.defer_to_thread = via_sched

    # -------------------------------------------------------------- membrane
    def membrane(self, x, conn, direction):
        if isinstance(x, VRef):
            return x
        if isinstance(x, Referenceable):
            return VRef(self, x, conn, direction)
        if isinstance(x, dict):
            return {k: self.membrane(v, conn, direction) for k, v in x.items()}
        if isinstance(x, tuple):
            return tuple(self.membrane(v, conn, direction) for v in x)
        if isinstance(x, list):
            return [self.membrane(v, conn, direction) for v in x]
        return x

    # -------------------------------------------------------------- actions
    def _execute(self, ev):
        """run the real remote_<meth>; returns ('ok', value) or ('err', Failure)"""
        if ev.direction == "cpu":
            f, a, kw = ev.args
            try:
                return ("ok", f(*a, **kw))
            except Exception:
                return ("err", Failure())
        try:
            meth = getattr(ev.target, "remote_" + ev.meth)
            res = meth(*ev.args, **ev.kwargs)
        except Exception:
            return ("err", Failure(RemoteException(Failure())))
        if isinstance(res, defer.Deferred):
            # remote methods returning Deferreds (helper): resolve through the reactor
            box = []

            def _keep(r):
                box.append(r)
                return r            # pass the result on: a later addBoth on this Deferred must still see it
            res.addBoth(_keep)
            if not box:
                R.pump_until_idle()
            if not box:
                return ("deferred", res, box)
            res = box[0]
            if isinstance(res, Failure):
                return ("err", Failure(RemoteException(res)))
        hook = self.hooks.get(ev.meth)
        if hook is not None:
            res = hook(ev, res)
        res = self.membrane(res, ev.conn, ev.direction)
        return ("ok", res)

    def _fire(self, ev, outcome):
        if outcome[0] == "ok":
            ev.d.callback(outcome[1])
        elif outcome[0] == "deferred":
            _, dd, box = outcome

            def _done(r, ev=ev):
                if isinstance(r, Failure):
                    ev.d.errback(Failure(RemoteException(r)))
                else:
                    ev.d.callback(self.membrane(r, ev.conn, ev.direction))
            if box:
                _done(box[0])
            else:
                dd.addBoth(_done)
        else:
            ev.d.errback(outcome[1])

    def _note(self, kind, ev, outcome=None):
        o = None
        if outcome is not None:
            o = outcome[0] if outcome[0] != "err" else "err:" + _short_failure(outcome[1])
        self.log.append((kind, ev.label(), o))
        for ob in self.observers:
            ob(kind, ev, outcome)

    def do_deliver(self, ev):
        if ev.conn.ci in self.refuse_round:
            if ev.meth == "slot_readv":
                self.refuse_round.discard(ev.conn.ci)
            elif ev.meth == "slot_testv_and_readv_and_writev" and not ev.executed:
                self.do_fault(ev, "refuse")
                return
        if self.split and not ev.executed and ev.direction != "cpu":
            ev.executed = True
            ev.result = self._execute(ev)
            self._note("execute", ev, ev.result)
            return
        self.pending.remove(ev)
        out = ev.result if ev.executed else self._execute(ev)
        self._note("deliver", ev, out)
        self._fire(ev, out)

    def do_fault(self, ev, kind):
        if kind == "error":
            self.pending.remove(ev)
            out = ("err", Failure(RemoteException(Failure(IntentionalError("injected before the call")))))
            self._note("fault:error", ev, out)
            self._fire(ev, out)
        elif kind == "error-after":
            self.pending.remove(ev)
            real = ev.result if ev.executed else self._execute(ev)
            out = ("err", Failure(RemoteException(Failure(IntentionalError("injected after the call took effect")))))
            self._note("fault:error-after", ev, real)
            self._fire(ev, out)
        elif kind == "disconnect":
            self.disconnect(ev.conn, note_ev=ev)
        elif kind in ("refuse", "refuse-round"):
            # the server answers a test-and-set write as if another writer had got there first:
            # nothing is written, the answer is (False, current data).  "refuse-round": every write
            # of this client is refused until its next survey (slot_readv) - a whole lost round
            if kind == "refuse-round":
                self.refuse_round.add(ev.conn.ci)
            self.pending.remove(ev)
            a = list(ev.args)
            a[2] = {sh: ([(0, 1, b"eq", b"\x00\x00")], dv, nl) for sh, (tv, dv, nl) in a[2].items()}
            ev.args = tuple(a)
            out = self._execute(ev)
            self._note("fault:" + kind, ev, out)
            self._fire(ev, out)
        elif kind == "lie":
            # the server answers this read with altered bytes (first byte of the answer flipped)
            self.pending.remove(ev)
            out = ev.result if ev.executed else self._execute(ev)
            if out[0] == "ok" and isinstance(out[1], bytes) and out[1]:
                out = ("ok", bytes([out[1][0] ^ 0x01]) + out[1][1:])
            self._note("fault:lie", ev, out)
            self._fire(ev, out)
        else:
            raise HarnessError("unknown fault kind %r" % kind)

    def disconnect(self, conn, note_ev=None):
        conn.dead = True
        if note_ev is not None:
            self._note("fault:disconnect", note_ev, None)
        victims = [e for e in self.pending if e.conn is conn]
        for e in victims:
            self.pending.remove(e)
        ds = list(conn.disconnectors.values())
        conn.disconnectors.clear()
        for (f, a, kw) in ds:
            f(*a, **kw)
        for e in victims:
            e.d.errback(Failure(DeadReferenceError("connection lost (harness)")))

    # -------------------------------------------------------------- the loop
    def menu(self):
        # self.priority: connections whose calls sort first (a client that is served as soon as it asks)
        pr = getattr(self, "priority", None)
        evs = sorted(self.pending, key=(lambda e: e.key()) if not pr else (lambda e: (0 if e.conn.key() in pr else 1,) + e.key()))
        if self.fifo:
            # foolscap delivers the calls of one connection in issue order and answers them in
            # order: only the oldest pending call of each connection is enabled
            heads, seen = [], set()
            for e in evs:
                if e.conn.key() not in seen:
                    seen.add(e.conn.key())
                    heads.append(e)
            evs = heads
        m = [("deliver", e.label(), e) for e in evs]
        if self.explore and self.fault_kinds:
            for e in evs:
                if e.executed or e.direction == "cpu":
                    continue
                if self.fault_filter is not None and not self.fault_filter(e):
                    continue
                for k in self.fault_kinds:
                    if k == "lie" and e.meth not in ("read", "slot_readv"):
                        continue
                    if k in ("refuse", "refuse-round") and e.meth != "slot_testv_and_readv_and_writev":
                        continue
                    m.append(("fault:" + k, e.label(), e))
        # harness actions: "resume:*" must eventually happen (taken by default when nothing else is
        # enabled); "stop:*" and other optional actions are only ever taken as a deviation
        must = [(l, f) for (l, f) in self.extras if l.startswith("resume:")]
        opt = [(l, f) for (l, f) in self.extras if not l.startswith("resume:")]
        for (label, fn) in must:
            m.append(("extra", label, fn))
        nd = R.next_timer_delay()
        if nd is not None and ((not evs and not must) or (self.explore and self.timer_choice)):
            m.append(("timer", "+%.3fs" % nd, None))
        if m and self.explore:
            for (label, fn) in opt:
                m.append(("extra", label, fn))
        return m

    def _pump(self):
        if self.batch:
            if any((e.key(), e.direction) in self._batch for e in self.pending):
                return False
            R.pump_until_idle()
            self._batch = set((e.key(), e.direction) for e in self.pending)
            return True
        R.pump_until_idle()
        return True

    def step(self):
        self._pump()
        m = self.menu()
        if not m:
            return False
        if self.explore and len(m) > 1:
            pick = self.chooser.choose([(x[0], x[1]) for x in m])
        else:
            pick = 0
        kind, label, ev = m[pick]
        self.steps += 1
        # every scheduler step takes one virtual millisecond, so that response times (which the
        # downloader uses as a sort key for shares) are a deterministic function of the schedule
        # instead of all being zero and leaving the order to id()-based set iteration
        if self.batch and any((e.key(), e.direction) in self._batch for e in self.pending):
            R.rightNow += 0.001       # the clock ticks, but no timer runs inside a reactor turn
        else:
            R.advance(0.001)
        if kind == "deliver":
            self.do_deliver(ev)
        elif kind == "extra":
            self.extras[:] = [x for x in self.extras if x[1] is not ev]
            self.log.append(("extra", label, None))
            ev()
        elif kind == "timer":
            self.timer_fires += 1
            self.log.append(("timer", label, None))
            R.fire_next_timer()
        else:
            self.do_fault(ev, kind.split(":", 1)[1])
        self._pump()
        return True

    def run(self, until=None, max_steps=20000, max_timers=400):
        """step until `until` (a Deferred-result box) is filled or nothing is enabled"""
        t0 = self.timer_fires
        while True:
            if until is not None and until:
                return True
            if self.steps > max_steps or self.timer_fires - t0 > max_timers:
                raise HarnessError("execution exceeds horizon (steps=%d timers=%d): livelock?" % (self.steps, self.timer_fires))
            if not self.step():
                return bool(until) if until is not None else True


def _short_failure(f):
    try:
        v = f.value
        if isinstance(v, RemoteException):
            v = v.failure.value
        return type(v).__name__
    except Exception:  # noqa
        return "?"


def box(d):
    """attach to a Deferred; returns list that receives [('ok', v)] or [('err', Failure)]"""
    out = []

    def ok(v):
        out.append(("ok", v))

    def err(f):
        out.append(("err", f))
    d.addCallbacks(ok, err)
    return out


# ------------------------------------------------------------------------------ client side
@implementer(IServer)
class VServer(object):
    def __init__(self, serverid, rref, permitted=True, salt=0):
        self.serverid, self.rref, self.permitted = serverid, rref, permitted
        self._salt = salt

    def __repr__(self):
        return "<VServer %s>" % self.get_name()

    # deterministic hashing: tahoe keeps IServer objects in sets and dict keys; the default
    # id()-based hash would make their iteration order depend on memory addresses
    def __hash__(self):
        return int.from_bytes(self.serverid[:8], "big") ^ self._salt

    def __eq__(self, other):
        return self is other

    def __copy__(self):
        return self

    def __deepcopy__(self, memo):
        return self

    def upload_permitted(self):
        return self.permitted

    def get_serverid(self):
        return self.serverid

    def get_permutation_seed(self):
        return self.serverid

    def get_lease_seed(self):
        return self.serverid

    def get_foolscap_write_enabler_seed(self):
        return self.serverid

    def get_name(self):
        return idlib.shortnodeid_b2a(self.serverid).encode("utf-8")

    def get_longname(self):
        return idlib.nodeid_b2a(self.serverid)

    def get_nickname(self):
        return "nick"

    def get_rref(self):
        return self.rref

    def get_storage_server(self):
        if self.rref is None:
            return None
        return _StorageServer(lambda: self.rref)

    def get_version(self):
        return self.rref.version

    def is_connected(self):
        return True

    def start_connecting(self, trigger_cb):
        raise NotImplementedError


@implementer(IStorageBroker)
class VBroker(object):
    def __init__(self):
        self.servers = []
        self.preferred = []

    def get_servers_for_psi(self, peer_selection_index, for_upload=False):   # same default as StorageFarmBroker
        def _permuted(server):
            return permute_server_hash(peer_selection_index, server.get_permutation_seed())
        servers = self.servers
        if for_upload:
            servers = [s for s in servers if s.upload_permitted()]
        return sorted(servers, key=_permuted)

    def get_connected_servers(self):
        return frozenset(self.servers)

    def get_known_servers(self):
        return frozenset(self.servers)

    def get_all_serverids(self):
        return frozenset(s.get_serverid() for s in self.servers)

    def get_nickname_for_serverid(self, serverid):
        return None

    def get_stub_server(self, serverid):
        for s in self.servers:
            if s.get_serverid() == serverid:
                return s
        return VServer(serverid, None)

    def when_connected_enough(self, threshold):
        return defer.succeed(None)


_KEYS = None


def fixture_keys():
    global _KEYS
    if _KEYS is None:
        ders = json.load(open(os.path.join(HERE, "fixtures", "rsa2048.json")))
        _KEYS = []
        for h in ders:
            priv, pub = rsa.create_signing_keypair_from_string(bytes.fromhex(h))
            _KEYS.append((pub, priv))
    return _KEYS


class FixtureKeyGenerator(object):
    def __init__(self, start=0):
        self.i = start

    def generate(self):
        keys = fixture_keys()
        k = keys[self.i % len(keys)]
        self.i += 1
        return defer.succeed(k)


class VClient(service.MultiService):
    """the minimum of allmydata.client._Client that Uploader / NodeMaker need"""

    def __init__(self, grid, ci, k=3, n=10, happy=7, max_segment_size=128 * 1024, convergence=b"conv", mutable_default=0, key_start=0):
        service.MultiService.__init__(self)
        self.grid, self.ci = grid, ci
        self.encoding_params = {"k": k, "n": n, "happy": happy, "max_segment_size": max_segment_size}
        self._secret_holder = SecretHolder(b"lease-secret-%d" % ci, convergence)
        self.storage_broker = VBroker()
        self.history = None
        self.stats_provider = None
        self.terminator = Terminator()
        self.terminator.setServiceParent(self)
        self.uploader = Uploader(None, None, None)
        self.uploader.setServiceParent(self)
        self.key_generator = FixtureKeyGenerator(key_start)
        self.nodemaker = NodeMaker(self.storage_broker, self._secret_holder, None, self.uploader,
                                   self.terminator, self.encoding_params, mutable_default,
                                   self.key_generator, None)
        self.conns = {}
        self.running = 1  # Uploader.upload asserts parent.running? (MultiService attr)

    def get_encoding_parameters(self):
        return self.encoding_params

    def get_storage_broker(self):
        return self.storage_broker

    def get_history(self):
        return None

    def get_renewal_secret(self):
        return self._secret_holder.get_renewal_secret()

    def get_cancel_secret(self):
        return self._secret_holder.get_cancel_secret()

    def upload(self, uploadable, reactor=None):
        return self.uploader.upload(uploadable, reactor=reactor)

    def create_node_from_uri(self, write_uri, read_uri=None, deep_immutable=False, name="<unknown name>"):
        return self.nodemaker.create_from_cap(write_uri, read_uri, deep_immutable=deep_immutable, name=name)


# ------------------------------------------------------------------------------ deterministic hashing
# tahoe keeps several kinds of objects in sets / as dict keys and iterates over them; with the
# default id()-based hash the iteration order depends on memory addresses and an execution would
# not be a pure function of its choice list.  From the harness (no source change) these classes get
# a hash equal to a serial number handed out at first use; the serial restarts with every Grid.
_serial = [0]


def _serial_hash(self):
    try:
        return self.__dict__["_vt_serial"]
    except KeyError:
        _serial[0] += 1
        self.__dict__["_vt_serial"] = _serial[0]
        return _serial[0]


def determinize():
    import importlib
    for modname, clsnames in [
        ("allmydata.immutable.upload", ["ServerTracker"]),
        ("allmydata.immutable.downloader.finder", ["RequestToken"]),
        ("allmydata.immutable.downloader.share", ["Share", "CommonShare"]),
        ("allmydata.immutable.downloader.fetcher", ["SegmentFetcher"]),
        ("allmydata.immutable.layout", ["WriteBucketProxy", "ReadBucketProxy"]),
        ("allmydata.mutable.layout", ["SDMFSlotWriteProxy", "MDMFSlotWriteProxy", "MDMFSlotReadProxy"]),
        ("allmydata.mutable.filenode", ["MutableFileNode"]),
    ]:
        try:
            m = importlib.import_module(modname)
        except Exception:  # noqa
            continue
        for cn in clsnames:
            cls = getattr(m, cn, None)
            if cls is not None and "__hash__" not in cls.__dict__ and "__eq__" not in cls.__dict__:
                cls.__hash__ = _serial_hash


determinize()


def server_id(si):
    return hashlib.sha1(b"vt-server-%d" % si).digest()


class Grid(object):
    """S real storage servers + C light clients, all traffic through one Sched."""

    def __init__(self, nservers, nclients=1, chooser=None, fault_kinds=(), split=False, client_kw=None,
                 server_kw=None, restore=None):
        _counter[0] += 1
        boot.urandom.reset(boot.SEED, b"grid")      # same random stream for every execution
        _serial[0] = 0
        import random as _random
        _random.seed(boot.SEED)                      # BackoffAgent's retry delays (random.normalvariate)
        self.base = "/dev/shm/vt-%d/g%d" % (os.getpid(), _counter[0])
        if os.path.exists(self.base):
            shutil.rmtree(self.base)
        os.makedirs(self.base)
        self.sched = Sched(chooser, fault_kinds, split)
        if os.environ.get("VERIF_CPU"):              # env: experiments only; checks call sched.cpu_events() per case
            self.sched.cpu_events()
        self.servers = []      # StorageServer
        self.fss = []          # FoolscapStorageServer
        self.ids = []
        for si in range(nservers):
            kw = dict((server_kw or {}).get(si, {}))
            d = os.path.join(self.base, "s%d" % si)
            ss = StorageServer(d, server_id(si), clock=R, **kw)
            self.servers.append(ss)
            self.fss.append(FoolscapStorageServer(ss))
            self.ids.append(server_id(si))
        if restore:
            self.restore_disk(restore)
        self.clients = []
        for ci in range(nclients):
            kw = dict(client_kw or {})
            if isinstance(client_kw, list):
                kw = dict(client_kw[ci])
            kw.setdefault("key_start", ci * 4)
            c = VClient(self, ci, **kw)
            c.startService()
            for si in range(nservers):
                self.connect(c, si)
            self.clients.append(c)

    def connect(self, c, si, permitted=True):
        conn = Conn(c.ci, si)
        c.conns[si] = conn
        rref = VRef(self.sched, self.fss[si], conn, "c2s")
        rref.version = self.fss[si].remote_get_version()
        c.storage_broker.servers.append(VServer(self.ids[si], rref, permitted, salt=c.ci))
        return conn

    # ---------------------------------------------------------------- disk ground truth
    def share_files(self):
        """{(server, relpath under shares/): bytes} for every share file incl. incoming"""
        out = {}
        for si, ss in enumerate(self.servers):
            root = os.path.join(self.base, "s%d" % si, "shares")
            for dp, dn, fn in os.walk(root):
                for f in fn:
                    p = os.path.join(dp, f)
                    out[(si, os.path.relpath(p, root))] = open(p, "rb").read()
        return out

    def save_disk(self):
        return self.share_files()

    def restore_disk(self, snap):
        for (si, rel), data in snap.items():
            p = os.path.join(self.base, "s%d" % si, "shares", rel)
            os.makedirs(os.path.dirname(p), exist_ok=True)
            with open(p, "wb") as f:
                f.write(data)

    def disk_digest(self):
        h = hashlib.sha256()
        for k, v in sorted(self.share_files().items()):
            h.update(repr(k).encode() + hashlib.sha256(v).digest())
        return h.hexdigest()[:16]

    def close(self):
        self.sched.cpu_events(False)
        try:
            for c in self.clients:
                c.terminator.stopService()
        except Exception:  # noqa
            pass
        # drop every timer this grid left behind so that the next execution starts clean
        for dc in R.getDelayedCalls():
            dc.cancel()
        shutil.rmtree(self.base, ignore_errors=True)

    # ---------------------------------------------------------------- driving
    def wait(self, d, explore=None):
        """run the scheduler until d fires (or nothing is enabled).  returns box list."""
        b = box(d) if isinstance(d, defer.Deferred) else d
        if explore is not None:
            old = self.sched.explore
            self.sched.explore = explore
        try:
            self.sched.run(until=b)
        finally:
            if explore is not None:
                self.sched.explore = old
        return b

    def quiesce(self):
        """deliver everything pending and fire all timers (default choices)"""
        old = self.sched.explore
        self.sched.explore = False
        try:
            self.sched.run()
        finally:
            self.sched.explore = old


def cleanup_tmp():
    shutil.rmtree("/dev/shm/vt-%d" % os.getpid(), ignore_errors=True)


# ------------------------------------------------------------------------------ exploration
def cost(prefix, trace):
    dev = f = 0
    for i, pick in enumerate(prefix):
        if pick:
            kind = trace[i][2][pick][0]
            if kind.startswith("fault"):
                f += 1
            else:
                dev += 1
    return dev, f


def children(prefix, trace, d_bound, f_bound):
    dev, f = cost(prefix, trace)
    out = []
    for i in range(len(prefix), len(trace)):
        n, pick, metas = trace[i]
        for alt in range(1, n):
            isf = metas[alt][0].startswith("fault")
            if isf:
                if f + 1 > f_bound:
                    continue
            elif dev + 1 > d_bound:
                continue
            out.append(list(prefix) + [0] * (i - len(prefix)) + [alt])
    return out


def explore_subtree(execute, root_prefix, d_bound, f_bound, on_exec, max_exec=None):
    """DFS over all extensions of root_prefix within the bounds.
    execute(prefix) -> (trace, info); on_exec(prefix, trace, info)."""
    stack = [list(root_prefix)]
    n = 0
    capped = False
    while stack:
        p = stack.pop()
        trace, info = execute(p)
        n += 1
        on_exec(p, trace, info)
        if max_exec and n >= max_exec:
            capped = bool(stack)
            break
        stack.extend(children(p, trace, d_bound, f_bound))
    return n, capped


def split_tasks(pmap, chunk_fn, cases, extra, d_bound, f_bound):
    """Two-phase parallel exploration.  chunk_fn(tasks, *extra, d, f, max_exec, collect_children)
    where a task is (case, root_prefix).  Phase 1 runs every root once and collects its first-level
    children; phase 2 explores each child's subtree as a separate task.  Returns merged Result."""
    r1 = pmap(chunk_fn, [(c, []) for c in cases], tuple(extra) + (0, 0, None, (d_bound, f_bound)))
    kids = r1.notes.pop("children", [])
    if kids:
        r2 = pmap(chunk_fn, kids, tuple(extra) + (d_bound, f_bound, None, None), chunks=min(len(kids), 512))
        r1.merge(r2)
    return r1
