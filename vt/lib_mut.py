"""Shared helpers for mutable-file checks on Engine G."""
from . import boot, grid, lib_imm
from .lib_imm import failure_name, RecordingConsumer

import allmydata.mutable.publish as _pub
from allmydata.mutable.publish import MutableData
from allmydata.interfaces import SDMF_VERSION, MDMF_VERSION

SEG = 12
_pub.DEFAULT_MUTABLE_MAX_SEGMENT_SIZE = SEG     # MDMF segment size (module constant read at publish time)
VERS = {"SDMF": SDMF_VERSION, "MDMF": MDMF_VERSION}


def pattern(tag, n):
    """n bytes that identify (tag, position): any misplaced byte is visible"""
    return bytes(((tag * 37 + i * 11 + (i >> 3)) % 251) + 1 for i in range(n))


def create(g, fmt, content, ci=0, explore=False):
    c = g.clients[ci]
    return g.wait(c.nodemaker.create_mutable_file(MutableData(content), version=VERS[fmt]), explore=explore)


def download(g, node, explore=False):
    return g.wait(node.download_best_version(), explore=explore)


def read_range(g, node, offset, size):
    b = g.wait(node.get_best_readable_version())
    if not b or b[0][0] != "ok":
        return b, None
    mv = b[0][1]
    cons = RecordingConsumer()
    b2 = g.wait(mv.read(cons, offset, size))
    return b2, cons


# ------------------------------------------------------------------ ground truth of mutable shares
import struct
from allmydata.storage.server import storage_index_to_dir as _si_dir


def parse_mutable_share(blob):
    """independent parser: container file -> dict(fmt, seqnum, root_hash, k, N, segsize, datalen, checkstring, data)"""
    (magic, we_nodeid, we, datalen, extra) = struct.unpack(">32s20s32sQQ", blob[:100])
    data = blob[468:468 + datalen]
    if len(data) < 41:
        return {"fmt": "?", "seqnum": None, "root_hash": None, "data": data}
    ver = data[0]
    seqnum, root_hash = struct.unpack(">Q32s", data[1:41])
    out = {"seqnum": seqnum, "root_hash": root_hash, "data": data, "write_enabler": we}
    if ver == 0:
        out["fmt"] = "SDMF"
        (salt,) = struct.unpack(">16s", data[41:57])
        k, N, segsize, dl = struct.unpack(">BBQQ", data[57:75])
        out.update(k=k, N=N, segsize=segsize, datalen=dl, salt=salt, checkstring=data[:57])
    elif ver == 1:
        out["fmt"] = "MDMF"
        k, N, segsize, dl = struct.unpack(">BBQQ", data[41:59])
        out.update(k=k, N=N, segsize=segsize, datalen=dl, checkstring=data[:41])
    else:
        out["fmt"] = "?"
    return out


def mutable_shares(g, storage_index):
    """{(server, shnum): parsed share} for every mutable share file of this SI on disk"""
    rel = _si_dir(storage_index)
    out = {}
    for (sv, path), blob in g.share_files().items():
        d, fn = path.rsplit("/", 1)
        if d == rel and fn.isdigit():
            out[(sv, int(fn))] = parse_mutable_share(blob)
    return out


def versions(shares):
    """{(seqnum, root_hash): set(shnum)}"""
    out = {}
    for (sv, sh), p in shares.items():
        out.setdefault((p["seqnum"], p["root_hash"]), set()).add(sh)
    return out
