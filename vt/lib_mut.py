"""Shared helpers for mutable-file checks on Engine G."""
from . import boot, grid, lib_imm
from .lib_imm import failure_name, RecordingConsumer

import allmydata.mutable.publish as _pub
from allmydata.mutable.publish import MutableData
from allmydata.interfaces import SDMF_VERSION, MDMF_VERSION

SEG = 12
_pub.DEFAULT_MUTABLE_MAX_SEGMENT_SIZE = SEG     # MDMF segment size (module constant read at publish time)
VERS = {"SDMF": SDMF_VERSION, "MDMF": MDMF_VERSION}


def pattern(tag, n):
    """n bytes that identify (tag, position): any misplaced byte is visible"""
    return bytes(((tag * 37 + i * 11 + (i >> 3)) % 251) + 1 for i in range(n))


def create(g, fmt, content, ci=0, explore=False):
    c = g.clients[ci]
    return g.wait(c.nodemaker.create_mutable_file(MutableData(content), version=VERS[fmt]), explore=explore)


def download(g, node, explore=False):
    return g.wait(node.download_best_version(), explore=explore)


def read_range(g, node, offset, size):
    b = g.wait(node.get_best_readable_version())
    if not b or b[0][0] != "ok":
        return b, None
    mv = b[0][1]
    cons = RecordingConsumer()
    b2 = g.wait(mv.read(cons, offset, size))
    return b2, cons
