#!/bin/bash
# usage: vt/seedtest.sh <ID> [tier] [extra check ids...]   -- confirm a seeded change and run our checks against it
ID=$1; TIER=${2:-quick}; shift; shift
WT=/tmp/wt-$ID; SD=/tmp/seed-$ID; PROP=${ID%[a-z]}
cd /verif
echo "== demo on original tree"
PYTHONPATH=/repo/src:/tmp/rmshim timeout 600 /venv/bin/python $SD/demo.py > $SD/demo-orig.log 2>&1; O=$?
echo "exit $O"
echo "== demo with the change"
PYTHONPATH=$WT/src:/tmp/rmshim timeout 600 /venv/bin/python $SD/demo.py > $SD/demo-mut.log 2>&1; M=$?
echo "exit $M"; tail -3 $SD/demo-mut.log
echo "== baseline tests with the change"
(cd $WT && timeout 900 /venv/bin/python -m pytest -q -p no:cacheprovider --timeout=900 --continue-on-collection-errors 2>&1 | tail -1)
rm -rf $WT/allmydata.test.* $WT/eliot.log 2>/dev/null
for P in $PROP "$@"; do
  echo "== ./check $P $TIER against the change"
  VERIF_OUT=$SD/out VERIF_REPO_SRC=$WT/src VERIF_WORKERS=${VERIF_WORKERS:-10} timeout 3000 ./check $P $TIER > $SD/check-$P.log 2>&1; C=$?
  echo "check exit $C"; grep -h "^VIOLATION\|sig=" $SD/check-$P.log | head -6; tail -1 $SD/check-$P.log | cut -c1-300
done
