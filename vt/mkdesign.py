"""Regenerate DESIGN.md sections 6.3 (findings) and 6.4 (seeded changes) from known_findings.json and seeded/*/meta.json."""
import glob
import json
import os

HERE = os.path.dirname(os.path.dirname(os.path.abspath(__file__)))
TAIL_63 = """
C29 is recorded rather than repaired: the data length of an immutable share is *derived from the file size*
(header count x 72 bytes of leases), so the two-write lease update cannot be made atomic without trusting the
"unused" length field of the header (ambiguous for short shares and for pre-1.3 modulo semantics) or a new container
version - not a small safe patch.

Observations recorded but not judged (outside every statement): zero-lease shares are counted as recovered but never
deleted (C26); mutable container growth killed mid-way loses leases, as the code comment admits (C29);
`web.common._getChild_failed` builds `ErrorPage(None, ...)` for unmapped exceptions and breaks the HTTP response (C41);
`x-tahoe-future-test-*` caps dropped from immutable directories (C19); multi-range requests answered 416 when only the
first range is unsatisfiable (C40); the repairer leaves corrupt shares in place (C45); `MutableFileVersion.modify()` retries
after `UncoordinatedWriteError` by re-downloading the *stale* version it was created for, so under real contention the
retry either fails (NotEnoughShares/KeyError) or re-applies the modifier to old contents - no listed property covers
cross-client convergence of modify (C12 is about detection, C13 about one client);
the mutable repairer downloads through a fresh MODE_READ servermap, so when every share of the best version lies beyond
the first 2k servers of the permuted list while an older version is recoverable within them, an unforced repair of a
recoverable file fails with UnrecoverableFileError (22 of the C14 spread layouts; C14 only constrains successful repairs);
a second helper client whose `upload` call reaches the helper after the upload it was told to join has failed is handed
that failure and has to retry (C44, counted as a resumed upload).
"""


def main():
    p = os.path.join(HERE, "DESIGN.md")
    s = open(p).read()
    i = s.index("### 6.3 Findings on the unchanged tree")
    kf = json.load(open(os.path.join(HERE, "known_findings.json")))["findings"]
    rows = {}
    for f in kf:
        rows.setdefault((f["property"], f.get("commit", "-"), f["status"]), []).append(f)
    L = ["### 6.3 Findings on the unchanged tree\n",
         "Every entry was first reproduced against the real code with a minimal input / history (the `what` text, also in",
         "`known_findings.json`); each `fix:` is one commit in /repo, recorded as `fixed: property=<id> <commit> <what failed>`.",
         "A fixed entry suppresses nothing: the check is simply quiet on the repaired tree and reports the violation again if it returns.\n",
         "| prop | disposition | defect (minimal failing case) |", "|---|---|---|"]
    for (prop, commit, status), fs in sorted(rows.items()):
        what = fs[0]["what"].replace("|", "/")
        extra = "" if len(fs) == 1 else " (+%d more signatures of the same defect)" % (len(fs) - 1)
        L.append("| %s | %s | %s%s |" % (prop, ("fix %s" % commit) if status == "fixed" else "**known finding**", what[:330], extra))
    metas = []
    for d in sorted(glob.glob(os.path.join(HERE, "seeded", "*", "meta.json"))):
        m = json.load(open(d))
        metas.append((os.path.basename(os.path.dirname(d)), m.get("property"), m.get("confirmed_by_me", {}).get("our_checks", "")))
    missed = [x for x in metas if "MISSED" in x[2] or "HARNESS" in x[2] or "harness error" in x[2]]
    M = ["### 6.4 Seeded changes (independent sub-agents: property text + scratch worktree only)\n",
         "%d changes are filed under `seeded/<name>/` (patch.diff, demo.py, meta.json: what it needs to manifest, what was run). Each was" % len(metas),
         "confirmed by me: the demo exits 0 on the unchanged tree and 1 with the change, the 151 baseline tests still pass with it, and",
         "`vt/seedtest.sh` ran the property's quick check against the changed worktree (`VERIF_REPO_SRC`, outputs kept out of /verif).\n",
         "%d were caught by the checks as first built; %d exposed a weakness that was then repaired in the machinery (never in the seed):\n" % (len(metas) - len(missed), len(missed)),
         "| seed | what was missing and what was changed |", "|---|---|"]
    for name, prop, note in missed:
        M.append("| %s | %s |" % (name, note.replace("|", "/")[:420]))
    M.append("")
    M.append("All %d seeds are detected by the current checks (quick tier); which check and signature is in each meta.json." % len(metas))
    M.append("")
    open(p, "w").write(s[:i] + "\n".join(L) + "\n" + TAIL_63 + "\n" + "\n".join(M) + "\n")
    print("findings rows", len(rows), "seeds", len(metas), "missed-then-repaired", len(missed))


if __name__ == "__main__":
    main()
