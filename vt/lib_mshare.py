"""Independent field map and forgery tools for stored mutable shares (SDMF / MDMF).

Written from docs/specifications/mutable.rst and the layout comments only: nothing here calls
allmydata.mutable.*.  Used by the C10 / C11 / C14 checks to build damaged and mixed layouts out of
the share files of really published versions.
"""
import functools
import os
import struct

from . import boot, grid
from allmydata.storage.server import storage_index_to_dir
import allmydata.storage.crawler as _crawler

# StorageServer.__init__ builds two crawlers which each base32-encode 1024 prefixes (8 ms per
# server): si_b2a is pure, memoise the crawler module's reference (module global, /repo untouched).
if not hasattr(_crawler.si_b2a, "cache_info"):
    _crawler.si_b2a = functools.lru_cache(maxsize=4096)(_crawler.si_b2a)

# Retrieve iterates over a set of (shnum, server, timestamp) tuples; grid.VServer hashes by id(), so
# which of two servers holding the same share number comes last would depend on memory addresses.
# Give the harness's server objects a stable hash (equality stays identity) for the processes that
# import this module: the same case then takes the same path in every process.
if grid.VServer.__hash__ is object.__hash__:
    grid.VServer.__hash__ = lambda self: hash(self.serverid)

CONT = 468          # container header + four lease slots


# ------------------------------------------------------------------ container level
def share_data(blob):
    (dl,) = struct.unpack(">Q", blob[84:92])
    return blob[CONT:CONT + dl]


def container(blob, newdata):
    """the container file `blob` carrying `newdata` as share data instead (write enabler and lease
    slots kept, data length / extra-lease offset consistent, no extra leases)"""
    return blob[:84] + struct.pack(">QQ", len(newdata), CONT + len(newdata)) + blob[100:CONT] + newdata + b"\x00\x00\x00\x00"


def share_path(g, si, server, shnum):
    return os.path.join(g.base, "s%d" % server, "shares", storage_index_to_dir(si), str(shnum))


def write_share(g, si, server, shnum, blob):
    p = share_path(g, si, server, shnum)
    if blob is None:
        if os.path.exists(p):
            os.unlink(p)
        return
    os.makedirs(os.path.dirname(p), exist_ok=True)
    with open(p, "wb") as f:
        f.write(blob)


def slots_of(snapshot, si):
    """{(server, shnum): container blob} of one storage index in a g.save_disk() snapshot"""
    rel = storage_index_to_dir(si)
    out = {}
    for (sv, path), blob in snapshot.items():
        d, fn = path.rsplit("/", 1)
        if d == rel and fn.isdigit():
            out[(sv, int(fn))] = blob
    return out


# ------------------------------------------------------------------ field map
SDMF_HEAD = [("version", 0, 1), ("seqnum", 1, 9), ("root_hash", 9, 41), ("salt", 41, 57), ("k", 57, 58), ("N", 58, 59),
             ("segsize", 59, 67), ("datalen", 67, 75),
             ("o_signature", 75, 79), ("o_share_hash_chain", 79, 83), ("o_block_hash_tree", 83, 87), ("o_share_data", 87, 91),
             ("o_enc_privkey", 91, 99), ("o_EOF", 99, 107)]
MDMF_HEAD = [("version", 0, 1), ("seqnum", 1, 9), ("root_hash", 9, 41), ("k", 41, 42), ("N", 42, 43), ("segsize", 43, 51),
             ("datalen", 51, 59),
             ("o_enc_privkey", 59, 67), ("o_share_hash_chain", 67, 75), ("o_signature", 75, 83), ("o_verification_key", 83, 91),
             ("o_verification_key_end", 91, 99), ("o_share_data", 99, 107), ("o_block_hash_tree", 107, 115), ("o_EOF", 115, 123)]


def _int(data, a, b):
    return int.from_bytes(data[a:b], "big")


def fields(data):
    """{name: (start, end)} (offsets into the share data) of every field of a well-formed share.
    Sub-fields: shc_node<i> (2-byte index + hash), bht_node<i>, block<i>, salt<i> (MDMF)."""
    f = {}
    ver = data[0]
    head = SDMF_HEAD if ver == 0 else MDMF_HEAD
    for name, a, b in head:
        f[name] = (a, b)
    o = {name: _int(data, a, b) for name, a, b in head if name.startswith("o_")}
    k = _int(data, *f["k"])
    segsize = _int(data, *f["segsize"])
    datalen = _int(data, *f["datalen"])
    if ver == 0:
        f["signed_prefix"] = (0, 75)
        f["verification_key"] = (107, o["o_signature"])
        f["signature"] = (o["o_signature"], o["o_share_hash_chain"])
        f["share_hash_chain"] = (o["o_share_hash_chain"], o["o_block_hash_tree"])
        f["block_hash_tree"] = (o["o_block_hash_tree"], o["o_share_data"])
        f["share_data"] = (o["o_share_data"], o["o_enc_privkey"])
        f["enc_privkey"] = (o["o_enc_privkey"], o["o_EOF"])
        f["block0"] = f["share_data"]
    else:
        f["signed_prefix"] = (0, 59)
        f["enc_privkey"] = (o["o_enc_privkey"], o["o_share_hash_chain"])
        f["share_hash_chain"] = (o["o_share_hash_chain"], o["o_signature"])
        f["signature"] = (o["o_signature"], o["o_verification_key"])
        f["verification_key"] = (o["o_verification_key"], o["o_verification_key_end"])
        f["gap"] = (o["o_verification_key_end"], o["o_share_data"])
        f["share_data"] = (o["o_share_data"], o["o_block_hash_tree"])
        f["block_hash_tree"] = (o["o_block_hash_tree"], o["o_EOF"])
        nseg = (datalen + segsize - 1) // segsize if segsize else 0
        bs = segsize // k if k else 0
        pos = o["o_share_data"]
        for i in range(nseg):
            if i == nseg - 1 and datalen % segsize:
                t = datalen % segsize
                this = ((t + k - 1) // k)
            else:
                this = bs
            f["salt%d" % i] = (pos, pos + 16)
            f["block%d" % i] = (pos + 16, pos + 16 + this)
            pos += 16 + this
    a, b = f["share_hash_chain"]
    for i in range((b - a) // 34):
        f["shc_node%d" % i] = (a + 34 * i, a + 34 * i + 34)
    a, b = f["block_hash_tree"]
    for i in range((b - a) // 32):
        f["bht_node%d" % i] = (a + 32 * i, a + 32 * i + 32)
    return f


def put(data, span, repl):
    a, b = span
    assert len(repl) == b - a, (span, len(repl))
    return data[:a] + repl + data[b:]


def setint(data, span, value):
    a, b = span
    return data[:a] + (value % (1 << (8 * (b - a)))).to_bytes(b - a, "big") + data[b:]


def flip(data, pos, mask=0x01):
    return data[:pos] + bytes([data[pos] ^ mask]) + data[pos + 1:]


def version_id(data):
    """(seqnum, root_hash) or None for something that is too short"""
    if len(data) < 41:
        return None
    return (_int(data, 1, 9), data[9:41])


# ------------------------------------------------------------------ attacker's tools
def pss_sign(priv, msg):
    """RSASSA-PSS / SHA-256 / MGF1-SHA-256 / 32-byte salt, straight from `cryptography`"""
    from cryptography.hazmat.primitives import hashes
    from cryptography.hazmat.primitives.asymmetric import padding
    return priv.sign(msg, padding.PSS(mgf=padding.MGF1(hashes.SHA256()), salt_length=32), hashes.SHA256())


def pub_der(pub):
    from cryptography.hazmat.primitives.serialization import Encoding, PublicFormat
    return pub.public_bytes(Encoding.DER, PublicFormat.SubjectPublicKeyInfo)


def resign(data, attacker, seqnum=None, swap_key=True):
    """the share with (optionally) another sequence number, signed by the attacker's key; the
    verification key is replaced by the attacker's when swap_key (same DER length: 2048-bit keys)"""
    pub, priv = attacker
    f = fields(data)
    if seqnum is not None:
        data = setint(data, f["seqnum"], seqnum)
    sig = pss_sign(priv, data[f["signed_prefix"][0]:f["signed_prefix"][1]])
    data = put(data, f["signature"], sig)
    if swap_key:
        data = put(data, f["verification_key"], pub_der(pub))
    return data


# ------------------------------------------------------------------ lying / dead servers
def install_server_behaviour(g, dead=(), replay=None):
    """dead: servers answering every call with an error.  replay: {server: {shnum: container blob}}
    servers that answer slot_readv from these old share files whatever they hold on disk."""
    from twisted.python.failure import Failure
    from foolscap.api import RemoteException
    sched = g.sched
    real = sched._execute
    dead = set(dead)
    replay = replay or {}

    def _execute(ev):
        sv = ev.conn.si
        if ev.direction == "c2s" and sv in dead:
            try:
                raise grid.IntentionalError("server unavailable")
            except grid.IntentionalError:
                return ("err", Failure(RemoteException(Failure())))
        if ev.direction == "c2s" and sv in replay and ev.meth == "slot_readv":
            storage_index, shnums, readv = ev.args[:3]
            out = {}
            for sh, blob in replay[sv].items():
                if shnums and sh not in shnums:
                    continue
                d = share_data(blob)
                out[sh] = [d[o:o + ln] for (o, ln) in readv]
            return ("ok", out)
        return real(ev)
    sched._execute = _execute


# ------------------------------------------------------------------ CPU work in a later reactor turn
import contextlib


@contextlib.contextmanager
def async_cpu():
    """vt.boot makes allmydata's defer_to_thread() run its function synchronously.  In production the
    result of a CPU-pool call arrives in a LATER reactor turn; inside this context the mutable-file
    modules get a defer_to_thread that does exactly that (deterministically, through the virtual
    reactor), so that behaviour depending on 'hash validation completes asynchronously' is the
    production one."""
    from twisted.internet import task
    import allmydata.codec as _codec
    import allmydata.mutable.retrieve as _rt
    import allmydata.mutable.publish as _pb
    import allmydata.mutable.filenode as _fn

    async def later(f, *a, **kw):
        await task.deferLater(boot.R, 0, lambda: None)
        return f(*a, **kw)
    mods = [_codec, _rt, _pb, _fn]
    saved = [m.defer_to_thread for m in mods]
    for m in mods:
        m.defer_to_thread = later
    try:
        yield
    finally:
        for m, s in zip(mods, saved):
            m.defer_to_thread = s


# ------------------------------------------------------------------ runaway guard
class _BoundedPending(list):
    limit = 400

    def append(self, ev):
        if len(self) >= self.limit:
            raise grid.HarnessError("more than %d undelivered remote calls queued without the scheduler ever being reached: the code under test is spinning" % self.limit)
        list.append(self, ev)


def bound_pending(g, limit=400):
    """A loop inside the code under test that issues a remote call per iteration and never returns
    to the reactor would eat all memory; make the (harness-side) call queue refuse to grow beyond
    `limit`: the raise surfaces inside the spinning code as grid.HarnessError and ends the operation."""
    q = _BoundedPending(g.sched.pending)
    q.limit = limit
    g.sched.pending = q


def rehome(blob, server_index, cap_w):
    """the container file as server `server_index` would have created it for the holder of write-cap
    `cap_w`: the write enabler in the container header is per (file, server)"""
    from allmydata import uri as _uri
    from allmydata.util import hashutil as _hu
    wk = _uri.from_string(cap_w).writekey
    sid = grid.server_id(server_index)
    return blob[:32] + sid + _hu.ssk_write_enabler_hash(wk, sid) + blob[84:]


EPOCH = 1700000000.0


def reset_clock():
    """Put the virtual clock back to a fixed epoch before an execution (possible whenever no timer is
    pending, which Grid.close() guarantees).  Timestamps end up inside hashed tuples in the servermap,
    so without this the iteration order of a set - and with it which of two copies of a share number
    Retrieve picks - would depend on how much this worker process had executed before."""
    if not boot.R.getDelayedCalls():
        boot.R.rightNow = EPOCH
