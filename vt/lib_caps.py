"""Independent reference for capability strings and key derivations (C15, C16, C17, C43).

Nothing in this module imports allmydata.  It is written from
/repo/docs/specifications/{uri,mutable,dirnodes,file-encoding,lease}.rst:

  * base32: RFC 3548 alphabet, lower case, no padding, *canonical* = the unused low bits of
    the last character are zero and the length is one a whole number of bytes produces;
  * the grammar of the 18 capability kinds (9 file kinds, 9 DIR2 wrappers);
  * tagged SHA-256d hashes: SHA256(SHA256(netstring(tag) + value)), pair hashes
    SHA256d(netstring(tag) + netstring(a) + netstring(b)), truncation by prefix.

The tag strings are not all printed in the specification; they are pinned here by the
known-answer vectors of the project's own test-suite (test_hashutil.py, test_uri.py,
docs/specifications/derive_renewal_secret.py) which `selfcheck()` replays against THIS
implementation: a reference that disagrees with a published vector is a harness error.
"""
import hashlib
import re

# ------------------------------------------------------------------ base32
B32 = b"abcdefghijklmnopqrstuvwxyz234567"
_B32VAL = {c: i for i, c in enumerate(B32)}


def b32enc(data):
    bits = 0
    nbits = 0
    out = bytearray()
    for byte in data:
        bits = (bits << 8) | byte
        nbits += 8
        while nbits >= 5:
            nbits -= 5
            out.append(B32[(bits >> nbits) & 31])
        bits &= (1 << nbits) - 1
    if nbits:
        out.append(B32[(bits << (5 - nbits)) & 31])
    return bytes(out)


_TO_B32HEX = bytes.maketrans(B32, b"0123456789abcdefghijklmnopqrstuv")


def b32dec(s):
    """canonical decode: bytes, or None if `s` is not exactly b32enc(x) for some x."""
    n = len(s)
    if n == 0:
        return b""
    if s.translate(None, B32):
        return None                     # a character outside the alphabet
    spare = (5 * n) % 8
    if spare >= 5:
        return None                     # a whole unused character: no byte string encodes to this length
    value = int(s.translate(_TO_B32HEX), 32)
    if value & ((1 << spare) - 1):
        return None                     # non-zero unused low bits: not canonical
    return (value >> spare).to_bytes((5 * n) // 8, "big")


def b32dec_slow(s):
    """bit-by-bit version of b32dec, used by selfcheck() to cross-check the fast one"""
    bits = 0
    nbits = 0
    out = bytearray()
    for c in s:
        v = _B32VAL.get(c)
        if v is None:
            return None
        bits = (bits << 5) | v
        nbits += 5
        if nbits >= 8:
            nbits -= 8
            out.append((bits >> nbits) & 255)
            bits &= (1 << nbits) - 1
    if nbits >= 5 or bits:
        return None
    return bytes(out)


# ------------------------------------------------------------------ hashes
def netstring(s):
    return b"%d:" % len(s) + s + b","


def sha256d(data):
    return hashlib.sha256(hashlib.sha256(data).digest()).digest()


def tagged(tag, val, n=None):
    h = sha256d(netstring(tag) + val)
    return h if n is None else h[:n]


def tagged_pair(tag, a, b, n=None):
    h = sha256d(netstring(tag) + netstring(a) + netstring(b))
    return h if n is None else h[:n]


T = {
    "chk_si": b"allmydata_immutable_key_to_storage_index_v1",
    "convergence": b"allmydata_immutable_content_to_key_with_added_secret_v1+",
    "client_renew": b"allmydata_client_renewal_secret_v1",
    "client_cancel": b"allmydata_client_cancel_secret_v1",
    "file_renew": b"allmydata_file_renewal_secret_v1",
    "file_cancel": b"allmydata_file_cancel_secret_v1",
    "bucket_renew": b"allmydata_bucket_renewal_secret_v1",
    "bucket_cancel": b"allmydata_bucket_cancel_secret_v1",
    "writekey": b"allmydata_mutable_privkey_to_writekey_v1",
    "wem": b"allmydata_mutable_writekey_to_write_enabler_master_v1",
    "we": b"allmydata_mutable_write_enabler_master_and_nodeid_to_write_enabler_v1",
    "fingerprint": b"allmydata_mutable_pubkey_to_fingerprint_v1",
    "readkey": b"allmydata_mutable_writekey_to_readkey_v1",
    "datakey": b"allmydata_mutable_readkey_to_datakey_v1",
    "ssk_si": b"allmydata_mutable_readkey_to_storage_index_v1",
    "child_key": b"allmydata_mutable_writekey_and_salt_to_dirnode_child_capkey_v1",
    "child_salt": b"allmydata_dirnode_child_rwcap_to_salt_v1",
}


def chk_storage_index(key):
    return tagged(T["chk_si"], key, 16)


def convergence_key(k, n, segsize, data, secret):
    tag = T["convergence"] + netstring(secret) + netstring(b"%d,%d,%d" % (k, n, segsize))
    return tagged(tag, data, 16)


# lease.rst: "client renewal secret is the sha256d tagged digest of (lease secret, client
# renewal tag)": the SECRET is in the tag position, the constant is the value.
def client_renewal_secret(lease_secret):
    return tagged(lease_secret, T["client_renew"])


def client_cancel_secret(lease_secret):
    return tagged(lease_secret, T["client_cancel"])


def file_renewal_secret(crs, si):
    return tagged_pair(T["file_renew"], crs, si)


def file_cancel_secret(ccs, si):
    return tagged_pair(T["file_cancel"], ccs, si)


def bucket_renewal_secret(frs, peerid):
    return tagged_pair(T["bucket_renew"], frs, peerid)


def bucket_cancel_secret(fcs, peerid):
    return tagged_pair(T["bucket_cancel"], fcs, peerid)


def renewal_secret_chain(lease_secret, si, peerid):
    return bucket_renewal_secret(file_renewal_secret(client_renewal_secret(lease_secret), si), peerid)


def cancel_secret_chain(lease_secret, si, peerid):
    return bucket_cancel_secret(file_cancel_secret(client_cancel_secret(lease_secret), si), peerid)


def ssk_writekey(privkey_der):
    return tagged(T["writekey"], privkey_der, 16)


def ssk_fingerprint(pubkey_der):
    return tagged(T["fingerprint"], pubkey_der)


def ssk_readkey(writekey):
    return tagged(T["readkey"], writekey, 16)


def ssk_storage_index(readkey):
    return tagged(T["ssk_si"], readkey, 16)


def ssk_write_enabler_master(writekey):
    return tagged(T["wem"], writekey)


def ssk_write_enabler(writekey, nodeid):
    return tagged_pair(T["we"], ssk_write_enabler_master(writekey), nodeid)


def ssk_datakey(iv, readkey):
    return tagged_pair(T["datakey"], iv, readkey, 16)


def dirnode_child_salt(rwcap):
    return tagged(T["child_salt"], rwcap, 16)


def dirnode_child_key(salt, writekey):
    return tagged_pair(T["child_key"], salt, writekey, 16)


def aes_ctr(key, data):
    """AES-128-CTR with an all-zero initial counter block (what tahoe uses everywhere),
    straight from the `cryptography` package (not via allmydata.crypto)."""
    from cryptography.hazmat.primitives.ciphers import Cipher, algorithms, modes
    from cryptography.hazmat.backends import default_backend
    c = Cipher(algorithms.AES(key), modes.CTR(b"\x00" * 16), backend=default_backend()).encryptor()
    return c.update(data) + c.finalize()


# known-answer vectors: (reference callable, args, base32 of the expected output)
def _kats():
    z20 = b"\x00" * 20
    return [
        ("tagged_hash", tagged, (b"tag", b"hello world"), b"yra322btzoqjp4ts2jon5dztgnilcdg6jgztgk7joi6qpjkitg2q"),
        ("tagged_hash", tagged, (b"different", b"hello world"), b"kfbsfssrv2bvtp3regne6j7gpdjcdjwncewriyfdtt764o5oa7ta"),
        ("tagged_hash", tagged, (b"different", b"goodbye world"), b"z34pzkgo36chbjz2qykonlxthc4zdqqquapw4bcaoogzvmmcr3zq"),
        ("tagged_pair_hash", tagged_pair, (b"tag", b"hello", b"world"), b"wmto44q3shtezwggku2fxztfkwibvznkfu6clatnvfog527sb6dq"),
        ("tagged_pair_hash", tagged_pair, (b"different", b"hello", b"world"), b"lzn27njx246jhijpendqrxlk4yb23nznbcrihommbymg5e7quh4a"),
        ("tagged_pair_hash", tagged_pair, (b"different", b"goodbye", b"world"), b"qnehpoypxxdhjheqq7dayloghtu42yr55uylc776zt23ii73o3oq"),
        ("storage_index_hash", chk_storage_index, (b"",), b"qb5igbhcc5esa6lwqorsy7e6am"),
        ("storage_index_hash", chk_storage_index, (b"x" * 16,), b"wvggbrnrezdpa5yayrgiw5nzja"),
        ("storage_index_hash", chk_storage_index, (b32dec(b"2ckv3dfzh6rgjis6ogfqhyxnzy"),), b"aarbseqqrpsfowduchcjbonscq"),
        ("convergence_hash", convergence_key, (3, 10, 100, b"", b"converge"), b"3mo6ni7xweplycin6nowynw2we"),
        ("my_renewal_secret_hash", client_renewal_secret, (b"",), b"ujhr5k5f7ypkp67jkpx6jl4p47pyta7hu5m527cpcgvkafsefm6q"),
        ("my_cancel_secret_hash", client_cancel_secret, (b"",), b"rjwzmafe2duixvqy6h47f5wfrokdziry6zhx4smew4cj6iocsfaa"),
        ("file_renewal_secret_hash", file_renewal_secret, (b"", b"si"), b"hzshk2kf33gzbd5n3a6eszkf6q6o6kixmnag25pniusyaulqjnia"),
        ("file_cancel_secret_hash", file_cancel_secret, (b"", b"si"), b"bfciwvr6w7wcavsngxzxsxxaszj72dej54n4tu2idzp6b74g255q"),
        ("bucket_renewal_secret_hash", bucket_renewal_secret, (b"", z20), b"e7imrzgzaoashsncacvy3oysdd2m5yvtooo4gmj4mjlopsazmvuq"),
        ("bucket_cancel_secret_hash", bucket_cancel_secret, (b"", z20), b"dvdujeyxeirj6uux6g7xcf4lvesk632aulwkzjar7srildvtqwma"),
        ("mutable_rwcap_key_hash", dirnode_child_key, (b"iv", b"wk"), b"6rvn2iqrghii5n4jbbwwqqsnqu"),
        ("ssk_writekey_hash", ssk_writekey, (b"",), b"ykpgmdbpgbb6yqz5oluw2q26ye"),
        ("ssk_write_enabler_master_hash", ssk_write_enabler_master, (b"",), b"izbfbfkoait4dummruol3gy2bnixrrrslgye6ycmkuyujnenzpia"),
        ("ssk_write_enabler_hash", ssk_write_enabler, (b"wk", z20), b"fuu2dvx7g6gqu5x22vfhtyed7p4pd47y5hgxbqzgrlyvxoev62tq"),
        ("ssk_pubkey_fingerprint_hash", ssk_fingerprint, (b"",), b"3opzw4hhm2sgncjx224qmt5ipqgagn7h5zivnfzqycvgqgmgz35q"),
        ("ssk_readkey_hash", ssk_readkey, (b"",), b"vugid4as6qbqgeq2xczvvcedai"),
        ("ssk_readkey_data_hash", ssk_datakey, (b"iv", b"rk"), b"73wsaldnvdzqaf7v4pzbr2ae5a"),
        ("ssk_storage_index_hash", ssk_storage_index, (b"",), b"j7icz6kigb6hxrej3tv4z7ayym"),
    ]


# docs/specifications/derive_renewal_secret.py: values captured from a real upload
LEASE_CHAIN_KATS = [
    (b"boity2cdh7jvl3ltaeebuiobbspjmbuopnwbde2yeh4k6x7jioga", b"vrttmwlicrzbt7gh5qsooogr7u",
     b"v67jiisoty6ooyxlql5fuucitqiok2ic", b"osd6wmc5vz4g3ukg64sitmzlfiaaordutrez7oxdp5kkze7zp5zq"),
    (b"boity2cdh7jvl3ltaeebuiobbspjmbuopnwbde2yeh4k6x7jioga", b"75gmmfts772ww4beiewc234o5e",
     b"v67jiisoty6ooyxlql5fuucitqiok2ic", b"35itmusj7qm2pfimh62snbyxp3imreofhx4djr7i2fweta75szda"),
    (b"boity2cdh7jvl3ltaeebuiobbspjmbuopnwbde2yeh4k6x7jioga", b"75gmmfts772ww4beiewc234o5e",
     b"lh5fhobkjrmkqjmkxhy3yaonoociggpz", b"srrlruge47ws3lm53vgdxprgqb6bz7cdblnuovdgtfkqrygrjm4q"),
    (b"vacviff4xfqxsbp64tdr3frg3xnkcsuwt5jpyat2qxcm44bwu75a", b"75gmmfts772ww4beiewc234o5e",
     b"lh5fhobkjrmkqjmkxhy3yaonoociggpz", b"b4jledjiqjqekbm2erekzqumqzblegxi23i5ojva7g7xmqqnl5pq"),
]

# docs/specifications/uri.rst examples
URI_DOC_EXAMPLES = [
    (b"URI:LIT:nbswy3dp", b"hello"),
    (b"URI:LIT:", b""),
]

KATS = _kats()


def selfcheck():
    """replay every published vector against the reference; raise on disagreement"""
    import base64
    for name, fn, args, want in KATS:
        got = b32enc(fn(*args))
        if got != want:
            raise RuntimeError("reference %s%r = %r, published vector %r" % (name, args, got, want))
    for ls, si, tub, want in LEASE_CHAIN_KATS:
        got = b32enc(renewal_secret_chain(b32dec(ls), b32dec(si), b32dec(tub)))
        if got != want:
            raise RuntimeError("reference renewal chain = %r, published vector %r" % (got, want))
    for n in range(0, 70):
        data = bytes((i * 37 + n) & 255 for i in range(n))
        e = b32enc(data)
        if e != base64.b32encode(data).rstrip(b"=").lower() or b32dec(e) != data:
            raise RuntimeError("reference base32 broken at length %d" % n)
    import itertools
    alpha = [bytes([c]) for c in B32 + b"A=1:"]
    for ln in range(0, 4):
        for t in itertools.product(alpha, repeat=ln):
            x = b"".join(t)
            if b32dec(x) != b32dec_slow(x):
                raise RuntimeError("reference base32 decoders disagree on %r" % x)
    for ln in range(4, 60):
        for c in alpha:
            x = b"ay7" * (ln // 3) + b"q" * (ln % 3) + c
            if b32dec(x) != b32dec_slow(x):
                raise RuntimeError("reference base32 decoders disagree on %r" % x)
    for name in KIND_NAMES:
        if kind_of_prefix(KINDS[name].prefix + b"x") is not KINDS[name] or kind_of_prefix(KINDS[name].prefix[:-1]) is not None:
            raise RuntimeError("kind_of_prefix broken for %s" % name)
    for s, data in URI_DOC_EXAMPLES:
        if b32dec(s[len(b"URI:LIT:"):]) != data:
            raise RuntimeError("reference base32 disagrees with uri.rst example %r" % s)
    return len(KATS) + len(LEASE_CHAIN_KATS)


# ------------------------------------------------------------------ capability grammar
# kind -> (prefix, layout, uri class name, authority, refers-to-mutable, inner file kind)
#   authority: "write" | "read" | "verify"
#   layout: "chk" = b32(16):b32(32):N:N:N   "lit" = b32(any)
#           "ssk" = b32(16):b32(32)          "mdmf" = b32(16):b32(32)[:anything]
FILE_KINDS = [
    ("CHK", "chk", "CHKFileURI", "read", False),
    ("CHK-Verifier", "chk", "CHKFileVerifierURI", "verify", False),
    ("LIT", "lit", "LiteralFileURI", "read", False),
    ("SSK", "ssk", "WriteableSSKFileURI", "write", True),
    ("SSK-RO", "ssk", "ReadonlySSKFileURI", "read", True),
    ("SSK-Verifier", "ssk", "SSKVerifierURI", "verify", True),
    ("MDMF", "mdmf", "WriteableMDMFFileURI", "write", True),
    ("MDMF-RO", "mdmf", "ReadonlyMDMFFileURI", "read", True),
    ("MDMF-Verifier", "mdmf", "MDMFVerifierURI", "verify", True),
]
DIR_KINDS = [
    ("DIR2", "SSK", "DirectoryURI"),
    ("DIR2-RO", "SSK-RO", "ReadonlyDirectoryURI"),
    ("DIR2-Verifier", "SSK-Verifier", "DirectoryURIVerifier"),
    ("DIR2-CHK", "CHK", "ImmutableDirectoryURI"),
    ("DIR2-CHK-Verifier", "CHK-Verifier", "ImmutableDirectoryURIVerifier"),
    ("DIR2-LIT", "LIT", "LiteralDirectoryURI"),
    ("DIR2-MDMF", "MDMF", "MDMFDirectoryURI"),
    ("DIR2-MDMF-RO", "MDMF-RO", "ReadonlyMDMFDirectoryURI"),
    ("DIR2-MDMF-Verifier", "MDMF-Verifier", "MDMFDirectoryURIVerifier"),
]


class Kind(object):
    def __init__(self, name, layout, cls, authority, mutable, inner):
        self.name = name
        self.prefix = b"URI:" + name.encode() + b":"
        self.layout = layout
        self.cls = cls
        self.authority = authority
        self.mutable = mutable          # the object the cap designates is a mutable slot
        self.inner = inner              # file kind name (== name for file kinds)
        self.is_dir = name.startswith("DIR2")

    def __repr__(self):
        return "<Kind %s>" % self.name


KINDS = {}
for (_n, _l, _c, _a, _m) in FILE_KINDS:
    KINDS[_n] = Kind(_n, _l, _c, _a, _m, _n)
for (_n, _i, _c) in DIR_KINDS:
    _k = KINDS[_i]
    KINDS[_n] = Kind(_n, _k.layout, _c, _k.authority, _k.mutable, _i)
KIND_NAMES = [n for (n, _l, _c, _a, _m) in FILE_KINDS] + [n for (n, _i, _c) in DIR_KINDS]
CLASS_TO_KIND = {KINDS[n].cls: n for n in KIND_NAMES}
_KIND_BY_BYTES = {n.encode(): KINDS[n] for n in KIND_NAMES}

RE_CANON_NUM = re.compile(br"\A(?:0|[1-9][0-9]*)\Z")
RE_LOOSE_NUM = re.compile(br"\A[0-9]+\Z")

ALLEGED = (b"imm.", b"ro.")


def split_alleged(s):
    """one alleged prefix at most, as the documentation of from_string describes"""
    for p in ALLEGED:
        if s.startswith(p):
            return p, s[len(p):]
    return b"", s


_RE_PREFIX = re.compile(br"\AURI:([A-Za-z0-9-]+):")


def kind_of_prefix(s):
    mo = _RE_PREFIX.match(s)
    if mo is None:
        return None
    return _KIND_BY_BYTES.get(mo.group(1))


class Parsed(object):
    def __init__(self, kind, fields, canonical, extension=None):
        self.kind = kind
        self.fields = fields            # tuple, see build()
        self.canonical = canonical      # the string the cap must re-serialise to
        self.extension = extension      # MDMF only: bytes after the fingerprint (incl. ':') or None


def build(kindname, fields):
    """reference serialisation from docs/specifications/uri.rst"""
    k = KINDS[kindname]
    if k.layout == "chk":
        key, ueb, need, total, size = fields
        body = b"%s:%s:%d:%d:%d" % (b32enc(key), b32enc(ueb), need, total, size)
    elif k.layout == "lit":
        body = b32enc(fields[0])
    else:
        body = b"%s:%s" % (b32enc(fields[0]), b32enc(fields[1]))
    return k.prefix + body


def parse(s, loose_numbers=False):
    """strict reference parser for an UNPREFIXED string: Parsed or None"""
    k = kind_of_prefix(s)
    if k is None:
        return None
    rest = s[len(k.prefix):]
    numre = RE_LOOSE_NUM if loose_numbers else RE_CANON_NUM
    if k.layout == "lit":
        data = b32dec(rest)
        if data is None:
            return None
        return Parsed(k, (data,), s)
    if k.layout == "chk":
        parts = rest.split(b":")
        if len(parts) != 5:
            return None
        key, ueb = b32dec(parts[0]), b32dec(parts[1])
        if key is None or ueb is None or len(key) != 16 or len(ueb) != 32:
            return None
        if not all(numre.match(p) for p in parts[2:]):
            return None
        nums = tuple(int(p) for p in parts[2:])
        return Parsed(k, (key, ueb) + nums, s)
    ext = None
    if k.layout == "ssk":
        parts = rest.split(b":")
        if len(parts) != 2:
            return None
    else:
        parts = rest.split(b":", 2)
        if len(parts) < 2:
            return None
        if len(parts) == 3:
            ext = b":" + parts[2]
            parts = parts[:2]
    key, fp = b32dec(parts[0]), b32dec(parts[1])
    if key is None or fp is None or len(key) != 16 or len(fp) != 32:
        return None
    canonical = k.prefix + parts[0] + b":" + parts[1]
    return Parsed(k, (key, fp), canonical, ext)


def classify_acceptance(s):
    """`s` (unprefixed) is outside the grammar but was accepted: say which relaxation of the
    grammar explains it.  Returns (feature-list, kind or None)."""
    k = kind_of_prefix(s)

    def ok(t, loose):
        return parse(t, loose_numbers=loose) is not None

    def garbage(t, loose):
        return any(ok(t[:i], loose) for i in range(len(t) - 1, 0, -1))
    nl = s.endswith(b"\n")
    if ok(s, True):
        return ["leading-zero-number"], k
    if nl and ok(s[:-1], False):
        return ["trailing-newline"], k
    if nl and ok(s[:-1], True):
        return ["leading-zero-number", "trailing-newline"], k
    if garbage(s, False):
        return ["trailing-garbage"], k
    if garbage(s, True):
        return ["leading-zero-number", "trailing-garbage"], k
    return ["out-of-grammar"], k


# ------------------------------------------------------------------ value alphabets
def seeded(label, seed, n):
    out = b""
    i = 0
    while len(out) < n:
        out += hashlib.sha256(b"vt-caps:%s:%d:%d" % (label, seed, i)).digest()
        i += 1
    return out[:n]


def patterns(n, seed, label=b"p"):
    """the byte patterns of the DESIGN alphabet at length n: 00.., ff.., counting, seed-derived"""
    return [b"\x00" * n, b"\xff" * n, bytes(range(1, n + 1)), seeded(label, seed, n)]


NUMBERS = [0, 1, 3, 10, 255, 256, 2 ** 32 - 1, 2 ** 32, 2 ** 64, 10 ** 30]
