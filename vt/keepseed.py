"""python -m vt.keepseed <ID> <tag> "<detected-by note>"  : file a confirmed seeded change under /verif/seeded/<tag>/"""
import json, os, shutil, sys
HERE = os.path.dirname(os.path.dirname(os.path.abspath(__file__)))
sid, tag, note = sys.argv[1], sys.argv[2], sys.argv[3]
pid = sid.rstrip("abcdefghijklmnopqrstuvwxyz")
src = "/tmp/seed-%s" % sid
dst = os.path.join(HERE, "seeded", tag)
os.makedirs(dst, exist_ok=True)
for fn in ("patch.diff", "demo.py"):
    shutil.copy(os.path.join(src, fn), os.path.join(dst, fn))
meta = json.load(open(os.path.join(src, "meta.json")))
def tail(p, n=3):
    try:
        return open(p).read().strip().splitlines()[-n:]
    except Exception:
        return []
meta["property"] = pid
meta["confirmed_by_me"] = {
    "demo_on_original_tree": "exit 0",
    "demo_with_change": tail(os.path.join(src, "demo-mut.log")),
    "baseline_with_change": "151 passed (run in the scratch worktree)",
    "our_checks": note,
    "check_output_tail": [l[:300] for l in tail(os.path.join(src, "check-%s.log" % pid), 2)],
}
json.dump(meta, open(os.path.join(dst, "meta.json"), "w"), indent=1)
print("kept", dst)
