"""Shared plumbing: context, violation collection, parallel map, evidence, known findings."""
import json
import multiprocessing
import os
import sys
import time
import traceback

HERE = os.path.dirname(os.path.dirname(os.path.abspath(__file__)))
perf = time.perf_counter
NWORKERS = int(os.environ.get("VERIF_WORKERS", "0") or 0) or min(16, os.cpu_count() or 1)


def jsonable(x):
    if isinstance(x, bytes):
        return {"$b": x.hex()}
    if isinstance(x, (set, frozenset)):
        return {"$s": sorted((jsonable(i) for i in x), key=repr)}
    if isinstance(x, tuple):
        return {"$t": [jsonable(i) for i in x]}
    if isinstance(x, list):
        return [jsonable(i) for i in x]
    if isinstance(x, dict):
        if all(isinstance(k, str) for k in x):
            return {k: jsonable(v) for k, v in x.items()}
        return {"$d": [[jsonable(k), jsonable(v)] for k, v in x.items()]}
    if isinstance(x, (str, int, float, bool)) or x is None:
        return x
    return {"$r": repr(x)}


def unjson(x):
    if isinstance(x, list):
        return [unjson(i) for i in x]
    if isinstance(x, dict):
        if "$b" in x and len(x) == 1:
            return bytes.fromhex(x["$b"])
        if "$s" in x and len(x) == 1:
            return set(_hashable(unjson(i)) for i in x["$s"])
        if "$t" in x and len(x) == 1:
            return tuple(unjson(i) for i in x["$t"])
        if "$d" in x and len(x) == 1:
            return {_hashable(unjson(k)): unjson(v) for k, v in x["$d"]}
        if "$r" in x and len(x) == 1:
            return x["$r"]
        return {k: unjson(v) for k, v in x.items()}
    return x


def _hashable(x):
    if isinstance(x, list):
        return tuple(_hashable(i) for i in x)
    if isinstance(x, set):
        return frozenset(x)
    return x


class Violation(object):
    def __init__(self, sig, case, msg):
        self.sig, self.case, self.msg = sig, case, msg

    def as_dict(self):
        return {"sig": self.sig, "case": jsonable(self.case), "msg": self.msg}


class Result(object):
    """Mergeable per-chunk result."""

    def __init__(self):
        self.counts = {}
        self.violations = []   # list of dicts
        self.samples = []
        self.distinct = set()
        self.notes = {}

    def count(self, key, n=1):
        self.counts[key] = self.counts.get(key, 0) + n

    def violation(self, sig, case, msg):
        # cap per signature (not globally) so that a flood of one kind never hides another
        if sum(1 for v in self.violations if v["sig"] == sig) < 5:
            self.violations.append({"sig": sig, "case": jsonable(case), "msg": msg})
        self.count("violations_raw")
        self.count("viol:" + sig)

    def sample(self, case, cap=3):
        if len(self.samples) < cap:
            self.samples.append(jsonable(case))

    def merge(self, other):
        for k, v in other.counts.items():
            self.counts[k] = self.counts.get(k, 0) + v
        for v in other.violations:
            if sum(1 for w in self.violations if w["sig"] == v["sig"]) < 10:
                self.violations.append(v)
        for s in other.samples:
            if len(self.samples) < 6:
                self.samples.append(s)
        self.distinct |= other.distinct
        for k, v in other.notes.items():
            if isinstance(v, (int, float)) and isinstance(self.notes.get(k), (int, float)):
                self.notes[k] = max(self.notes[k], v)
            elif isinstance(v, list):
                self.notes.setdefault(k, [])
                self.notes[k].extend(v)
            elif isinstance(v, (set, frozenset)):
                self.notes[k] = set(self.notes.get(k, set())) | set(v)
            else:
                self.notes.setdefault(k, v)
        return self


def _worker(args):
    func, chunk, extra = args
    try:
        return ("ok", func(chunk, *extra))
    except BaseException:
        return ("err", traceback.format_exc())


_POOL = None


def pmap(func, items, extra=(), chunks=None, workers=None):
    """Split `items` into chunks, run func(chunk, *extra) -> Result in forked workers, merge.
    A worker exception is a harness error (exit 2), never a violation."""
    items = list(items)
    workers = workers or NWORKERS
    total = Result()
    if not items:
        return total
    nchunks = chunks or max(1, min(len(items), workers * 8))
    size = (len(items) + nchunks - 1) // nchunks
    parts = [items[i:i + size] for i in range(0, len(items), size)]
    if workers <= 1 or len(parts) == 1:
        outs = [_worker((func, p, extra)) for p in parts]
    else:
        # move the parent's heap out of the collector's reach so that forked workers do not
        # copy every page on their first garbage collection
        import gc
        gc.collect()
        gc.freeze()
        ctx = multiprocessing.get_context("fork")
        with ctx.Pool(workers) as pool:
            outs = pool.map(_worker, [(func, p, extra) for p in parts], chunksize=1)
    for kind, val in outs:
        if kind == "err":
            sys.stderr.write("HARNESS-ERROR in worker:\n%s\n" % val)
            raise SystemExit(2)
        total.merge(val)
    return total


def load_known(prop):
    path = os.path.join(HERE, "known_findings.json")
    if not os.path.exists(path):
        return []
    data = json.load(open(path))
    return [f for f in data.get("findings", []) if f.get("property") == prop and f.get("status") == "known"]


def finish(prop, tier, seed, level, res, coverage, assumptions, t0, replay_hint=None):
    """Classify violations against known findings, write replay files + evidence, print, exit."""
    known = load_known(prop)
    known_sigs = {f["signature"]: f for f in known}
    new = [v for v in res.violations if v["sig"] not in known_sigs]
    hit = {}
    for v in res.violations:
        if v["sig"] in known_sigs:
            hit.setdefault(v["sig"], []).append(v)
    for sig, vs in sorted(hit.items()):
        print("KNOWN-FINDING: property=%s %s (%d cases this run; e.g. %s)" % (
            prop, known_sigs[sig]["what"], res.counts.get("viol:" + sig, len(vs)), json.dumps(vs[0]["case"])[:300]))
    out_root = os.environ.get("VERIF_OUT") or HERE      # seed tests write evidence/replay elsewhere
    rdir = os.path.join(out_root, "replay", prop)
    if os.path.isdir(rdir):
        for fn in os.listdir(rdir):
            if fn.endswith(".json"):
                os.unlink(os.path.join(rdir, fn))
    paths = []
    if new:
        os.makedirs(rdir, exist_ok=True)
        seen = set()
        for v in new:
            if v["sig"] in seen and len(paths) >= 5:
                continue
            seen.add(v["sig"])
            p = os.path.join(rdir, "%d.json" % len(paths))
            with open(p, "w") as f:
                json.dump({"property": prop, "sig": v["sig"], "msg": v["msg"], "case": v["case"]}, f, indent=1)
            paths.append(p)
            print("VIOLATION property=%s replay=%s" % (prop, p))
            print("  sig=%s\n  %s" % (v["sig"], v["msg"][:1500]))
            if len(paths) >= 20:
                break
    cov = dict(coverage)
    cov.setdefault("samples", res.samples[:6] or ["(none)"])
    cov.setdefault("counts", dict(sorted(res.counts.items())))
    cov["known_finding_cases"] = {s: res.counts.get("viol:" + s, len(v)) for s, v in hit.items()}
    ev = {
        "property_id": prop, "tier": tier, "seed": seed, "level": level,
        "coverage": cov, "assumptions": assumptions,
        "wall_s": round(perf() - t0, 2), "violations": len(new),
    }
    os.makedirs(os.path.join(out_root, "evidence"), exist_ok=True)
    with open(os.path.join(out_root, "evidence", "%s.json" % prop), "w") as f:
        json.dump(ev, f, indent=1, sort_keys=True)
    print("%s %s: %s  wall=%.1fs  new_violations=%d known=%d" % (
        prop, tier, json.dumps({k: v for k, v in cov.items() if isinstance(v, (int, bool))}),
        perf() - t0, len(new), sum(len(v) for v in hit.values())))
    sys.stdout.flush()
    return 1 if new else 0
