"""Regenerate /verif/MANIFEST.json from the per-property tables in vt/props/*.py.

Each property module may define MANIFEST = {category, text, note, technique, engine, design_ref}.
Properties without a module are listed under not_applicable with reason "not yet built".
"""
import ast
import json
import os
import sys

HERE = os.path.dirname(os.path.dirname(os.path.abspath(__file__)))


def module_info(path):
    tree = ast.parse(open(path).read())
    info = {}
    for node in tree.body:
        if isinstance(node, ast.Assign) and len(node.targets) == 1 and isinstance(node.targets[0], ast.Name):
            if node.targets[0].id in ("LEVEL", "MANIFEST", "ASSUMPTIONS", "NOT_APPLICABLE"):
                info[node.targets[0].id] = ast.literal_eval(node.value)
    return info


def main():
    props = [json.loads(l) for l in open(os.path.join(HERE, "properties.jsonl"))]
    checks, na = [], []
    claimed = set(open(os.path.join(HERE, "vt", "claimed.txt")).read().split())
    for p in props:
        pid = p["id"]
        path = os.path.join(HERE, "vt", "props", pid.lower() + ".py")
        info = module_info(path) if os.path.exists(path) else None
        if not info or "MANIFEST" not in info or pid not in claimed:
            reason = (info or {}).get("NOT_APPLICABLE") or "check not built yet in this framework (planned design in DESIGN.md section for %s)" % pid
            na.append({"property_id": pid, "reason": reason})
            continue
        m = info["MANIFEST"]
        checks.append({
            "property_id": pid,
            "quick_cmd": "./check %s quick" % pid,
            "thorough_cmd": "./check %s thorough" % pid,
            "evidence_file": "/verif/evidence/%s.json" % pid,
            "replay_cmd_template": "./check %s --replay {path}" % pid,
            "engine": m.get("engine", "vt"),
            "level_claimed": {"category": info["LEVEL"], "text": m["text"], "design_ref": "DESIGN.md #### %s" % pid},
            "level_note": m["note"],
            "technique": m["technique"],
        })
    man = {
        "version": 1,
        "setup_cmd": "./setup.sh",
        "hooks": {
            "guard": "TAHOE_LAFS_VERIF",
            "enable": "export TAHOE_LAFS_VERIF=1 (set by ./check); no instrumentation commits exist in /repo: the harness installs a virtual reactor and rebinds module globals from outside",
            "baseline_off_cmd": "cd /repo && /venv/bin/python -m pytest -ra -q -p no:cacheprovider --timeout=900 --continue-on-collection-errors",
            "source_commits": [],
            "add_only": True,
        },
        "engines": [
            {"name": "E", "path": "vt/props", "kind_free_text": "exhaustive enumeration of a finite input domain against an independent reference"},
            {"name": "H", "path": "vt/hbfs.py", "kind_free_text": "explicit-state BFS over operation histories on the real objects, reference model stepped alongside"},
            {"name": "K", "path": "vt/lib_crash.py", "kind_free_text": "crash-point enumeration: kill at every file-system mutation call, restart, check invariant"},
            {"name": "G", "path": "vt/grid.py", "kind_free_text": "virtual grid: real clients and storage servers under a controlled scheduler; deviation-bounded stateless exploration of delivery orders, faults and timers"},
        ],
        "checks": checks,
        "not_applicable": na,
        "notes": "All checks run the code in /repo/src directly (PYTHONPATH), nothing is copied or cached. See DESIGN.md.",
    }
    with open(os.path.join(HERE, "MANIFEST.json"), "w") as f:
        json.dump(man, f, indent=1)
    print("checks=%d not_applicable=%d" % (len(checks), len(na)))


if __name__ == "__main__":
    main()
