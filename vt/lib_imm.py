"""Shared helpers for immutable-file checks on Engine G."""
import hashlib

from . import boot, grid
from allmydata.immutable.upload import Data
from allmydata import uri as tahoe_uri
from twisted.python.failure import Failure
from foolscap.api import RemoteException


def payload(size, seed, label=b""):
    """distinct-looking deterministic bytes; seed selects the values only"""
    out = b""
    i = 0
    while len(out) < size:
        out += hashlib.sha256(b"payload:%d:%d:" % (seed, i) + label).digest()
        i += 1
    return out[:size]


from zope.interface import implementer as _implementer
from twisted.internet.interfaces import IConsumer as _IConsumer


@_implementer(_IConsumer)
class RecordingConsumer(object):
    """IConsumer that records every write; optional scripted behaviour per write"""

    def __init__(self):
        self.chunks = []
        self.done = False
        self.producer = None
        self.streaming = None

    def registerProducer(self, p, streaming):
        self.producer = p
        self.streaming = streaming
        if not streaming:
            n = 0
            while not self.done:      # pull producer (literal files): what MemoryConsumer does
                p.resumeProducing()
                n += 1
                if n > 100000:
                    raise AssertionError("pull producer never finishes")

    def unregisterProducer(self):
        self.done = True
        self.producer = None

    def write(self, data):
        self.chunks.append(bytes(data))

    def data(self):
        return b"".join(self.chunks)


@_implementer(_IConsumer)
class ScriptedConsumer(RecordingConsumer):
    """consumer whose reaction to every write is a choice point: accept / pause (resume later as a
    scheduler action) / stopProducing; between writes it may stop, or pause-and-resume, as scheduler actions"""

    def __init__(self, sched, name):
        RecordingConsumer.__init__(self)
        self.sched, self.name = sched, name
        self.stopped = False
        self.paused = False

    def registerProducer(self, p, streaming):
        RecordingConsumer.registerProducer(self, p, streaming)
        if streaming and self.sched.explore:
            # the consumer may also stop BETWEEN writes (or before the first one): a scheduler action
            def stop_now():
                if self.producer is not None and not self.stopped:
                    self.stopped = True
                    self.producer.stopProducing()
            self._stop_action = ("stop:" + self.name, stop_now)
            self.sched.extras.append(self._stop_action)

            # ... or pause and resume at once BETWEEN writes (its downstream buffer filled and drained while
            # the producer was waiting for the network): legal for an IPushProducer at any time; one per read
            def nudge_now():
                if self.producer is not None and not self.stopped and not self.paused:
                    self.producer.pauseProducing()
                    self.producer.resumeProducing()
            self._nudge_action = ("nudge:" + self.name, nudge_now)
            self.sched.extras.append(self._nudge_action)

    def unregisterProducer(self):
        RecordingConsumer.unregisterProducer(self)
        for act in (getattr(self, "_stop_action", None), getattr(self, "_nudge_action", None)):
            if act in self.sched.extras:
                self.sched.extras.remove(act)

    def write(self, data):
        self.chunks.append(bytes(data))
        if self.stopped or self.producer is None or not self.sched.explore:
            return
        pick = self.sched.chooser.choose([("accept", self.name), ("pause", self.name), ("stop", self.name)])
        if pick == 1:
            self.paused = True
            p = self.producer
            p.pauseProducing()

            def resume():
                self.paused = False
                if self.producer is not None:
                    self.producer.resumeProducing()
            self.sched.extras.append(("resume:" + self.name, resume))
        elif pick == 2:
            self.stopped = True
            self.producer.stopProducing()


def failure_name(f):
    v = f.value
    seen = 0
    while seen < 5:
        seen += 1
        if isinstance(v, RemoteException):
            v = v.failure.value
            continue
        sub = getattr(v, "subFailure", None)   # FirstError
        if sub is not None:
            v = sub.value
            continue
        break
    return type(v).__name__


def upload(g, data, ci=0, convergence=b"conv", explore=False):
    c = g.clients[ci]
    b = g.wait(c.upload(Data(data, convergence=convergence)), explore=explore)
    return b


def read(g, node, offset=0, size=None, explore=False):
    cons = RecordingConsumer()
    b = g.wait(node.read(cons, offset, size), explore=explore)
    return b, cons


def ground_truth_shares(g, storage_index):
    """{(server, shnum): bytes} of FINAL (not incoming) immutable share files of this SI"""
    from allmydata.storage.server import storage_index_to_dir
    rel = storage_index_to_dir(storage_index)
    out = {}
    for (si, path), data in g.share_files().items():
        if path.startswith("incoming"):
            continue
        d, fn = path.rsplit("/", 1)
        if d == rel and fn.isdigit():
            out[(si, int(fn))] = data
    return out


# ------------------------------------------------------------------ prepared files
import struct
from allmydata.util import hashutil as _hashutil
from allmydata.storage.server import storage_index_to_dir

_PREP = {}


def prepare(k, n, seg, size, seed, bad_ct_segments=()):
    """Upload once (n servers, one share each, default schedule) and return
    {cap, data, si, shares: {shnum: container-file bytes}}.
    bad_ct_segments: segment numbers whose ciphertext-hash-tree leaf is made wrong at
    encoding time (shares stay self-consistent and match the cap; only the ciphertext
    hash check of that segment fails after decoding)."""
    key = (k, n, seg, size, seed, tuple(bad_ct_segments))
    if key in _PREP:
        return _PREP[key]
    data = payload(size, seed, b"prep")
    g = grid.Grid(n, client_kw=dict(k=k, n=n, happy=n, max_segment_size=seg))
    orig = _hashutil.crypttext_segment_hasher
    calls = [0]

    class _Lying(object):
        def __init__(self, real, lie):
            self.real, self.lie = real, lie

        def update(self, d):
            self.real.update(d)

        def digest(self):
            d = self.real.digest()
            return _hashutil.tagged_hash(b"vt-lie", d) if self.lie else d

    def fake():
        i = calls[0]
        calls[0] += 1
        return _Lying(orig(), i in bad_ct_segments)
    try:
        if bad_ct_segments:
            _hashutil.crypttext_segment_hasher = fake
        b = upload(g, data)
        assert b and b[0][0] == "ok", b
        cap = b[0][1].get_uri()
        u = tahoe_uri.from_string(cap)
        si = u.get_storage_index()
        shares = {}
        for (sv, shnum), blob in ground_truth_shares(g, si).items():
            shares[shnum] = blob
        assert sorted(shares) == list(range(n)), sorted(shares)
    finally:
        _hashutil.crypttext_segment_hasher = orig
        g.close()
    out = {"cap": cap, "data": data, "si": si, "shares": shares, "k": k, "n": n}
    _PREP[key] = out
    return out


def place(g, prep, placement, blobs=None):
    """placement: {shnum: [server,...]}; blobs optionally overrides container bytes per (server, shnum)"""
    import os
    rel = storage_index_to_dir(prep["si"])
    for shnum, servers in placement.items():
        for sv in servers:
            blob = (blobs or {}).get((sv, shnum), prep["shares"][shnum])
            if blob is None:
                continue
            d = os.path.join(g.base, "s%d" % sv, "shares", rel)
            os.makedirs(d, exist_ok=True)
            with open(os.path.join(d, str(shnum)), "wb") as f:
                f.write(blob)


def share_fields(blob):
    """independent parser of a v1 immutable share inside its container file.
    returns {name: (start, end)} with absolute offsets into the container file."""
    C = 0x0c
    (ver, block_size, data_size, o_data, o_pt, o_ct, o_bh, o_sh, o_ueb) = struct.unpack(">LLLLLLLLL", blob[C:C + 0x24])
    assert ver == 1
    (nleases,) = struct.unpack(">L", blob[8:12])
    end_share = len(blob) - 72 * nleases
    (ueb_len,) = struct.unpack(">L", blob[C + o_ueb:C + o_ueb + 4])
    f = {"container_header": (0, C), "version": (C, C + 4), "block_size": (C + 4, C + 8), "data_size": (C + 8, C + 12)}
    for i, name in enumerate(["o_data", "o_plaintext_hash_tree", "o_crypttext_hash_tree", "o_block_hashes", "o_share_hashes", "o_uri_extension"]):
        f[name] = (C + 12 + 4 * i, C + 16 + 4 * i)
    f["data"] = (C + o_data, C + o_pt)
    f["plaintext_hash_tree"] = (C + o_pt, C + o_ct)
    f["crypttext_hash_tree"] = (C + o_ct, C + o_bh)
    f["block_hashes"] = (C + o_bh, C + o_sh)
    f["share_hashes"] = (C + o_sh, C + o_ueb)
    f["ueb_length"] = (C + o_ueb, C + o_ueb + 4)
    f["ueb"] = (C + o_ueb + 4, C + o_ueb + 4 + ueb_len)
    f["leases"] = (end_share, len(blob))
    f["_block_size"] = block_size
    return f


def flip(blob, pos, mask=0x01):
    b = bytearray(blob)
    b[pos] ^= mask
    return bytes(b)


# ------------------------------------------------------------------ generic download executor
DAMAGE_KINDS = ("missing", "corrupt-block0", "corrupt-blocklast", "corrupt-blockhash", "corrupt-sharehash", "corrupt-ueb", "corrupt-cthash")
SERVER_KINDS = ("ok", "errors-on-read", "errors-on-everything", "disconnects-on-first-read")


def damage(blob, kind, alt=None):
    """kind: a name from DAMAGE_KINDS, or a list: ["flip", pos] / ["trunc", n] /
    ["setword", field, value] / ["zero", field] / ["subst", key] (alt[key] = replacement blob)"""
    if kind == "missing":
        return None
    if isinstance(kind, (list, tuple)):
        op = kind[0]
        if op == "flip":
            return flip(blob, kind[1])
        if op == "trunc":
            return blob[:kind[1]]
        if op == "subst":
            return alt[kind[1]]
        f = share_fields(blob)
        a, b = f[kind[1]]
        if op == "setword":
            return blob[:a] + struct.pack(">L", kind[2] & 0xffffffff) + blob[a + 4:]
        if op == "zero":
            return blob[:a] + b"\x00" * (b - a) + blob[b:]
        raise ValueError(kind)
    f = share_fields(blob)
    pos = {
        "corrupt-block0": f["data"][0],
        "corrupt-blocklast": f["data"][1] - 1,
        "corrupt-blockhash": f["block_hashes"][1] - 1,      # a leaf of the block hash tree
        "corrupt-sharehash": f["share_hashes"][0] + 2,
        "corrupt-ueb": f["ueb"][0] + 5,
        "corrupt-cthash": f["crypttext_hash_tree"][0],
    }[kind]
    return flip(blob, pos)


def run_reads(case, prefix, seed):
    """case keys: k n seg size S; bad_ct (list of segnums); placement {str(shnum): [servers]};
    damage {"sv:shnum": kind}; server_kind {str(sv): kind}; groups [[[offset,size],...],...]
    (reads of one group are started together on ONE node object, groups run one after another);
    fault_kinds; explore_groups (indexes of groups whose execution is explored);
    fail_after_group {str(sv): g}: server sv answers every call with an error once group g is over;
    guess: the reader's default_max_segment_size (what a fresh node guesses segment boundaries from)."""
    prep = prepare(case["k"], case["n"], case["seg"], case["size"], seed, tuple(case.get("bad_ct", ())))
    data = prep["data"]
    ch = grid.Chooser(prefix)
    S = case["S"]
    g = grid.Grid(S, chooser=ch, fault_kinds=tuple(case.get("fault_kinds", ())),
                  client_kw=dict(k=case["k"], n=case["n"], happy=1, max_segment_size=case["seg"]))
    g.sched.batch = bool(case.get("batch"))     # turn granularity, see grid.Sched.batch
    if case.get("cpu"):
        g.sched.cpu_events()     # thread-pool work completes as a scheduled event, see grid.Sched.cpu_events
    viol, obs = [], {"outcomes": []}
    from allmydata.immutable.downloader.node import DownloadNode as _DN
    saved_guess = _DN.default_max_segment_size
    if case.get("guess"):
        # the reader's own default maximum segment size (from which a fresh node guesses the segment
        # boundaries before it has seen the UEB) differs from the one the file was uploaded with
        _DN.default_max_segment_size = case["guess"]
    try:
        placement = {int(sh): list(svs) for sh, svs in case["placement"].items()}
        blobs = {}
        dmg = case.get("damage", {})
        for sh, svs in placement.items():
            for sv in svs:
                kind = dmg.get("%d:%d" % (sv, sh))
                if kind:
                    blobs[(sv, sh)] = damage(prep["shares"][sh], kind, case.get("_alt"))
        place(g, prep, placement, blobs)
        skind = {int(s): kd for s, kd in case.get("server_kind", {}).items()}
        sched = g.sched
        real_execute = sched._execute
        first_read_seen = set()

        # servers that start failing every call once group number fail_after[sv] is over
        fail_after = {int(s_): int(gi_) for s_, gi_ in case.get("fail_after_group", {}).items()}
        current_group = [0]

        def _execute(ev):
            kd = skind.get(ev.conn.si, "ok")
            if ev.conn.si in fail_after and current_group[0] > fail_after[ev.conn.si]:
                kd = "errors-on-everything"
            if kd == "errors-on-everything" or (kd == "errors-on-read" and ev.meth == "read"):
                from twisted.python.failure import Failure as _F
                try:
                    raise grid.IntentionalError("static server fault")
                except grid.IntentionalError:
                    return ("err", _F(RemoteException(_F())))
            return real_execute(ev)
        sched._execute = _execute
        real_deliver = sched.do_deliver

        def do_deliver(ev):
            if skind.get(ev.conn.si) == "disconnects-on-first-read" and ev.meth == "read" and not ev.conn.dead:
                sched.disconnect(ev.conn, note_ev=ev)
                return
            real_deliver(ev)
        sched.do_deliver = do_deliver

        node = g.clients[0].create_node_from_uri(prep["cap"])
        segsize = ((case["seg"] + case["k"] - 1) // case["k"]) * case["k"]
        bad_ct = set(case.get("bad_ct", ()))
        for gi, group in enumerate(case["groups"]):
            current_group[0] = gi
            reads = []
            sched.explore = gi in case.get("explore_groups", list(range(len(case["groups"]))))
            for ri, (off, size) in enumerate(group):
                cons = ScriptedConsumer(sched, "r%d.%d" % (gi, ri)) if case.get("consumer_choices") else RecordingConsumer()
                reads.append((off, size, cons, grid.box(node.read(cons, off, size))))
            try:
                sched.run(max_steps=sched.steps + 3000)      # to quiescence, all timers fired
            except grid.HarnessError as e:
                sched.explore = False
                viol.append(("read-livelock", "group %d: the download keeps issuing remote calls without ever completing (%s); last calls: %r" % (gi, e, sched.log[-6:])))
                obs["outcomes"].append("livelock")
                break
            sched.explore = False
            # classification of servers for this execution
            faulted = set(sv_ for sv_, g_ in fail_after.items() if gi > g_)
            for (kind, label, o) in sched.log:
                if kind.startswith("fault"):
                    faulted.add(int(label.split("s")[1].split("#")[0]))
            good_lo, good_hi = set(), set()
            for sh, svs in placement.items():
                for sv in svs:
                    kind = dmg.get("%d:%d" % (sv, sh))
                    if skind.get(sv, "ok") == "ok" and kind != "missing":
                        # a copy with a corrupt field may still serve the pieces that validate:
                        # it counts for "could succeed" (hi) but not for "must succeed" (lo)
                        good_hi.add(sh)
                        if kind is None and sv not in faulted:
                            good_lo.add(sh)
            for (off, size, cons, b) in reads:
                want = data[off:] if size is None else data[off:off + size]
                got = cons.data()
                lo_seg = off // segsize
                hi_seg = (off + len(want) - 1) // segsize if want else lo_seg
                touches_bad = bool(want) and any(s in bad_ct for s in range(lo_seg, hi_seg + 1))
                desc = "read(offset=%r,size=%r) group %d" % (off, size, gi)
                if not b:
                    viol.append(("read-never-completes", "%s: Deferred never fired although nothing is pending and all timers fired; log tail=%r" % (desc, sched.log[-5:])))
                    obs["outcomes"].append("hang")
                    continue
                if len(b) > 1:
                    viol.append(("read-fired-twice", desc))
                if want[:len(got)] != got:
                    viol.append(("wrong-bytes", "%s delivered bytes that are not a prefix of the plaintext slice (got %d bytes)" % (desc, len(got))))
                if getattr(cons, "stopped", False):
                    # the consumer asked to stop: DownloadStopped, or completion if it was the last write
                    name = "ok" if b[0][0] == "ok" else failure_name(b[0][1])
                    obs["outcomes"].append("stopped:" + name)
                    if b[0][0] == "ok" and got != want:
                        viol.append(("stopped-read-reported-success-with-partial-data", "%s: %d of %d bytes" % (desc, len(got), len(want))))
                    elif b[0][0] != "ok" and name != "DownloadStopped":
                        viol.append(("stopped-read-wrong-error:" + name, desc))
                    continue
                if b[0][0] == "ok":
                    obs["outcomes"].append("ok")
                    if got != want:
                        viol.append(("wrong-bytes" if want[:len(got)] != got else "short-read-reported-success", "%s succeeded with %d of %d bytes" % (desc, len(got), len(want))))
                    if touches_bad:
                        viol.append(("bad-ciphertext-accepted", "%s covers a segment whose ciphertext hash is wrong yet succeeded" % desc))
                    if len(good_hi) < case["k"] and want:
                        viol.append(("success-without-k-shares", "%s succeeded although only %d distinct intact shares are readable" % (desc, len(good_hi))))
                else:
                    name = failure_name(b[0][1])
                    obs["outcomes"].append("err:" + name)
                    if not bad_ct and len(good_lo) >= case["k"]:
                        viol.append(("read-failed-with-k-good-shares:" + name, "%s failed (%s) although %d distinct intact shares sit on servers that answered every call: %r" % (desc, b[0][1].getErrorMessage()[:200], len(good_lo), sorted(good_lo))))
                    if len(good_hi) < case["k"] and name not in ("NotEnoughSharesError", "NoSharesError"):
                        viol.append(("wrong-error-when-too-few-shares:" + name, "%s failed with %s, expected a not-enough-shares error" % (desc, name)))
        for e in boot.R.take_errors():
            viol.append(("exception-in-timer:" + type(e.value).__name__, e.getTraceback()[-400:]))
        # exceptions that escaped a callback and were logged by the eventual queue: the statements
        # under test say nothing about them (Share.loop re-raises on purpose after failing the
        # share), so they are counted, not judged
        obs["logged_exceptions"] = sorted(set(type(e.value).__name__ for (why, e) in boot.take_logged()))
        obs["events"] = len(sched.log)
    finally:
        _DN.default_max_segment_size = saved_guess
        g.close()
    return ch.trace, viol, obs


# ------------------------------------------------------------------ shared exploration driver
def explore_chunk(chunk, seed, d_bound, f_bound, max_exec, prop_tag):
    """chunk: list of cases for run_reads.  Explores every schedule/fault placement within bounds."""
    from . import common
    res = common.Result()
    for case in chunk:
        gate = {}

        def ex(prefix):
            trace, viol, obs = run_reads(case, prefix, seed)
            return trace, (viol, obs)

        def on_exec(prefix, trace, info):
            viol, obs = info
            res.count("executions")
            res.count("transitions", obs.get("events", 0))
            res.count("choice_points", len(trace))
            res.distinct.add(tuple(obs.get("outcomes", ())))
            for o in obs.get("outcomes", ()):
                res.count("outcome:" + o)
            for o in obs.get("logged_exceptions", ()):
                res.count("logged-exception:" + o)
            for sig, msg in viol:
                res.violation(sig, {"case": case, "prefix": prefix}, msg + " | case=%r schedule=%r" % (case, prefix))
            if any(prefix) and not gate:
                gate["done"] = True
                t2, v2, o2 = run_reads(case, prefix, seed)
                if [(n, p) for (n, p, m) in t2] != [(n, p) for (n, p, m) in trace] or o2 != obs:
                    raise grid.HarnessError("nondeterministic replay: case=%r prefix=%r\n%r\n%r" % (case, prefix, obs, o2))
                res.count("determinism_gates")
                if res.counts.get("determinism_gates", 0) <= 2:
                    res.sample({"case": case, "schedule": prefix, "choice_points": len(trace), "outcomes": obs.get("outcomes")})
        n, capped = grid.explore_subtree(ex, [], d_bound, f_bound, on_exec, max_exec=max_exec)
        res.count("trees")
        if capped:
            res.count("capped_trees")
    return res


def coverage_from(res, rule, extra=None):
    cov = {
        "states": res.counts.get("executions", 0),
        "transitions": res.counts.get("transitions", 0),
        "traces_validated_against_impl": res.counts.get("executions", 0),
        "schedule_trees": res.counts.get("trees", 0),
        "capped_trees": res.counts.get("capped_trees", 0),
        "choice_points": res.counts.get("choice_points", 0),
        "distinct_outcome_vectors": len(res.distinct),
        "outcomes": {k[8:]: v for k, v in res.counts.items() if k.startswith("outcome:")},
        "rule": rule,
    }
    cov.update(extra or {})
    return cov
