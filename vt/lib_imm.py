"""Shared helpers for immutable-file checks on Engine G."""
import hashlib

from . import boot, grid
from allmydata.immutable.upload import Data
from allmydata import uri as tahoe_uri
from twisted.python.failure import Failure
from foolscap.api import RemoteException


def payload(size, seed, label=b""):
    """distinct-looking deterministic bytes; seed selects the values only"""
    out = b""
    i = 0
    while len(out) < size:
        out += hashlib.sha256(b"payload:%d:%d:" % (seed, i) + label).digest()
        i += 1
    return out[:size]


class RecordingConsumer(object):
    """IConsumer that records every write; optional scripted behaviour per write"""

    def __init__(self):
        self.chunks = []
        self.done = False
        self.producer = None
        self.streaming = None

    def registerProducer(self, p, streaming):
        self.producer = p
        self.streaming = streaming
        if not streaming:
            n = 0
            while not self.done:      # pull producer (literal files): what MemoryConsumer does
                p.resumeProducing()
                n += 1
                if n > 100000:
                    raise AssertionError("pull producer never finishes")

    def unregisterProducer(self):
        self.done = True
        self.producer = None

    def write(self, data):
        self.chunks.append(bytes(data))

    def data(self):
        return b"".join(self.chunks)


def failure_name(f):
    v = f.value
    seen = 0
    while seen < 5:
        seen += 1
        if isinstance(v, RemoteException):
            v = v.failure.value
            continue
        sub = getattr(v, "subFailure", None)   # FirstError
        if sub is not None:
            v = sub.value
            continue
        break
    return type(v).__name__


def upload(g, data, ci=0, convergence=b"conv", explore=False):
    c = g.clients[ci]
    b = g.wait(c.upload(Data(data, convergence=convergence)), explore=explore)
    return b


def read(g, node, offset=0, size=None, explore=False):
    cons = RecordingConsumer()
    b = g.wait(node.read(cons, offset, size), explore=explore)
    return b, cons


def ground_truth_shares(g, storage_index):
    """{(server, shnum): bytes} of FINAL (not incoming) immutable share files of this SI"""
    from allmydata.storage.server import storage_index_to_dir
    rel = storage_index_to_dir(storage_index)
    out = {}
    for (si, path), data in g.share_files().items():
        if path.startswith("incoming"):
            continue
        d, fn = path.rsplit("/", 1)
        if d == rel and fn.isdigit():
            out[(si, int(fn))] = data
    return out
