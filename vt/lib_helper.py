"""Engine G add-on: the real upload Helper (allmydata.immutable.offloaded.Helper) in the same
process as the uploading client, every callRemote in both directions scheduled through grid.VRef.

`Rig(g)` patches the grid's scheduler instance so that
  * remote methods answering with a Deferred that fires LATER keep their result (grid.Sched._execute
    attaches `box.append`, which turns a late result into None);
  * a call whose answer is still outstanding when its connection is dropped errbacks with
    DeadReferenceError at the caller (foolscap abandons all pending requests on connection loss),
    and the late answer is discarded.
Client `ci` uploads through the helper; the helper pushes shares with the storage broker and lease
secrets of client `hi` (so its storage traffic is labelled c<hi>).
"""
import os

from twisted.internet import defer
from twisted.python.failure import Failure
from foolscap.api import RemoteException, DeadReferenceError

from . import boot, grid
from .boot import R
from allmydata.immutable import offloaded

HELPER_SI = 99


class _Late(object):
    def __init__(self):
        self.box = []
        self.waiters = []
        self.cancelled = False

    def got(self, r):
        self.box.append(r)
        for w in self.waiters:
            w(r)
        return None


class Rig(object):
    def __init__(self, g, ci=0, hi=1, chunk=7):
        self.g, self.ci, self.hi = g, ci, hi
        self.sched = g.sched
        self.outstanding = {}     # id(conn) -> [(ev, late)]
        self.generation = 0
        self.conn = None
        self.ref = None
        self._old_chunk = offloaded.CHKCiphertextFetcher.CHUNK_SIZE
        offloaded.CHKCiphertextFetcher.CHUNK_SIZE = chunk
        self.basedir = os.path.join(g.base, "helper")
        os.makedirs(self.basedir)
        self.helper = None
        self.start_helper()
        s = self.sched
        self._orig_disconnect = s.disconnect
        s._execute = self._execute
        s._fire = self._fire
        s.disconnect = self._disconnect

    def close(self):
        offloaded.CHKCiphertextFetcher.CHUNK_SIZE = self._old_chunk

    # ------------------------------------------------------------------ helper / connection
    def start_helper(self):
        """(re)start the helper service on the same base directory"""
        hc = self.g.clients[self.hi]
        self.helper = offloaded.Helper(self.basedir, hc.storage_broker, hc._secret_holder, None, None)
        return self.helper

    def connect(self, ci=None):
        """what Uploader.startService's tub.connectTo does once the connection is up.
        Every connection gets its own number (99, 100, ...) as the 'server' half of its key."""
        ci = self.ci if ci is None else ci
        self.generation += 1
        conn = grid.Conn(ci, HELPER_SI + self.generation - 1)
        ref = grid.VRef(self.sched, self.helper, conn, "c2s")
        up = self.g.clients[ci].uploader
        up._helper_furl = "pb://helper@virtual/helper"
        up._got_helper(ref)
        self.g.quiesce()
        if up._helper is not ref:
            raise grid.HarnessError("uploader did not accept the helper: %r" % (up._helper,))
        if ci == self.ci:
            self.conn, self.ref = conn, ref
        return conn

    def incoming(self):
        out = {}
        for sub in ("CHK_incoming", "CHK_encoding"):
            d = os.path.join(self.basedir, sub)
            for fn in sorted(os.listdir(d)):
                out[sub + "/" + fn] = os.path.getsize(os.path.join(d, fn))
        return out

    # ------------------------------------------------------------------ scheduler patches
    def _execute(self, ev):
        s = self.sched
        if ev.direction == "cpu":
            return grid.Sched._execute(s, ev)
        try:
            meth = getattr(ev.target, "remote_" + ev.meth)
            res = meth(*ev.args, **ev.kwargs)
        except Exception:
            return ("err", Failure(RemoteException(Failure())))
        if isinstance(res, defer.Deferred):
            late = _Late()
            res.addBoth(late.got)
            if not late.box:
                R.pump_until_idle()
            if not late.box:
                return ("deferred", late, ev)
            res = late.box[0]
            if isinstance(res, Failure):
                return ("err", Failure(RemoteException(res)))
        hook = s.hooks.get(ev.meth)
        if hook is not None:
            res = hook(ev, res)
        return ("ok", s.membrane(res, ev.conn, ev.direction))

    def _fire(self, ev, outcome):
        s = self.sched
        if outcome[0] == "ok":
            ev.d.callback(outcome[1])
        elif outcome[0] == "deferred":
            late = outcome[1]
            if ev.conn.dead:
                ev.d.errback(Failure(DeadReferenceError("connection lost before the answer (harness)")))
                late.cancelled = True
                return

            def _done(r, ev=ev, late=late):
                if late.cancelled:
                    return
                lst = self.outstanding.get(id(ev.conn), [])
                lst[:] = [x for x in lst if x[0] is not ev]
                s.log.append(("answer", ev.label(), "err" if isinstance(r, Failure) else "ok"))
                if isinstance(r, Failure):
                    ev.d.errback(Failure(RemoteException(r)))
                else:
                    ev.d.callback(s.membrane(r, ev.conn, ev.direction))
            if late.box:
                _done(late.box[0])
                return
            self.outstanding.setdefault(id(ev.conn), []).append((ev, late))
            late.waiters.append(_done)
        else:
            ev.d.errback(outcome[1])

    def _disconnect(self, conn, note_ev=None):
        self._orig_disconnect(conn, note_ev)
        for (ev, late) in self.outstanding.pop(id(conn), []):
            if not late.box and not late.cancelled:
                late.cancelled = True
                ev.d.errback(Failure(DeadReferenceError("connection lost before the answer (harness)")))
