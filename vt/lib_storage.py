"""Shared harness for the storage-server checks (C22, C23, C24, C25, C28).

Builds a REAL allmydata.storage.server.StorageServer (plus the FoolscapStorageServer
wrapper whose remote_* methods take canaries) on a fresh tmpfs directory
/dev/shm/vt-<pid>-<n>, with clock=boot.R (the virtual reactor): the 30-minute BucketWriter
timeout is a DelayedCall there and fires on boot.R.advance(1800).

Determinism: `Box()` cancels every pending timer of boot.R and sets the virtual clock back
to T0, so every replay in every worker starts at the same absolute time (lease expiry bytes
are then reproducible and the 4-byte expiry field can never overflow however many replays
a worker runs).

Trusted here (independent of the code under test): the parsers `parse_immutable` /
`parse_mutable`, written from the layout comments at the top of storage/immutable.py and
storage/mutable.py, and the directory walk.

The only change to the code under test: `allmydata.storage.crawler.si_b2a` is wrapped in
functools.lru_cache.  It is a pure function; the two crawler constructors call it 2048
times per StorageServer (4 ms of the 5 ms construction cost).  The crawlers are never
started (no startService), so they take no part in any check.
"""
import functools
import hashlib
import os
import shutil
import struct

from . import boot

from allmydata.storage import crawler as _crawler
from allmydata.storage.server import StorageServer, FoolscapStorageServer
from allmydata.storage.common import storage_index_to_dir
from allmydata.util import fileutil

if not hasattr(_crawler.si_b2a, "cache_info"):
    _crawler.si_b2a = functools.lru_cache(maxsize=8192)(_crawler.si_b2a)

T0 = 1000000000.0
NODEID = b"\x4e" * 20          # "N"*20: recognisable in raw containers
_SEQ = [0]
DAY = 24 * 60 * 60
LEASE_PERIOD = 31 * DAY        # server.DEFAULT_RENEWAL_TIME, restated independently


# ---------------------------------------------------------------------------- clock
def cancel_timers():
    n = 0
    for c in list(boot.R.getDelayedCalls()):
        try:
            c.cancel()
            n += 1
        except Exception:  # noqa  (already called/cancelled)
            pass
    return n


def reset_clock(t=T0):
    cancel_timers()
    boot.R.rightNow = float(t)
    boot.VT.offset = 0.0
    boot.VT.hook = None


def now():
    return boot.R.seconds()


def set_back(dt):
    """Move the virtual clock BACKWARDS by dt seconds (clock set back by an operator/NTP).
    Pending timers keep their absolute deadlines, as they would on a real reactor."""
    boot.R.rightNow -= dt


def pending_timers():
    """[(seconds from now, name of callback)] sorted."""
    out = []
    for c in boot.R.getDelayedCalls():
        f = c.func
        out.append((round(c.getTime() - boot.R.seconds(), 3), getattr(f, "__name__", repr(f))))
    return sorted(out)


# ---------------------------------------------------------------------------- canary
class Canary(object):
    """Stand-in for the foolscap RemoteReference passed as `canary`.  Like foolscap it
    tolerates dontNotifyOnDisconnect for a marker that already fired."""

    def __init__(self, name="c"):
        self.name = name
        self.watchers = {}
        self._n = 0
        self.disconnected = False

    def notifyOnDisconnect(self, f, *args, **kwargs):
        self._n += 1
        m = (self.name, self._n)
        self.watchers[m] = (f, args, kwargs)
        return m

    def dontNotifyOnDisconnect(self, marker):
        self.watchers.pop(marker, None)

    def getRemoteTubID(self):
        return None

    def getPeer(self):
        return "<vt canary %s>" % self.name

    def disconnect(self):
        """Fire every registered watcher once (connection lost). Returns the exceptions raised."""
        errs = []
        self.disconnected = True
        for m in sorted(self.watchers):
            ent = self.watchers.pop(m, None)
            if ent is None:
                continue  # unregistered by an earlier callback
            f, a, kw = ent
            try:
                f(*a, **kw)
            except Exception as e:  # noqa
                errs.append(e)
        return errs


# ---------------------------------------------------------------------------- directories
def fresh_dir():
    _SEQ[0] += 1
    d = "/dev/shm/vt-%d-%d" % (os.getpid(), _SEQ[0])
    if os.path.exists(d):
        shutil.rmtree(d)
    return d


def tree(root):
    """{relative path: bytes for files, None for directories}, everything under root."""
    out = {}
    for dirpath, dirnames, filenames in os.walk(root):
        dirnames.sort()
        rel = os.path.relpath(dirpath, root)
        if rel != ".":
            out[rel + "/"] = None
        for fn in sorted(filenames):
            p = os.path.join(dirpath, fn)
            with open(p, "rb") as f:
                out[os.path.normpath(os.path.join(rel, fn))] = f.read()
    return out


def digest_of_tree(t):
    h = hashlib.sha256()
    for k in sorted(t):
        v = t[k]
        h.update(b"%d:" % len(k) + k.encode("utf-8"))
        if v is None:
            h.update(b"D")
        else:
            h.update(b"F%d:" % len(v) + v)
    return h.digest()


def digest(root):
    return digest_of_tree(tree(root))


# ---------------------------------------------------------------------------- container parsers
IMM_LEASE = 72    # >L32s32sL : owner, renew, cancel, expiry
MUT_LEASE = 92    # >LL32s32s20s : owner, expiry, renew, cancel, nodeid
MUT_HEADER = 100  # >32s20s32sQQ
MUT_DATA = 468


def parse_immutable(raw):
    """-> dict(version, nleases, data (bytes between header and leases), leases=[raw 72-byte records])
    The data length is derived like a reader has to: file size minus header minus leases."""
    version, _legacy_len, n = struct.unpack(">LLL", raw[:12])
    lease_start = len(raw) - n * IMM_LEASE
    leases = [raw[lease_start + i * IMM_LEASE: lease_start + (i + 1) * IMM_LEASE] for i in range(n)]
    return {"version": version, "nleases": n, "data": raw[12:max(12, lease_start)], "leases": leases,
            "legacy_len": _legacy_len}


def imm_lease_fields(rec):
    owner, renew, cancel, exp = struct.unpack(">L32s32sL", rec)
    return {"owner": owner, "renew": renew, "cancel": cancel, "expiry": exp}


def parse_mutable(raw):
    magic, nodeid, we, dlen, elo = struct.unpack(">32s20s32sQQ", raw[:MUT_HEADER])
    slots = [raw[MUT_HEADER + i * MUT_LEASE: MUT_HEADER + (i + 1) * MUT_LEASE] for i in range(4)]
    (nextra,) = struct.unpack(">L", raw[elo:elo + 4]) if len(raw) >= elo + 4 else (None,)
    extra = []
    if nextra is not None:
        for i in range(min(nextra, 64)):     # a garbage count must not blow up the harness
            extra.append(raw[elo + 4 + i * MUT_LEASE: elo + 4 + (i + 1) * MUT_LEASE])
    return {"magic": magic, "nodeid": nodeid, "write_enabler": we, "data_length": dlen,
            "extra_lease_offset": elo, "slots": slots, "container": raw[MUT_DATA:elo],
            "data": raw[MUT_DATA:MUT_DATA + dlen], "nextra": nextra, "extra": extra,
            "tail": raw[elo + 4 + (nextra or 0) * MUT_LEASE:] if nextra is not None else b""}


def mut_lease_fields(rec):
    """Fields of a 92-byte mutable lease record; a record cut short by the end of the file (a
    corrupted container) is zero-padded and flagged "short"."""
    short = len(rec) != MUT_LEASE
    owner, exp, renew, cancel, nodeid = struct.unpack(">LL32s32s20s", rec.ljust(MUT_LEASE, b"\x00")[:MUT_LEASE])
    return {"owner": owner, "expiry": exp, "renew": renew, "cancel": cancel, "nodeid": nodeid, "short": short}


def mut_leases(parsed):
    """non-empty lease records (owner != 0) in slot order: [(slotindex, fields)]"""
    out = []
    for i, rec in enumerate(parsed["slots"] + parsed["extra"]):
        f = mut_lease_fields(rec)
        if f["owner"] != 0 or f["short"]:
            out.append((i, f))
    return out


def _b32(x):
    import base64
    return base64.b32encode(x).decode("ascii").rstrip("=").lower()


def lease_tuple(li):
    """Comparable view of a LeaseInfo / HashedLeaseInfo as returned by get_leases(), through the
    public ILeaseInfo interface only."""
    return (li.owner_num, li.present_renew_secret(), li.present_cancel_secret(), int(li.get_expiration_time()), li.nodeid)


def expected_lease_tuple(fields, hashed):
    """What lease_tuple() must show for a record parsed from the raw container (`hashed`: v2 schema)."""
    pre = "hash:" if hashed else ""
    return (fields["owner"], pre + _b32(fields["renew"]), pre + _b32(fields["cancel"]), fields["expiry"], fields.get("nodeid"))


# ---------------------------------------------------------------------------- the box
class Box(object):
    """One real storage server on a fresh directory."""

    def __init__(self, reserved_space=0, readonly=False, t0=T0):
        reset_clock(t0)
        self.dir = fresh_dir()
        self.ss = StorageServer(self.dir, NODEID, reserved_space=reserved_space,
                                readonly_storage=readonly, clock=boot.R)
        self.fss = FoolscapStorageServer(self.ss)
        self.sharedir = self.ss.sharedir

    # paths
    def final_path(self, si, shnum):
        return os.path.join(self.ss.sharedir, storage_index_to_dir(si), "%d" % shnum)

    def incoming_path(self, si, shnum):
        return os.path.join(self.ss.incomingdir, storage_index_to_dir(si), "%d" % shnum)

    def bucket_dir(self, si):
        return os.path.join(self.ss.sharedir, storage_index_to_dir(si))

    def rel(self, path):
        return os.path.relpath(path, self.dir)

    def tree(self):
        return tree(self.dir)

    def digest(self):
        return digest(self.dir)

    def share_tree(self):
        return tree(self.ss.sharedir)

    def read_file(self, path):
        try:
            with open(path, "rb") as f:
                return f.read()
        except (IOError, OSError):
            return None

    def close(self):
        cancel_timers()
        shutil.rmtree(self.dir, ignore_errors=True)

    def __enter__(self):
        return self

    def __exit__(self, *a):
        self.close()
        return False


# ---------------------------------------------------------------------------- simulated disk (C28)
class SimDisk(object):
    """Rebinds os.statvfs (read by allmydata.util.fileutil.get_disk_stats on every
    StorageServer.get_available_space call) to a disk with 100 root-only bytes and

        available to the server = max(0, capacity - used(sharedir) - reserved_space)

    where used() = sum over share files OUTSIDE incoming/ of their data-region size (file
    size minus 12-byte header minus 72 bytes per lease): a disk that charges completed
    shares for their payload.  In-progress uploads are not charged by the disk; they are
    what the server's own reservation accounting has to cover."""

    def __init__(self, capacity):
        self.capacity = capacity
        self.calls = 0
        self._orig = None

    def used(self, sharedir):
        """payload bytes of the share files under sharedir/<prefix>/<si>/ (incoming/ excluded):
        file size - 12-byte header - 72 bytes per lease counted in the header."""
        total = 0
        for prefix in os.listdir(sharedir):
            if prefix == "incoming":
                continue
            pdir = os.path.join(sharedir, prefix)
            for si in os.listdir(pdir):
                sdir = os.path.join(pdir, si)
                for fn in os.listdir(sdir):
                    with open(os.path.join(sdir, fn), "rb") as f:
                        head = f.read(12)
                        size = os.fstat(f.fileno()).st_size
                    if len(head) == 12:
                        (n,) = struct.unpack(">L", head[8:12])
                        total += max(0, size - 12 - n * IMM_LEASE)
        return total

    def available(self, whichdir, reserved_space):
        self.calls += 1
        return max(0, self.capacity - self.used(whichdir) - reserved_space)

    ROOT_RESERVE = 100      # bytes free for root only (f_bfree - f_bavail), as on ext2/3/4

    def statvfs(self, whichdir):
        """os.statvfs answer of the simulated disk (block size 1): allmydata.util.fileutil.get_disk_stats /
        get_available_space - the code that turns these fields and reserved_space into 'available' - run for real"""
        self.calls += 1
        free_nonroot = max(0, self.capacity - self.used(whichdir))
        disk = self

        class _S(object):
            f_frsize = 1
            f_bsize = 1
            f_blocks = disk.capacity + disk.ROOT_RESERVE + 1000
            f_bfree = free_nonroot + disk.ROOT_RESERVE
            f_bavail = free_nonroot
        return _S()

    def __enter__(self):
        self._orig = os.statvfs
        os.statvfs = self.statvfs
        return self

    def __exit__(self, *a):
        os.statvfs = self._orig
        return False


def exc_name(e):
    return type(e).__name__


# ---------------------------------------------------------------------------- level BFS with in-worker expansion
def level_bfs(expand, roots, max_depth, extra=(), max_states=None):
    """Level-synchronous BFS for components whose whole state is on disk (mutable slots, lease
    records): a state is still *named* by the shortest history that reaches it, but a worker
    rebuilds a frontier state ONCE (replaying its history on a real server) and then tries every
    enabled operation from a byte-exact restore of that state's files, instead of replaying the
    history once per operation.

    expand(chunk_of_histories, *extra) -> common.Result whose notes hold
        "self": [canon of each parent]            (so that roots are known states)
        "succ": [(canon, history, bad)]           one entry per executed transition
    Returns a Result with counts states / transitions and notes max_depth / capped."""
    from . import common
    total = common.Result()
    seen = set()
    frontier = [list(r) for r in roots]
    expect = [None] * len(frontier)
    depth = 0
    capped = False
    while frontier:
        part = common.pmap(expand, frontier, extra)
        selfs = part.notes.pop("self", [])
        succ = part.notes.pop("succ", [])
        total.merge(part)
        if len(selfs) != len(frontier):
            raise RuntimeError("level_bfs: expand returned %d parent canons for %d parents" % (len(selfs), len(frontier)))
        for c, e, h in zip(selfs, expect, frontier):
            if e is not None and c != e:
                raise RuntimeError("level_bfs: state rebuilt by replaying %r differs from the state first produced from restored bytes (restore shortcut unsound)" % (h,))
            total.count("states_rederived_by_replay")
            seen.add(c)
        nxt, nxt_expect = [], []
        for canon, hist, bad in succ:
            total.count("transitions")
            if canon in seen:
                continue
            seen.add(canon)
            if len(seen) % 1499 == 1:
                total.sample({"history": hist})
            if bad:
                continue
            if max_states and len(seen) > max_states:
                capped = True
                continue
            nxt.append(hist)
            nxt_expect.append(canon)
        depth += 1
        total.notes["max_depth"] = depth if succ else depth - 1
        if depth >= max_depth:
            if nxt:
                total.notes["open_frontier"] = len(nxt)
            break
        frontier, expect = nxt, nxt_expect
    total.counts["states"] = len(seen)
    total.notes["capped"] = capped
    total.notes["closed"] = not frontier or (depth < max_depth)
    return total


# ---------------------------------------------------------------------------- one bucket directory as a value
class SlotDir(object):
    """The bucket directory of one storage index as a value: snapshot / byte-exact restore."""

    def __init__(self, box, si):
        self.box, self.si = box, si
        self.dir = box.bucket_dir(si)

    def snap(self):
        """{filename: bytes}; the key "." is present iff the directory exists."""
        out = {}
        if os.path.isdir(self.dir):
            for fn in sorted(os.listdir(self.dir)):
                with open(os.path.join(self.dir, fn), "rb") as f:
                    out[fn] = f.read()
            out["."] = b""
        return out

    def restore(self, snap):
        if os.path.isdir(self.dir):
            shutil.rmtree(self.dir)
        if "." in snap or len(snap):
            os.makedirs(self.dir)
            for fn, raw in snap.items():
                if fn != ".":
                    with open(os.path.join(self.dir, fn), "wb") as f:
                        f.write(raw)

    @staticmethod
    def canon(snap, salt=b""):
        h = hashlib.sha256(salt)
        for k in sorted(snap):
            h.update(b"%s:%d:" % (k.encode(), len(snap[k])) + snap[k])
        return h.digest()
