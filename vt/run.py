"""CLI:  python -m vt.run <PROP> <quick|thorough>      |   python -m vt.run <PROP> --replay <file>"""
import importlib
import json
import os
import sys

from . import boot  # noqa: F401  (must precede any allmydata import)
from . import common


def main(argv):
    if len(argv) < 1:
        print(__doc__)
        return 2
    prop = argv[0].upper()
    mod = importlib.import_module("vt.props.%s" % prop.lower())
    if len(argv) > 2 and argv[1] == "--replay":
        data = json.load(open(argv[2]))
        case = common.unjson(data["case"])
        out = mod.replay(case)
        if out:
            for sig, msg in out:
                print("REPRODUCED property=%s sig=%s\n  %s" % (prop, sig, msg))
            return 1
        print("not reproduced (property holds on this case)")
        return 0
    tier = argv[1] if len(argv) > 1 else os.environ.get("VERIF_TIER", "quick")
    if tier not in ("quick", "thorough"):
        print(__doc__)
        return 2
    t0 = common.perf()
    res, cov = mod.run(tier, boot.SEED)
    return common.finish(prop, tier, boot.SEED, mod.LEVEL, res, cov, getattr(mod, "ASSUMPTIONS", []), t0)


if __name__ == "__main__":
    sys.exit(main(sys.argv[1:]))
