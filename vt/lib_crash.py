"""Engine K: crash-point enumeration on the real file system (DESIGN 1.5).

    with CrashFS(root, crash_at=None) as k:      # counting run
        operation()
    n = k.n ; k.trace                            # number / list of file-system mutation calls
    for i in range(n):
        with CrashFS(root, crash_at=i) as k:     # on a FRESH copy of the prepared directory
            try: operation()
            except Killed: pass                  # call number i was NOT performed
        restart(...) ; check invariants

Model = process kill: every completed system call persists, whatever is still in a
userspace buffer is lost, one raw write() is atomic (all writes in the harness are far below
4096 bytes; stated as an assumption by the users of this module).  Power loss is not modelled.

Interposition points (lowest Python layer, so CPython's real buffering decides what reaches
the OS):
  * builtins.open  -> io.Buffered{Reader,Writer,Random} (and TextIOWrapper for text modes)
    around CrashFileIO, a FileIO subclass whose write()/truncate() are crash points; an open
    that creates or truncates a file is a crash point as well;
  * os.rename, os.replace, os.unlink, os.remove, os.rmdir, os.mkdir, os.truncate.
    os.makedirs is NOT wrapped on purpose: CPython's os.makedirs resolves `mkdir` through the
    os module globals, so it calls the wrapped os.mkdir once per directory level (verified by
    selfcheck()), which gives one crash point per level instead of one per makedirs call.
What the storage code uses (checked by grep on storage/*.py, util/fileutil.py, twisted
FilePath.open): open(), FilePath.open() (-> builtins.open), os.unlink, os.remove, os.rmdir,
os.rename (fileutil.rename, fileutil.move_into_place), os.makedirs (fileutil.make_dirs),
fileutil.rm_dir (os.rmdir + fileutil.remove -> os.remove; catches Exception only, so the
BaseException Killed passes).  shutil.rmtree is not used by the storage code.
Only paths under `root` are counted / can be killed; everything else passes through.
After the kill the "process is dead": every later mutation under root (including flushes
from close()/__del__ of files the operation had open) raises Killed and is dropped.
"""
import builtins
import io
import itertools
import os
import shutil
import sys

from . import boot
from allmydata.storage.server import StorageServer


class Killed(BaseException):
    """Raised INSTEAD OF performing file-system mutation number `crash_at`."""


_Killed = Killed

_real_open = builtins.open
_OS_NAMES = ("rename", "replace", "unlink", "remove", "rmdir", "mkdir", "truncate")
_real_os = {n: getattr(os, n) for n in _OS_NAMES}


def _site():
    """qualified name of the innermost allmydata frame (who asked for the mutation)."""
    f = sys._getframe(2)
    fallback = None
    while f is not None:
        fn = f.f_code.co_filename
        if "/allmydata/" in fn and "/allmydata/util/" not in fn:
            return f.f_code.co_qualname
        if fallback is None and "/allmydata/" in fn:
            fallback = f.f_code.co_qualname
        f = f.f_back
    return fallback or "?"


def _stack_sites():
    """all allmydata frames, innermost first (for diagnosis messages)."""
    out = []
    f = sys._getframe(2)
    while f is not None:
        if "/allmydata/" in f.f_code.co_filename:
            out.append("%s:%d" % (f.f_code.co_qualname, f.f_lineno))
        f = f.f_back
    return out


class CrashFileIO(io.FileIO):
    def __init__(self, eng, path, mode):
        self._eng = eng
        self._path = path
        io.FileIO.__init__(self, path, mode)

    def write(self, b):
        eng = self._eng
        if eng is not None:
            try:
                pos = io.FileIO.tell(self)
            except Exception:  # noqa
                pos = -1
            eng._mutation("write", self._path, [pos, len(b)])
        return io.FileIO.write(self, b)

    def truncate(self, size=None):
        eng = self._eng
        if eng is not None:
            eng._mutation("truncate", self._path, [size])
        return io.FileIO.truncate(self, size)


class CrashFS(object):
    """Context manager; see module docstring."""

    def __init__(self, root, crash_at=None, on_event=None):
        self.root = os.path.realpath(root) + os.sep
        self.crash_at = crash_at
        self.n = 0
        self.trace = []        # [kind, relpath, detail, site]
        self.dead = False
        self.kill_site = None
        self.kill_stack = None
        self.kill_event = None
        self.on_event = on_event   # optional callable(index, kind, relpath, site) -> True to kill here
        self._installed = False

    # -------------------------------------------------------------- core
    def _under(self, path):
        try:
            p = os.fspath(path)
        except TypeError:
            return False
        if isinstance(p, bytes):
            p = os.fsdecode(p)
        p = os.path.abspath(p)
        return (p + os.sep).startswith(self.root) or p.startswith(self.root)

    def _mutation(self, kind, path, detail=None):
        if self.dead:
            raise Killed()
        if not self._installed:
            return  # file object outliving a counting run: behave normally
        idx = self.n
        self.n += 1
        rel = os.path.abspath(os.fspath(path))[len(self.root):]
        site = _site()
        ev = [kind, rel, detail, site]
        self.trace.append(ev)
        kill = (idx == self.crash_at)
        if not kill and self.on_event is not None:
            kill = bool(self.on_event(idx, kind, rel, site))
        if kill:
            self.kill_now(ev)

    def kill_now(self, ev=None):
        """Declare the process dead (may also be called by a harness at a logical step)."""
        self.dead = True
        self.kill_event = ev
        self.kill_site = ev[3] if ev else None
        self.kill_stack = _stack_sites()
        raise Killed()

    # -------------------------------------------------------------- open
    def _open(self, file, mode="r", buffering=-1, encoding=None, errors=None, newline=None,
              closefd=True, opener=None):
        if isinstance(file, int) or opener is not None or not self._under(file):
            return _real_open(file, mode, buffering, encoding, errors, newline, closefd, opener)
        m = set(mode)
        text = "b" not in m
        creating = "x" in m
        writing = "w" in m
        appending = "a" in m
        updating = "+" in m
        reading = "r" in m
        rawmode = ("x" if creating else "") + ("r" if reading else "") + ("w" if writing else "") + \
                  ("a" if appending else "") + ("+" if updating else "")
        if writing or creating or appending:
            exists = os.path.exists(file)
            if not exists:
                self._mutation("open-create", file, [mode])
            elif writing and os.path.getsize(file) > 0:
                self._mutation("open-truncate", file, [mode])
        elif self.dead and updating:
            pass  # opening r+ is not a mutation; the following write will raise
        raw = CrashFileIO(self, os.fspath(file), rawmode)
        if buffering == 0:
            if text:
                raise ValueError("can't have unbuffered text I/O")
            return raw
        bufsize = io.DEFAULT_BUFFER_SIZE if buffering < 0 or buffering == 1 else buffering
        if updating:
            buf = io.BufferedRandom(raw, bufsize)
        elif writing or creating or appending:
            buf = io.BufferedWriter(raw, bufsize)
        else:
            buf = io.BufferedReader(raw, bufsize)
        if not text:
            return buf
        t = io.TextIOWrapper(buf, encoding, errors, newline, buffering == 1)
        t.mode = mode
        return t

    # -------------------------------------------------------------- os.*
    def _wrap_os(self, name):
        real = _real_os[name]
        eng = self

        def wrapper(path, *a, **kw):
            if eng._under(path):
                detail = None
                if name in ("rename", "replace") and a:
                    try:
                        detail = [os.path.abspath(os.fspath(a[0]))[len(eng.root):]]
                    except Exception:  # noqa
                        detail = None
                eng._mutation(name, path, detail)
            return real(path, *a, **kw)
        wrapper.__name__ = name
        return wrapper

    def __enter__(self):
        if builtins.open is not _real_open:
            raise RuntimeError("CrashFS is not re-entrant")
        builtins.open = self._open
        for n in _OS_NAMES:
            setattr(os, n, self._wrap_os(n))
        self._installed = True
        return self

    def __exit__(self, et, ev, tb):
        builtins.open = _real_open
        for n in _OS_NAMES:
            setattr(os, n, _real_os[n])
        self._installed = False
        return False


def run_killable(eng, func):
    """Run func() inside eng; returns ("done", value) | ("killed", None); other exceptions propagate."""
    with eng:
        try:
            return "done", func()
        except Killed:
            return "killed", None


# ------------------------------------------------------------------ scratch directories
_counter = itertools.count()
_live = []


def scratch_dir(tag=""):
    """fresh directory /dev/shm/vt-<pid>-<n>[-tag]; remember it for cleanup()."""
    d = "/dev/shm/vt-%d-%d%s" % (os.getpid(), next(_counter), ("-" + tag) if tag else "")
    shutil.rmtree(d, ignore_errors=True)
    os.makedirs(d)
    _live.append(d)
    return d


def remove_dir(d):
    shutil.rmtree(d, ignore_errors=True)
    if d in _live:
        _live.remove(d)


def cleanup():
    for d in list(_live):
        remove_dir(d)


class Scratch(object):
    """with Scratch() as base: ...   (pool workers leave through os._exit: always use this)"""

    def __init__(self, tag=""):
        self.tag = tag

    def __enter__(self):
        self.base = scratch_dir(self.tag)
        return self.base

    def __exit__(self, *a):
        remove_dir(self.base)
        return False


def copy_tree(src, dst):
    shutil.rmtree(dst, ignore_errors=True)
    shutil.copytree(src, dst, symlinks=True)
    return dst


def snapshot(root):
    """{relative path: file bytes, or None for a directory}"""
    out = {}
    for dp, dns, fns in os.walk(root):
        dns.sort()
        for dn in dns:
            out[os.path.relpath(os.path.join(dp, dn), root)] = None
        for fn in sorted(fns):
            p = os.path.join(dp, fn)
            with _real_open(p, "rb") as f:
                out[os.path.relpath(p, root)] = f.read()
    return out


# ------------------------------------------------------------------ real storage servers
NODEID = b"\x5a" * 20


def make_server(storedir, clock=None, **kw):
    """A REAL allmydata.storage.server.StorageServer on `storedir` (not started as a service:
    its two crawlers exist but have no timers).  clock defaults to the virtual reactor."""
    return StorageServer(storedir, NODEID, clock=(clock if clock is not None else boot.R), **kw)


def restart(storedir, clock=None, **kw):
    """What a process restart does: construct a new server object on the same directory."""
    cancel_timers()
    return make_server(storedir, clock=clock, **kw)


def cancel_timers():
    """forget timers of discarded objects (BucketWriter timeouts, crawler timers) on boot.R"""
    for c in list(boot.R.getDelayedCalls()):
        try:
            c.cancel()
        except Exception:  # noqa
            pass


def selfcheck():
    """the interposer sees what it claims to see; returns the trace of a small scenario"""
    with Scratch("selfcheck") as base:
        with CrashFS(base) as k:
            os.makedirs(os.path.join(base, "a", "b"))
            with open(os.path.join(base, "a", "b", "f"), "wb") as f:
                f.write(b"x" * 10)
            with open(os.path.join(base, "a", "b", "f"), "rb+") as f:
                f.seek(2)
                f.write(b"yy")
                f.seek(0)
                f.write(b"z")
                f.truncate(5)
            os.rename(os.path.join(base, "a", "b", "f"), os.path.join(base, "a", "g"))
            os.rmdir(os.path.join(base, "a", "b"))
            os.unlink(os.path.join(base, "a", "g"))
        kinds = [e[0] for e in k.trace]
        want = ["mkdir", "mkdir", "open-create", "write", "write", "write", "truncate", "rename", "rmdir", "unlink"]
        if kinds != want:
            raise RuntimeError("CrashFS selfcheck: trace %r, expected %r" % (kinds, want))
        return k.trace
