"""Web-API layer on Engine G: the real allmydata.web.root.Root served by the real TahoeLAFSSite,
fed raw HTTP bytes through an in-memory transport; all storage traffic goes through the scheduler."""
import tempfile

from . import boot, grid
from .boot import R

from twisted.application import service
from twisted.internet.testing import StringTransportWithDisconnection

from allmydata.web.root import Root
from allmydata.webish import TahoeLAFSSite
from allmydata.web.operations import OphandleTable
from allmydata.interfaces import SDMF_VERSION


class _Webish(service.MultiService):
    name = "webish"

    def __init__(self):
        service.MultiService.__init__(self)
        self._ops = OphandleTable(R)
        self._ops.setServiceParent(self)

    def get_operations(self):
        return self._ops


def webify(client):
    """give a grid.VClient what allmydata.web expects from a _Client"""
    c = client
    c.nickname = "vt"
    c.convergence = c._secret_holder.get_convergence_secret()
    c.mutable_file_default = SDMF_VERSION
    c.blacklist = None
    c.introducer_clients = []
    c.helper = None
    w = _Webish()
    w.setServiceParent(c)
    c.get_web_service = lambda: w
    c.create_dirnode = lambda initial_children=None, version=None, **kw: c.nodemaker.create_new_mutable_directory(initial_children or {}, version=version)
    c.create_immutable_dirnode = lambda children, convergence=None: c.nodemaker.create_immutable_directory(children, convergence if convergence is not None else c.convergence)
    c.create_mutable_file = lambda contents=None, version=None, **kw: c.nodemaker.create_mutable_file(contents, version=version)
    c.get_long_nodeid = lambda: b"v0-vt"
    c.get_long_tubid = lambda: b"vt"
    c.introducer_connection_statuses = lambda: []
    c.connected_to_introducer = lambda: False
    c.get_auth_token = lambda: b"token"
    c.get_client_storage_plugin_web_resources = lambda *a: {}
    c.get_stats = lambda: {}
    c.stats_provider = None
    return c


class Web(object):
    def __init__(self, g, ci=0):
        self.g = g
        self.client = webify(g.clients[ci])
        self.root = Root(self.client, R, boot.VT.time)
        self.site = TahoeLAFSSite(lambda: tempfile.TemporaryFile(dir=g.base), self.root)

    def request(self, method, path, body=b"", headers=None, explore=False):
        """returns (status, headers dict lower->list, body) or None if the response never completed"""
        proto = self.site.buildProtocol(None)
        tr = StringTransportWithDisconnection()
        tr.protocol = proto
        proto.makeConnection(tr)
        hs = {"Host": "localhost", "Connection": "close", "Content-Length": str(len(body))}
        hs.update(headers or {})
        raw = ("%s %s HTTP/1.1\r\n" % (method, path)).encode("utf-8")
        for k, v in hs.items():
            raw += k.encode("ascii") + b": " + (v if isinstance(v, bytes) else str(v).encode("utf-8")) + b"\r\n"
        raw += b"\r\n" + body
        proto.dataReceived(raw)
        sched = self.g.sched
        old = sched.explore
        sched.explore = explore
        if not explore:
            sched.steps = 0        # the livelock horizon is per request, not per grid
            del sched.log[:]

        class _Done(object):
            def __bool__(s):
                return not tr.connected
        try:
            sched.run(until=_Done())
        finally:
            sched.explore = old
        data = tr.value()
        if tr.connected:
            return None
        if not data.startswith(b"HTTP/") or b"\r\n\r\n" not in data:
            # the server closed the connection without a well-formed response
            return 0, {}, data
        head, rest = data.split(b"\r\n\r\n", 1)
        lines = head.split(b"\r\n")
        status = int(lines[0].split(b" ")[1])
        hd = {}
        for ln in lines[1:]:
            k, _, v = ln.partition(b": ")
            hd.setdefault(k.decode("latin-1").lower(), []).append(v.decode("latin-1"))
        if hd.get("transfer-encoding") == ["chunked"]:
            out = b""
            while rest:
                ln, _, rest = rest.partition(b"\r\n")
                n = int(ln.split(b";")[0], 16)
                if n == 0:
                    break
                out, rest = out + rest[:n], rest[n + 2:]
            rest = out
        return status, hd, rest
