"""Engine H: explicit-state breadth-first search over operation histories of REAL objects.

A state is the history that reaches it.  `replay(hist)` must build fresh real objects,
apply every operation of `hist` to them and to a plain reference model, compare after the
LAST operation (earlier prefixes were compared when they were generated), and return
(canon, violations, enabled_ops):
    canon         hashable canonical form of the implementation state (property-relevant
                  fields only; the module must argue why merged states have equal futures)
    violations    list of (sig, msg)
    enabled_ops   list of JSON-able operations to try next from this state
The search is level-synchronous; each level's (history, op) pairs are replayed in forked
workers.  A state in which a violation was observed is not expanded.  Because BFS reaches
every state by a shortest history the first counterexample is minimal.
"""
from . import common


def _level(chunk, replay):
    res = common.Result()
    out = []
    for hist in chunk:
        canon, viols, ops = replay(hist)
        res.count("transitions")
        for sig, msg in viols:
            res.violation(sig, {"history": hist}, msg)
        out.append((hist, canon, bool(viols), ops))
    res.notes["out"] = out
    return res


def explore(replay, max_depth, roots=((),), dedup=True, max_states=None, workers=None, sample_every=997):
    """Returns a common.Result with counts states/transitions/max_depth and samples."""
    total = common.Result()
    seen = set()
    frontier = [list(r) for r in roots]
    depth = 0
    capped = False
    while frontier:
        # replay this level
        parts = common.pmap(_level_wrap, frontier, (replay,), workers=workers)
        outs = parts.notes.pop("outs", [])
        parts.notes.pop("out", None)
        total.merge(parts)
        nxt = []
        for hist, canon, bad, ops in outs:
            if dedup:
                if canon in seen:
                    continue
                seen.add(canon)
            else:
                seen.add((canon, len(seen)))
            if len(seen) % sample_every == 1:
                total.sample({"history": hist, "canon": repr(canon)[:300]})
            if bad:
                continue
            if depth < max_depth:
                if max_states and len(seen) > max_states:
                    capped = True
                    continue
                for op in ops:
                    nxt.append(hist + [op])
        total.notes["max_depth"] = depth
        frontier = nxt
        depth += 1
    total.counts["states"] = len(seen)
    total.notes["capped"] = capped
    return total


def _level_wrap(chunk, replay):
    res = _level(chunk, replay)
    res.notes["outs"] = res.notes.pop("out")
    return res
