"""C36  Erasure coding recovers from any k blocks  (Engine E, exhaustive small scope + closed families).

Code under test: allmydata.codec.CRSEncoder / CRSDecoder, driven with exactly the
set_params / piece-cutting / padding / truncation conventions of the four call sites:
  * "plain"   segment size a multiple of k           (Encoder._codec, Publish.fec)
  * "enc"     immutable tail: data zero-padded to next_multiple(t, k), codec told the PADDED
              size, decoder told the padded size, result truncated to t
              (immutable/encode.py _got_all_encoding_parameters + _gather_data,
               immutable/downloader/node.py _decode_blocks)
  * "pub"     mutable tail: codec told the UNPADDED size t, pieces of div_ceil(t,k) bytes cut
              from the data and each zero-padded, decoder told t, result truncated to t
              (mutable/publish.py _encode_segment, mutable/retrieve.py _decode_blocks)
The Deferreds fire synchronously (vt.boot disables the CPU thread pool).

Space.
  small: ALL (k, N) with 1 <= k <= N <= 7 (thorough 9) x sizes {k, 2k, 5k, 257k} and tails
         {1, k+1, 5k-1} (when not a multiple of k) in both tail styles x 2 contents (seeded
         pseudo-random, counting pattern) x EVERY k-subset of the N blocks, each in every
         order for k <= 3 (thorough 4) and in sorted, reversed and rotated order otherwise;
         for every subset also the blocks produced by encode(desired_share_ids=subset).
  large: N in {16, 64, 255, 256} x a fixed menu of k x the closed families
         first-k, last-k, every contiguous window (cyclic), evens, odds, stride patterns, and
         "primary blocks with exactly one replaced by each secondary" (all k x (N-k) of them),
         each sorted and reversed.
  sweep: EVERY (k, N) with k <= N <= 256 above the small range x three subsets: the last k blocks, the first k-1 primaries with the last
         secondary, a strided selection from the end.
  sites: the REAL immutable producer and consumer of blocks, Encoder.set_encrypted_uploadable / start (in-memory share holders) / _encode_segment /
         _gather_data and DownloadNode._parse_and_store_UEB / _decode_blocks: every (k, N) of the small range (and
         10-of-30, 7-of-64, 25-of-100, 3-of-10) x segment sizes {k, 2k, 5k} x EVERY tail length 1..segment size, as a
         one-segment file and behind a full segment, three k-subsets each.
Oracle: b"".join(decode(blocks, ids))[:size] == data; a Failure or an unfired Deferred is a
violation as well.
"""
import hashlib
import itertools

from allmydata.codec import CRSEncoder, CRSDecoder
from allmydata.util import mathutil
from .. import common

LEVEL = "exploration"
ASSUMPTIONS = [
    "every k-subset only for N <= 7 (thorough 9); for N in {16,64,255,256} only the closed structured families named in coverage.rule (zfec itself is a compiled dependency, not tahoe code)",
    "block sizes up to 257 bytes; zfec has no size-dependent branch visible from codec.py",
    "share ids are given as ints, as the downloader and retrieve code give them",
]

LARGE_K = {
    16: [1, 2, 3, 8, 15, 16],
    64: [1, 3, 22, 32, 63, 64],
    255: [1, 3, 85, 127, 254, 255],
    256: [1, 3, 86, 128, 255, 256],
}


def content(seed, kind, size, tag):
    if kind == "count":
        return bytes((i * 7 + 1) % 256 for i in range(size))
    out = b""
    ctr = 0
    while len(out) < size:
        out += hashlib.sha256(b"vt-c36:%d:%s:%d" % (seed, tag, ctr)).digest()
        ctr += 1
    return out[:size]


def fired(d):
    box = []
    d.addBoth(box.append)
    if not box:
        from .. import boot
        boot.R.pump_until_idle()
    if not box:
        return ("unfired", None)
    r = box[0]
    if hasattr(r, "value") and hasattr(r, "trap"):
        return ("errback:" + type(r.value).__name__, r.value)
    return ("ok", r)


def make_codecs(style, size, k, N):
    """returns (encoder, decoder, pieces_of(data)) following the call site named by style"""
    enc, dec = CRSEncoder(), CRSDecoder()
    if style == "pub":
        enc.set_params(size, k, N)
        dec.set_params(size, k, N)
        bs = enc.get_block_size()

        def pieces(data):
            out = []
            for i in range(k):
                p = data[i * bs:(i + 1) * bs]
                out.append(p + b"\x00" * (bs - len(p)))
            return out
    else:
        padded = mathutil.next_multiple(size, k)
        enc.set_params(padded, k, N)
        dec.set_params(padded, k, N)
        bs = enc.get_block_size()

        def pieces(data):
            d = data + b"\x00" * (padded - len(data))
            return [d[i * bs:(i + 1) * bs] for i in range(k)]
    return enc, dec, pieces


def subsets_small(k, N, allperm_upto):
    for sub in itertools.combinations(range(N), k):
        if k <= allperm_upto:
            for p in itertools.permutations(sub):
                yield list(p)
        else:
            s = list(sub)
            yield s
            if k > 1:
                yield s[::-1]
                yield s[1:] + s[:1]


def family_large(k, N, fam, part, nparts):
    def both(s):
        s = list(s)
        yield s
        if len(s) > 1:
            yield s[::-1]
    if fam == "basic":
        seen = set()
        cands = [range(k), range(N - k, N)]
        for st in range(N):
            cands.append([(st + j) % N for j in range(k)])
        evens, odds = list(range(0, N, 2)), list(range(1, N, 2))
        cands.append((evens + odds)[:k])
        cands.append((odds + evens)[:k])
        for stride in (3, 5, 7):
            if N % stride:
                cands.append([(j * stride) % N for j in range(k)])
        for c in cands:
            key = tuple(sorted(c))
            if len(set(c)) == k and key not in seen:
                seen.add(key)
                for s in both(sorted(c)):
                    yield s
    elif fam == "sweep":
        # three subsets per (k,N), for EVERY k <= N <= 256: the last k blocks, the first k-1 primaries with
        # the last secondary, and every block number congruent to N-1 modulo ceil(N/k) topped up from the end
        seen = set()
        cands = [list(range(N - k, N))]
        if k < N:
            cands.append(list(range(k - 1)) + [N - 1])
            step = -(-N // k)
            c = list(range(N - 1, -1, -step))[:k]
            c += [i for i in range(N - 1, -1, -1) if i not in c][:k - len(c)]
            cands.append(sorted(c))
        for c in cands:
            key = tuple(c)
            if len(set(c)) == k and key not in seen:
                seen.add(key)
                yield list(c)
    else:  # replace: primaries with exactly one replaced by each secondary
        idx = 0
        for i in range(k):
            for j in range(k, N):
                if idx % nparts == part:
                    s = list(range(k))
                    s[i] = j
                    yield s            # secondary sits in the primary's slot (unsorted)
                    if s != sorted(s):
                        yield sorted(s)
                idx += 1


def check_config(job, res):
    """job = {k,N,size,style,content,mode, ...}; runs every subset of the job"""
    k, N, size, style = job["k"], job["N"], job["size"], job["style"]
    data = content(job["seed"], job["content"], size, b"%d-%d-%d" % (k, N, size))
    case0 = {x: job[x] for x in ("k", "N", "size", "style", "content", "seed")}
    try:
        enc, dec, pieces = make_codecs(style, size, k, N)
        st, r = fired(enc.encode(pieces(data)))
    except Exception as e:  # noqa
        st, r = "encode-raised:" + type(e).__name__, e
    if st != "ok":
        res.violation("encode:" + st, dict(case0, ids=None), "encode failed for k=%d N=%d size=%d style=%s: %r" % (k, N, size, style, r))
        return
    blocks, ids = r
    if list(ids) != list(range(N)) or len(blocks) != N or any(len(b) != enc.get_block_size() for b in blocks):
        res.violation("encode:wrong-shape", dict(case0, ids=None), "encode returned ids=%r, %d blocks of sizes %r, expected %d blocks of %d bytes"
                      % (ids, len(blocks), sorted(set(len(b) for b in blocks)), N, enc.get_block_size()))
        return
    blocks = [bytes(b) for b in blocks]
    if job["mode"] == "small":
        gen = subsets_small(k, N, job["allperm"])
    else:
        gen = family_large(k, N, job["family"], job.get("part", 0), job.get("nparts", 1))
    first = True
    for sub in gen:
        bad = decode_and_compare(dec, blocks, sub, data, size)
        res.count("evaluations")
        if any(i >= k for i in sub):
            res.count("nontrivial")
        res.distinct.add(("n", len(set(sub) - set(range(k)))))
        if bad:
            res.violation(bad[0], dict(case0, ids=sub), "k=%d N=%d size=%d style=%s ids=%r: %s" % (k, N, size, style, sub, bad[1]))
        if job["mode"] == "small" and sub == sorted(sub):
            # blocks produced on request for exactly this subset
            try:
                st, r = fired(enc.encode(pieces(data), desired_share_ids=list(sub)))
            except Exception as e:  # noqa
                st, r = "encode-raised:" + type(e).__name__, e
            res.count("evaluations")
            if st != "ok":
                res.violation("encode-desired:" + st, dict(case0, ids=sub, desired=True), "encode(desired_share_ids=%r) failed: %r" % (sub, r))
            else:
                b2, i2 = r
                bad = decode_and_compare(dec, [None if i not in sub else bytes(b2[list(i2).index(i)]) for i in range(N)], sub, data, size)
                if bad:
                    res.violation("desired:" + bad[0], dict(case0, ids=sub, desired=True), "blocks from encode(desired_share_ids=%r): %s" % (sub, bad[1]))
        if first and any(i >= k for i in sub):
            first = False
            res.sample({"k": k, "N": N, "size": size, "style": style, "ids": sub, "data_prefix": data[:8], "decoded_ok": not bad})


def decode_and_compare(dec, blocks, sub, data, size):
    try:
        st, r = fired(dec.decode([blocks[i] for i in sub], list(sub)))
    except Exception as e:  # noqa
        st, r = "decode-raised:" + type(e).__name__, e
    if st != "ok":
        return ("decode:" + st, "decode failed: %r" % (r,))
    got = b"".join(bytes(b) for b in r)[:size]
    if got != data:
        n = next((i for i in range(min(len(got), len(data))) if got[i] != data[i]), min(len(got), len(data)))
        return ("wrong-bytes", "decoded %d bytes, first difference at offset %d (got %r want %r)" % (len(got), n, got[n:n + 8], data[n:n + 8]))
    return None


# ------------------------------------------------------------------ the real immutable call sites
def site_roundtrip(k, N, segsize, size, seed):
    """A whole (ciphertext) file through the REAL producer and consumer of immutable blocks:
    immutable.encode.Encoder (set_encrypted_uploadable -> codec set-up; start() with in-memory share holders ->
    _encode_segment -> _gather_data: piece cutting and tail padding -> put_block) and immutable.downloader.node.DownloadNode (_parse_and_store_UEB -> codec set-up,
    _decode_blocks: tail truncation).  Returns [(sig, msg)] and the number of decodes."""
    from zope.interface import implementer
    from twisted.internet import defer
    from allmydata import uri as _uri
    from allmydata.interfaces import IEncryptedUploadable
    from allmydata.immutable.encode import Encoder
    from allmydata.immutable.downloader.node import DownloadNode
    from allmydata.immutable.downloader.status import DownloadStatus
    data = content(seed, "rand", size, b"site-%d-%d-%d" % (k, N, segsize))

    @implementer(IEncryptedUploadable)
    class EU(object):
        pos = 0

        def set_upload_status(self, st):
            pass

        def get_size(self):
            return defer.succeed(size)

        def get_all_encoding_parameters(self):
            return defer.succeed((k, 1, N, segsize))

        def get_storage_index(self):
            return defer.succeed(b"\x01" * 16)

        def read_encrypted(self, length, hash_only):
            out = data[self.pos:self.pos + length]
            self.pos += length
            return defer.succeed([out])

        def close(self):
            pass
    where = "k=%d N=%d segment size %d file size %d" % (k, N, segsize, size)
    from allmydata.interfaces import IStorageBucketWriter

    @implementer(IStorageBucketWriter)
    class Bucket(object):
        """in-memory share holder: keeps the blocks the encoder sends"""

        def __init__(self):
            self.blocks = {}

        def put_header(self):
            return defer.succeed(None)

        def put_block(self, segnum, block):
            self.blocks[segnum] = bytes(block)
            return defer.succeed(None)

        def put_crypttext_hashes(self, h):
            return defer.succeed(None)

        put_block_hashes = put_share_hashes = put_uri_extension = put_crypttext_hashes

        def close(self):
            return defer.succeed(None)

        def abort(self):
            return defer.succeed(None)

        def get_servername(self):
            return "mem"

        def get_peerid(self):
            return b"m" * 20
    bad, n = [], 0
    e = Encoder()
    st, r = fired(e.set_encrypted_uploadable(EU()))
    if st != "ok":
        return [("site:encoder-setup:" + st, "%s: %r" % (where, r))], 0
    nseg = e.num_segments
    buckets = {i: Bucket() for i in range(N)}
    e.set_shareholders(buckets, {i: set([b"m" * 20]) for i in range(N)})
    try:
        st, r = fired(e.start())
    except Exception as ex:  # noqa
        st, r = "raised:" + type(ex).__name__, ex
    if st != "ok":
        return [("site:encode:" + st, "%s: Encoder.start() with %d in-memory share holders failed: %r" % (where, N, r))], 0
    vcap = _uri.CHKFileVerifierURI(b"\x01" * 16, b"\x02" * 32, k, N, size)
    dn = DownloadNode(vcap, None, None, None, None, DownloadStatus(b"\x01" * 16, size))
    try:
        dn._parse_and_store_UEB(_uri.pack_extension({"segment_size": segsize, "crypttext_root_hash": b"\x03" * 32, "share_root_hash": b"\x04" * 32}))
    except Exception as ex:  # noqa
        return [("site:reader-setup:" + type(ex).__name__, "%s: %r" % (where, ex))], 0
    subs = [list(range(k)), list(range(N - k, N)), [(j * 2 + 1) % N for j in range(k)] if N >= 2 * k else list(range(N - k, N))[::-1]]
    for segnum in range(nseg):
        if any(segnum not in buckets[i].blocks for i in range(N)):
            bad.append(("site:block-not-produced", "%s: no block of segment %d was sent to share holder(s) %r" % (where, segnum, [i for i in range(N) if segnum not in buckets[i].blocks])))
            continue
        want = data[segnum * segsize:(segnum + 1) * segsize]
        for sub in subs:
            if len(set(sub)) != k:
                continue
            n += 1
            try:
                st, r2 = fired(dn._decode_blocks(segnum, {i: buckets[i].blocks[segnum] for i in sub}))
            except Exception as ex:  # noqa
                st, r2 = "raised:" + type(ex).__name__, ex
            if st == "ok" and isinstance(r2, tuple):
                r2 = r2[0]          # (segment, seconds spent decoding)
            if st != "ok":
                bad.append(("site:decode:" + st, "%s: DownloadNode._decode_blocks(%d, blocks %r) failed: %r" % (where, segnum, sub, r2)))
            elif bytes(r2) != want:
                bad.append(("site:wrong-bytes", "%s: segment %d from blocks %r decodes to %d bytes %r..., the segment is %d bytes %r..." % (where, segnum, sub, len(r2), bytes(r2)[:8], len(want), want[:8])))
    return bad, n


def site_jobs(tier):
    out = []
    nmax = 7 if tier == "quick" else 9
    for N in range(1, nmax + 1):
        for k in range(1, N + 1):
            for mult in (1, 2, 5):
                out.append({"mode": "site", "k": k, "N": N, "segsize": mult * k})
    for (k, N) in ((10, 30), (7, 64), (25, 100), (3, 10)):
        for mult in (1, 4):
            out.append({"mode": "site", "k": k, "N": N, "segsize": mult * k})
    return out


def check_site(job, res):
    k, N, segsize = job["k"], job["N"], job["segsize"]
    # EVERY tail length 1..segsize, as a single-segment file and behind one full segment
    for t in range(1, segsize + 1):
        for size in (t, segsize + t):
            bad, n = site_roundtrip(k, N, segsize, size, job["seed"])
            res.count("evaluations", n)
            res.count("nontrivial", n)
            res.count("site_files")
            for sig, msg in bad[:2]:
                res.violation(sig, {"mode": "site", "k": k, "N": N, "segsize": segsize, "size": size, "seed": job["seed"]}, msg)


def _chunk(chunk):
    res = common.Result()
    for job in chunk:
        if job.get("mode") == "site":
            check_site(job, res)
        else:
            check_config(job, res)
        res.count("configs")
    return res


def replay(case):
    from .. import boot
    if case.get("mode") == "site":
        return site_roundtrip(case["k"], case["N"], case["segsize"], case["size"], case.get("seed", boot.SEED))[0]
    res = common.Result()
    k, N, size, style = case["k"], case["N"], case["size"], case["style"]
    seed = case.get("seed", boot.SEED)
    data = content(seed, case["content"], size, b"%d-%d-%d" % (k, N, size))
    try:
        enc, dec, pieces = make_codecs(style, size, k, N)
        st, r = fired(enc.encode(pieces(data)))
    except Exception as e:  # noqa
        return [("encode:encode-raised:" + type(e).__name__, repr(e))]
    if st != "ok":
        return [("encode:" + st, repr(r))]
    blocks, ids = r
    if case.get("ids") is None:
        if list(ids) != list(range(N)) or len(blocks) != N or any(len(b) != enc.get_block_size() for b in blocks):
            return [("encode:wrong-shape", "shape")]
        return []
    sub = case["ids"]
    if case.get("desired"):
        st, r = fired(enc.encode(pieces(data), desired_share_ids=list(sub)))
        if st != "ok":
            return [("encode-desired:" + st, repr(r))]
        b2, i2 = r
        blocks = [None if i not in sub else bytes(b2[list(i2).index(i)]) for i in range(N)]
    bad = decode_and_compare(dec, [None if b is None else bytes(b) for b in blocks], sub, data, size)
    if bad and case.get("desired"):
        bad = ("desired:" + bad[0], bad[1])
    return [bad] if bad else []


def jobs_for(tier, seed):
    jobs = []
    nmax = 7 if tier == "quick" else 9
    allperm = 3 if tier == "quick" else 4
    for N in range(1, nmax + 1):
        for k in range(1, N + 1):
            confs = [("plain", k), ("plain", 2 * k), ("plain", 5 * k), ("plain", 257 * k)]
            for t in (1, k + 1, 5 * k - 1):
                if t % k:
                    confs.append(("enc", t))
                    confs.append(("pub", t))
            for style, size in confs:
                for c in ("rand", "count"):
                    jobs.append({"mode": "small", "k": k, "N": N, "size": size, "style": style, "content": c, "allperm": allperm, "seed": seed})
    for N in sorted(LARGE_K):
        for k in LARGE_K[N]:
            confs = [("plain", 2 * k)]
            if k > 1:
                confs += [("enc", 2 * k + 1), ("pub", 2 * k + 1)]
            for style, size in confs:
                jobs.append({"mode": "large", "family": "basic", "k": k, "N": N, "size": size, "style": style, "content": "rand", "seed": seed})
            if k < N:
                nparts = max(1, (k * (N - k)) // 512)
                styles = [("plain", 2 * k)] if tier == "quick" else confs
                for style, size in styles:
                    for part in range(nparts):
                        jobs.append({"mode": "large", "family": "replace", "part": part, "nparts": nparts, "k": k, "N": N, "size": size, "style": style, "content": "rand", "seed": seed})
    # sweep: EVERY (k, N) with k <= N <= 256 (the statement's whole range) with three subsets each
    ks = lambda N: range(1, N + 1)
    for N in range(nmax + 1, 257):
        for k in ks(N):
            jobs.append({"mode": "large", "family": "sweep", "k": k, "N": N, "size": k, "style": "plain", "content": "rand", "seed": seed})
    return jobs, nmax, allperm


def run(tier, seed):
    jobs, nmax, allperm = jobs_for(tier, seed)
    sj = [dict(j, seed=seed) for j in site_jobs(tier)]
    jobs = jobs + sj
    # heavy jobs first, interleaved
    jobs.sort(key=lambda j: -(j["k"] ** 2 * (1 if j["mode"] == "small" else 50)) if j["mode"] != "site" else -(j["segsize"] ** 2 * 40))
    nchunks = min(len(jobs), common.NWORKERS * 8)
    jobs = [j for r in range(nchunks) for j in jobs[r::nchunks]]
    res = common.pmap(_chunk, jobs)
    cov = {
        "evaluations": res.counts.get("evaluations", 0),
        "distinct_nontrivial": res.counts.get("nontrivial", 0),
        "exhaustive": True,
        "configurations": res.counts.get("configs", 0),
        "site_files": res.counts.get("site_files", 0),
        "distinct_secondary_block_counts": sorted(x[1] for x in res.distinct),
        "rule": ("every (k,N) with 1<=k<=N<=%d x sizes {k,2k,5k,257k} + tails {1,k+1,5k-1} in immutable ('enc') and mutable ('pub') padding style x 2 contents x every k-subset "
                 "(all orders for k<=%d, else sorted/reversed/rotated) + blocks from encode(desired_share_ids=subset); N in %s with k in %s: first-k, last-k, every cyclic window, "
                 "evens, odds, strides 3/5/7, primaries with exactly one replaced by each secondary (sorted and in-place); each distinct (config, ordered id list) is evaluated once; "
                 "plus a sweep over every (k,N), k<=N<=256 with three subsets each; plus files through the real Encoder and DownloadNode call sites (every tail length, count in site_files); "
                 "non-trivial = the id list contains at least one secondary block (id >= k), i.e. decoding needs a matrix inversion")
                % (nmax, allperm, sorted(LARGE_K), {str(n): LARGE_K[n] for n in sorted(LARGE_K)}),
    }
    return res, cov


MANIFEST = {
    "engine": "E",
    "technique": "exhaustive enumeration of every k-subset (and block order) for all k<=N<=7 (thorough 9) plus closed structured subset families for N in {16,64,255,256}, through the real CRSEncoder/CRSDecoder with tahoe's own padding conventions",
    "text": "Every (k,N) up to 7 (thorough 9), several segment sizes including immutable-style and mutable-style padded tails, two contents: every k-subset of the produced blocks in several orders is decoded and compared with the input. For N = 16, 64, 255, 256 the families first-k, last-k, every cyclic window, evens/odds, strides and all single-secondary replacements are fully enumerated.",
    "note": "Silent about the remaining subsets for N > 9 (zfec is a compiled dependency). VERIF_SEED only changes segment contents. A hang inside zfec (e.g. duplicate share ids under a mutant) would hang the check.",
}
