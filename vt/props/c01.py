"""C01  Immutable upload/download round trip  (Engine G, stateless model checking).

Part A (configurations, default schedule d=0): EVERY (k, N, max_segment_size, size, S) in the
grid described in `configs()`; upload through the real Uploader, download through the real
ImmutableFileNode built from the returned cap, on S real StorageServers.
Part B (schedules): for a sub-grid, ALL schedules with <= d deviations of the upload phase and,
separately, of the download phase (a deviation = delivering another pending call first, or
firing the next timer before a pending call).
Oracle: upload succeeds (honest writable servers, happy <= min(N,S)); bytes delivered to the
consumer, concatenated, equal the plaintext; the cap records size/k/N; size <= 55 gives a LIT
cap with zero remote calls; every driver Deferred fires.
"""
import itertools

from .. import boot, common, grid, lib_imm
from allmydata import uri as tahoe_uri

LEVEL = "model_checking"
ASSUMPTIONS = [
    "file sizes are small multiples of tiny segment sizes: segment arithmetic is in units of segments/k, not bytes (sizes up to 9 segments, segment size up to 3k)",
    "servers are honest and writable; faults are the subject of C02/C03/C06",
    "schedules are bounded by the number of deviations from the canonical default order, reported in coverage",
]


def segsizes(k):
    return sorted(set([1, k, k + 1, 2 * k, 3 * k - 1]) - {0})


def eff_seg(k, seg):
    # the uploader rounds max_segment_size up to a multiple of k
    return ((seg + k - 1) // k) * k


def sizes_for(k, seg, small=False):
    """literal boundary + CHK sizes (>= 56) on and around segment multiples, incl. a power-of-two
    segment count and one above it"""
    es = eff_seg(k, seg)
    m0 = -(-56 // es)            # fewest segments of a CHK file
    p = 1
    while p < m0:
        p *= 2
    s = {0, 1, 54, 55, 56, 57}
    if small:
        s = {0, 55, 56, 57, m0 * es + 1, p * es, (p + 1) * es - 1}
    else:
        for m in (m0, m0 + 1, m0 + 2, m0 + 3):
            for dlt in (-1, 0, 1):
                s.add(m * es + dlt)
        for q in (p, p + 1, 2 * p):
            s.add(q * es)
            s.add(q * es - 1)
            s.add(q * es + 1)
    return sorted(x for x in s if x >= 0 and (x <= 57 or x >= 56))


def configs(tier):
    kmax = 4 if tier == "quick" else 7
    out = []
    kn = [(k, n) for n in range(1, kmax + 1) for k in range(1, n + 1)]
    kn += [(1, 16), (15, 16), (16, 16)] if tier != "quick" else [(1, 16), (16, 16)]
    for (k, n) in kn:
        segs = segsizes(k) if n <= kmax else [k, 2 * k]
        for seg in segs:
            Ss = sorted(set([1, n, n + 3])) if n <= kmax else [n]
            for S in Ss:
                szs = sizes_for(k, seg, small=(n > kmax or (tier == "quick" and S != n)))
                for size in szs:
                    if size > 56 and size // eff_seg(k, seg) > 150:
                        continue
                    for happy in sorted(set([1, min(n, S)])):
                        if happy != min(n, S) and size not in (56, 57):
                            continue
                        out.append({"k": k, "n": n, "happy": happy, "seg": seg, "size": size, "S": S})
    # LARGE blocks with short tails: the tail block is much smaller than the others, so anything that
    # sizes a request by the full block reaches beyond the hash trees / the end of the share file
    big = [(1, 1), (2, 3), (4, 5), (4, 4), (3, 10)] if tier == "quick" else [(1, 1), (1, 2), (2, 3), (3, 3), (4, 5), (4, 4), (3, 10), (7, 10), (16, 16)]
    for (k, n) in big:
        for seg in ((4096, 65536) if tier == "quick" else (4096, 65536, 131072)):
            for size in (seg + 1, seg + seg // 2, 2 * seg + 1 if seg < 131072 else seg + 4097):
                out.append({"k": k, "n": n, "happy": n, "seg": seg, "size": size, "S": n})
    return out


def subgrid(tier):
    """few-segment CHK files (segment size ~ half / third of the file) so that schedule trees stay small"""
    out = []
    kns = [(1, 1), (1, 2), (2, 2), (2, 3), (1, 3), (3, 3), (2, 4), (3, 4)]
    if tier == "quick":
        kns = [(1, 2), (2, 3), (3, 3), (2, 4)]
    for (k, n) in kns:
        for (size, seg) in ((56, 56), (57, 30), (61, 21)):   # 1 segment / 2 segments with short tail / 3 segments
            out.append({"k": k, "n": n, "happy": n, "seg": seg, "size": size, "S": n})
        out.append({"k": k, "n": n, "happy": 1, "seg": 30, "size": 57, "S": max(1, n - 1)})  # several shares on one server
    return out


def premature_timer(trace):
    """a timer was fired while remote calls were still pending (= some server answered late)"""
    return any(metas[pick][0] == "timer" for (n, pick, metas) in trace)


def execute(case, phase, prefix, seed):
    """one execution. returns (trace, violations, obs)"""
    data = lib_imm.payload(case["size"], seed, b"c01")
    ch = grid.Chooser(prefix)
    g = grid.Grid(case["S"], chooser=ch, client_kw=dict(k=case["k"], n=case["n"], happy=case["happy"], max_segment_size=case["seg"]))
    g.sched.batch = bool(case.get("batch"))     # turn granularity, see grid.Sched.batch
    if case.get("cpu"):
        g.sched.cpu_events()     # thread-pool work completes as a scheduled event, see grid.Sched.cpu_events
    viol = []
    obs = {}
    try:
        c = g.clients[0]
        b = lib_imm.upload(g, data, explore=(phase == "upload"))
        if not b:
            viol.append(("upload-hang", "upload Deferred never fired; log tail=%r" % (g.sched.log[-6:],)))
            return ch.trace, viol, obs
        if b[0][0] != "ok":
            name = lib_imm.failure_name(b[0][1])
            if premature_timer(ch.trace) and name == "UploadUnhappinessError":
                obs["accepted"] = "upload-unhappy-after-premature-timeout"   # a server was slower than the 15 s query timeout
            else:
                viol.append(("upload-failed:" + name, "upload failed on honest servers: %s" % b[0][1].getErrorMessage()[:300]))
            g.quiesce()
            obs["events"] = len(g.sched.log)
            return ch.trace, viol, obs
        cap = b[0][1].get_uri()
        u = tahoe_uri.from_string(cap)
        obs["cap_kind"] = type(u).__name__
        if case["size"] <= 55:
            if not isinstance(u, tahoe_uri.LiteralFileURI):
                viol.append(("small-file-not-literal", "size %d gave %s" % (case["size"], cap)))
            elif u.data != data:
                viol.append(("literal-wrong-data", "LIT cap embeds other bytes"))
            if g.sched.issued:
                viol.append(("literal-used-servers", "%d remote calls for a literal file" % g.sched.issued))
        else:
            if not isinstance(u, tahoe_uri.CHKFileURI):
                viol.append(("large-file-not-chk", "size %d gave %s" % (case["size"], cap)))
            elif (u.size, u.needed_shares, u.total_shares) != (case["size"], case["k"], case["n"]):
                viol.append(("cap-parameters", "cap says size/k/N=%r, uploaded %r" % ((u.size, u.needed_shares, u.total_shares), (case["size"], case["k"], case["n"]))))
        g.quiesce()
        node = c.create_node_from_uri(cap)
        b2, cons = lib_imm.read(g, node, explore=(phase == "download"))
        if not b2:
            viol.append(("download-hang", "read() Deferred never fired; log tail=%r" % (g.sched.log[-6:],)))
        elif b2[0][0] != "ok":
            name = lib_imm.failure_name(b2[0][1])
            if premature_timer(ch.trace) and name in ("NotEnoughSharesError", "NoSharesError"):
                obs["accepted"] = "download-failed-after-premature-timeout"
            else:
                viol.append(("download-failed:" + name, "download failed: %s" % b2[0][1].getErrorMessage()[:300]))
        else:
            got = cons.data()
            if got != data:
                viol.append(("wrong-bytes", "downloaded %d bytes != uploaded %d bytes (first difference at %d)" % (
                    len(got), len(data), next((i for i, (a, b_) in enumerate(zip(got, data)) if a != b_), min(len(got), len(data))))))
        g.quiesce()
        # reading it back need not start at byte 0: the FIRST read of a fresh node object asks for the
        # tail from the start of the last segment (the downloader has to guess the segment size then)
        if isinstance(u, tahoe_uri.CHKFileURI) and case["size"] > case["seg"] and not viol and b2 and b2[0][0] == "ok":
            import gc
            del node, cons
            gc.collect()
            node2 = c.create_node_from_uri(cap)
            segsize = -(-case["seg"] // case["k"]) * case["k"]
            off = ((case["size"] - 1) // segsize) * segsize
            b3, cons3 = lib_imm.read(g, node2, off, None)
            if not b3 or b3[0][0] != "ok":
                viol.append(("tail-read-on-fresh-node-failed", "read(offset=%d) as the first read of a fresh node: %s" % (off, "never fired" if not b3 else b3[0][1].getErrorMessage()[:200])))
            elif cons3.data() != data[off:]:
                viol.append(("tail-read-wrong-bytes", "read(offset=%d) on a fresh node returned %d bytes, expected %d" % (off, len(cons3.data()), len(data) - off)))
            g.quiesce()
        obs["events"] = len(g.sched.log)
        errs = boot.R.take_errors()
        if errs:
            viol.append(("exception-in-timer:" + type(errs[0].value).__name__, errs[0].getTraceback()[-500:]))
    finally:
        g.close()
    return ch.trace, viol, obs


def _chunk_a(chunk, seed):
    res = common.Result()
    for case in chunk:
        trace, viol, obs = execute(case, "none", [], seed)
        res.count("executions")
        res.count("transitions", obs.get("events", 0))
        res.distinct.add((case["k"], case["n"], case["seg"], case["size"], case["S"], case["happy"]))
        for sig, msg in viol:
            res.violation(sig, {"case": case, "phase": "none", "prefix": []}, msg + " case=%r" % (case,))
        if case["size"] in (57,) and case["k"] == 2 and case["n"] == 3:
            res.sample({"config": case, "events": obs.get("events")})
    return res


def _chunk_b(chunk, seed, d_bound):
    res = common.Result()
    for (case, phase) in chunk:
        first = {}

        def ex(prefix):
            trace, viol, obs = execute(case, phase, prefix, seed)
            return trace, (viol, obs)

        def on_exec(prefix, trace, info):
            viol, obs = info
            res.count("executions")
            res.count("transitions", obs.get("events", 0))
            res.count("choice_points", len(trace))
            if obs.get("accepted"):
                res.count("accepted:" + obs["accepted"])
            for sig, msg in viol:
                res.violation(sig, {"case": case, "phase": phase, "prefix": prefix}, msg + " case=%r phase=%s schedule=%r" % (case, phase, prefix))
            if any(prefix) and "p" not in first:
                first["p"] = list(prefix)
                # determinism gate: same schedule twice -> same observation
                t2, v2, o2 = execute(case, phase, prefix, seed)
                if [(n, p) for (n, p, m) in t2] != [(n, p) for (n, p, m) in trace] or o2.get("events") != obs.get("events"):
                    raise grid.HarnessError("nondeterministic replay for %r %r" % (case, prefix))
                res.sample({"config": case, "phase": phase, "schedule(choice list)": prefix, "choice_points": len(trace)})
        n, capped = grid.explore_subtree(ex, [], d_bound, 0, on_exec)
        res.count("schedule_trees")
        res.distinct.add((repr(sorted(case.items())), phase))
        if capped:
            res.count("capped")
    return res


def replay(case):
    trace, viol, obs = execute(case["case"], case["phase"], case["prefix"], boot.SEED)
    return viol


def run(tier, seed):
    A = configs(tier)
    res = common.pmap(_chunk_a, A, (seed,), chunks=min(len(A), 256))
    nA = res.counts.get("executions", 0)
    d_bound = 2 if tier == "quick" else 3
    B = [(c, ph) for c in subgrid(tier) for ph in ("upload", "download")]
    rb = common.pmap(_chunk_b, B, (seed, d_bound), chunks=len(B))
    # several answers per reactor turn (grid.Sched.batch): every third configuration at the default
    # schedule, the sub-grid with one deviation less
    res.merge(common.pmap(_chunk_a, [dict(c, batch=True) for c in A[::3]], (seed,), chunks=min(len(A), 256)))
    nA = res.counts.get("executions", 0)
    rb.merge(common.pmap(_chunk_b, [(dict(c, batch=True), ph) for (c, ph) in B], (seed, d_bound - 1), chunks=len(B)))
    # thread-pool work (encode / decode) completes as a scheduled event that answers can overtake
    rb.merge(common.pmap(_chunk_b, [(dict(c, cpu=True), ph) for (c, ph) in B], (seed, d_bound - 1), chunks=len(B)))
    res.merge(rb)
    cov = {
        "states": res.counts.get("executions", 0),
        "transitions": res.counts.get("transitions", 0),
        "traces_validated_against_impl": res.counts.get("executions", 0),
        "configurations_at_default_schedule": nA,
        "schedule_trees": rb.counts.get("schedule_trees", 0),
        "executions_in_schedule_trees": rb.counts.get("executions", 0),
        "deviation_bound_completed": d_bound,
        "distinct_configurations": len(res.distinct),
        "capped_trees": rb.counts.get("capped", 0),
        "rule": "A: every configuration of configs(tier) under the default schedule; B: for each sub-grid configuration and each phase (upload / download) every schedule with <= %d deviations; both again with several answers delivered per reactor turn (every third configuration; one deviation less), and the sub-grid with thread-pool completions as scheduled events (one deviation less); states = complete executions (each is a run of the real code), transitions = remote-call deliveries performed" % d_bound,
    }
    return res, cov


MANIFEST = {
    "engine": "G",
    "technique": "stateless model checking of the real uploader/downloader over a virtual grid: exhaustive configuration grid at the default schedule plus all delivery orders within a deviation bound",
    "text": "Every configuration of a boundary-focused grid (k<=N<=4 plus 16-share corners in quick; <=7 in thorough; segment sizes around k; sizes around literal threshold and segment multiples; 1, N and N+3 servers) is uploaded and downloaded on real storage servers; for a sub-grid all schedules of the upload and of the download within the deviation bound are executed. Coverage is exact for those bounds. After the whole-file read, a fresh node object's FIRST read asks for the tail from the start of the last segment.",
    "note": "All nondeterminism (reactor, eventual queue, time, urandom) is owned by vt.boot; each execution is an implementation run. Large files and real network back-pressure are outside the bound.",
}
