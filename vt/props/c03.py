"""C03  Immutable availability with k good shares  (Engine G, stateless model checking).

2-of-3 file (61 bytes, 3 segments) and a 3-of-4 file (k shares can be forced to come from ONE server).  Space:
 (a) default schedule: EVERY partition of the 3 shares over servers (5 placements, several shares
     per server included, plus placements with a second copy of a share) x EVERY assignment of a
     damage kind in {intact, missing, corrupt block, corrupt share-hash} to each copy x EVERY
     assignment of a server kind in {ok, errors on every read, disconnects at first read} to each
     server (an extra empty server is always present);
 (a') 2-of-2 with 3000-byte shares (a Share then has SEVERAL reads outstanding at once): one share number stored
     twice, one of its two holders fails every read - every schedule with <= 2 (thorough 3) deviations;
 (a'') 13 servers (the share finder keeps at most 10 queries outstanding): the only k shares on every pair of
     servers, all others empty - default schedule (thorough d <= 1);
 (b) for representative cases: every schedule with <= d deviations (reordered deliveries, the
     share finder's OVERDUE timers fired early) and <= f injected faults (error before a call /
     connection loss, at any remote call).
Oracle: G = share numbers with an intact copy on an ok server that suffered no injected fault.
|G| >= k  =>  the read succeeds with exactly the plaintext.  If fewer than k share numbers have
any copy at all on a non-failing server, the read fails with NotEnoughSharesError/NoSharesError.
Otherwise either outcome; delivered bytes are always a correct prefix; the read always terminates.
"""
import itertools

from .. import boot, common, grid, lib_imm

LEVEL = "model_checking"
ASSUMPTIONS = [
    "2-of-3, 61-byte file, <= 4 servers; a copy with a corrupt field counts as possibly usable (the downloader may legitimately use its pieces that validate) but never as good",
    "calls on one connection are FIFO (foolscap)",
]
BASE = dict(k=2, n=3, seg=21, size=61)
PLACEMENTS = [
    {"0": [0], "1": [1], "2": [2]},
    {"0": [0], "1": [0], "2": [1]},
    {"0": [0], "1": [1], "2": [0]},
    {"0": [1], "1": [0], "2": [0]},
    {"0": [0], "1": [0], "2": [0]},
    {"0": [0, 1], "1": [1], "2": [2]},      # share 0 on two servers
    {"0": [0, 1], "1": [0, 1], "2": [2]},
]
DMG = [None, "missing", "corrupt-block0", "corrupt-sharehash"]
SK = ["ok", "errors-on-read", "disconnects-on-first-read"]


def all_cases(tier):
    out = []
    for pl in PLACEMENTS:
        copies = [(sv, int(sh)) for sh, svs in pl.items() for sv in svs]
        servers = sorted(set(sv for sv, sh in copies))
        dmg_choices = DMG if tier != "quick" else (DMG[:3] if len(copies) <= 3 else DMG[:2])
        sk_choices = SK
        for dmg in itertools.product(dmg_choices, repeat=len(copies)):
            for sk in itertools.product(SK, repeat=len(servers)):
                d = {"%d:%d" % c: k for c, k in zip(copies, dmg) if k}
                s = {str(sv): k for sv, k in zip(servers, sk) if k != "ok"}
                out.append(dict(BASE, S=max(servers) + 2, placement=pl, damage=d, server_kind=s, groups=[[[0, None]]]))
    return out


BASE3 = dict(k=3, n=4, seg=21, size=61)
PLACEMENTS3 = [
    {"0": [0], "1": [0], "2": [0], "3": [0]},           # everything on one server (k shares must come from it)
    {"0": [0], "1": [0], "2": [0], "3": [1]},
    {"0": [0], "1": [0], "2": [1], "3": [1]},
    {"0": [0], "1": [1], "2": [2], "3": [3]},
    {"0": [0, 1], "1": [0, 1], "2": [0], "3": [1]},
]


def k3_cases(tier):
    out = []
    for pl in PLACEMENTS3:
        copies = [(sv, int(sh)) for sh, svs in pl.items() for sv in svs]
        servers = sorted(set(sv for sv, sh in copies))
        for dmg in itertools.product([None, "missing"] if tier == "quick" else [None, "missing", "corrupt-block0"], repeat=len(copies)):
            for sk in itertools.product(["ok", "errors-on-read"], repeat=len(servers)):
                if sum(1 for x in dmg if x) > 2 or sum(1 for x in sk if x != "ok") > 1:
                    continue
                d = {"%d:%d" % c: k for c, k in zip(copies, dmg) if k}
                s = {str(sv): k for sv, k in zip(servers, sk) if k != "ok"}
                out.append(dict(BASE3, S=max(servers) + 2, placement=pl, damage=d, server_kind=s, groups=[[[0, None]]]))
                # no spare empty server: the finder runs out of servers at a different moment
                out.append(dict(BASE3, S=max(servers) + 1, placement=pl, damage=d, server_kind=s, groups=[[[0, None]]]))
    return out


def rep_cases():
    out = []
    for pl in PLACEMENTS[:3] + PLACEMENTS[5:6]:
        for d, s in [({}, {}), ({"0:0": "missing"}, {}), ({"0:0": "corrupt-block0"}, {}), ({}, {"0": "errors-on-read"}),
                     ({}, {"0": "disconnects-on-first-read"}), ({"0:0": "corrupt-sharehash"}, {"1": "errors-on-read"})]:
            d = {c: k for c, k in d.items() if int(c.split(":")[1]) in [int(x) for x in pl] and int(c.split(":")[0]) in pl[c.split(":")[1]]}
            out.append(dict(BASE, S=4, placement=pl, damage=d, server_kind=s, groups=[[[0, None]]]))
    return out


def later_failure_cases():
    """a first read on the node, then some servers start failing every call, then a second read on the SAME
    node: shares the finder learned of after the first read's last segment must still be known.  Every share is
    stored twice (2-of-3 on 6 servers); every subset of servers that leaves >= k distinct shares reachable fails."""
    out = []
    pl = {"0": [0, 3], "1": [1, 4], "2": [2, 5]}
    S = 6
    for r in range(1, S):
        for dead in itertools.combinations(range(S), r):
            alive_shares = set(int(sh) for sh, svs in pl.items() if any(sv not in dead for sv in svs))
            if len(alive_shares) < BASE["k"]:
                continue
            for first in ([[0, 5]], [[0, None]]):
                out.append(dict(BASE, S=S, placement=pl, damage={}, server_kind={}, groups=[first, [[0, None]]],
                                fail_after_group={str(sv): 0 for sv in dead}))
    return out


def dup_cases():
    """shares big enough (3000-byte single segment) that a Share has SEVERAL reads outstanding at once; exactly k
    distinct share numbers, one of them stored twice, and one holder of the duplicated number fails every read
    (its failures arrive one by one, the replacement copy is started in between)"""
    out = []
    for pl in ({"0": [0, 1], "1": [2]}, {"0": [0], "1": [1, 2]}, {"0": [0, 2], "1": [1]}):
        for sh, svs in pl.items():
            if len(svs) == 2:
                for bad in svs:
                    out.append(dict(k=2, n=2, seg=3000, size=3000, S=3, placement=pl, damage={}, server_kind={str(bad): "errors-on-read"}, groups=[[[0, None]]]))
    return out


def many_server_cases():
    """13 servers (more than the share finder's window of 10 outstanding queries): exactly k shares exist, on
    EVERY pair of servers - so also on the ones asked last, after the window has been full -, the others are empty"""
    out = []
    S = 13
    for i in range(S):
        for j in range(i + 1, S):
            out.append(dict(BASE, S=S, placement={"0": [i], "1": [j]}, damage={}, server_kind={}, groups=[[[0, None]]]))
    return out


def replay(case):
    trace, viol, obs = lib_imm.run_reads(case["case"], case["prefix"], boot.SEED)
    return viol


def run(tier, seed):
    cases = all_cases(tier) + k3_cases(tier)
    res = common.pmap(lib_imm.explore_chunk, cases, (seed, 0, 0, None, "C03"))
    lf = later_failure_cases()
    res.merge(common.pmap(lib_imm.explore_chunk, lf, (seed, 0, 0, None, "C03")))
    res.merge(common.pmap(lib_imm.explore_chunk, [dict(c, batch=True) for c in lf[::2]], (seed, 0, 0, None, "C03")))
    n0 = res.counts.get("executions", 0)
    ms = many_server_cases()
    res.merge(common.pmap(lib_imm.explore_chunk, ms, (seed, 0 if tier == "quick" else 1, 0, 20000, "C03")))
    dc = dup_cases()
    res.merge(common.pmap(lib_imm.explore_chunk, dc, (seed, 2 if tier == "quick" else 3, 0, 20000, "C03"), chunks=len(dc)))
    reps = rep_cases()
    faults = ["error", "disconnect"]
    plan = [(reps, 1, 0), (reps[::2], 0, 1)] if tier == "quick" else [(reps, 2, 0), (reps, 1, 1), (reps[::2], 0, 2)]
    bt = lambda cs: [dict(c, batch=True) for c in cs]     # several answers per reactor turn (grid.Sched.batch)
    plan += [(bt(reps), 0, 0), (bt(reps[::2]), 1, 0), (bt(reps[1::2]), 0, 1)] if tier == "quick" else [(bt(all_cases(tier)[::2]), 0, 0), (bt(reps), 1, 1)]
    desc = []
    for sel, d, f in plan:
        sel = [dict(c, fault_kinds=faults if f else []) for c in sel]
        res.merge(common.pmap(lib_imm.explore_chunk, sel, (seed, d, f, 8000, "C03"), chunks=len(sel)))
        desc.append("%d cases at d<=%d,f<=%d%s" % (len(sel), d, f, " (several answers per reactor turn)" if sel and sel[0].get("batch") else ""))
    cov = lib_imm.coverage_from(res, "all %d placement x damage x server-kind cases (incl. read / servers start failing / read again on the same node, every server subset that leaves k shares) at the default schedule; then %s (d = deviations incl. early OVERDUE timers, f = injected faults %r)" % (n0, "; ".join(desc), faults),
                                {"deviation_bound_completed": max(p[1] for p in plan), "fault_bound_completed": max(p[2] for p in plan)})
    return res, cov


MANIFEST = {
    "engine": "G",
    "technique": "stateless model checking of the real downloader: exhaustive placement x damage x failing-server grid at the default schedule, plus all delivery orders / early timers / injected faults within bounds on representative cases",
    "text": "Every combination of share placement (incl. several shares per server and duplicate copies), per-copy damage and per-server failure mode for a 2-of-3 file is read through the real ImmutableFileNode; the oracle derives from ground truth whether k good shares were reachable. Representative cases are re-run under every schedule and fault placement within the bounds. Also: 3000-byte shares (several reads outstanding per share) with a duplicated share number whose one holder fails every read, and 13 servers (more than the share finder's window of 10 queries) with the only k shares on every pair of servers.",
    "note": "Copies with a corrupt field are 'possibly usable', never 'good' (see ASSUMPTIONS). Bounds (d, f) in evidence.",
}
