"""C08  Happiness value equals a maximum server/share matching  (Engine E, exhaustive).

Space: EVERY relation between 4 servers and 4 shares (65 536), presented to the real
allmydata.util.happinessutil.servers_of_happiness as {shnum: set(server)}
  * under several insertion orders of the share keys (quick: 4, thorough: all 24),
  * with server ids of three types (int, str, 20-byte bytes),
  * with and without explicit empty-set rows for shares that nobody holds;
thorough adds every 5x4 and 4x5 relation (2 x 1 048 576) in canonical order.
Oracle: maximum bipartite matching computed by an independent augmenting-path search,
itself cross-checked against brute-force enumeration of injective maps for every 4x4
relation; and equality of the value across all presentations of the same relation.
"""
import itertools

from allmydata.util.happinessutil import servers_of_happiness
from .. import common

LEVEL = "exploration"
ASSUMPTIONS = [
    "small scope: relations over at most 5x4 / 4x5 (server, share) pairs; the algorithm has no size-dependent branch",
    "set iteration order of str/bytes ids is fixed by PYTHONHASHSEED (pinned); exhaustiveness over all relations covers every relative order by symmetry",
]

NAMES = {
    "int": [1, 2, 3, 4, 5],
    "str": ["a", "b", "c", "d", "e"],
    "bytes": [bytes([i]) * 20 for i in (7, 3, 9, 1, 5)],
}


def ref_matching(rows):
    """rows: list (per share) of iterables of server indexes. Kuhn's augmenting paths."""
    match = {}  # server -> share

    def try_share(sh, seen):
        for sv in rows[sh]:
            if sv in seen:
                continue
            seen.add(sv)
            if sv not in match or try_share(match[sv], seen):
                match[sv] = sh
                return True
        return False
    n = 0
    for sh in range(len(rows)):
        if try_share(sh, set()):
            n += 1
    return n


def brute_matching(rows):
    best = 0
    nsh = len(rows)
    opts = [list(r) + [None] for r in rows]
    for pick in itertools.product(*opts):
        used = [p for p in pick if p is not None]
        if len(used) == len(set(used)):
            best = max(best, len(used))
    return best


def rows_of(bits, nsh, nsv):
    return [[sv for sv in range(nsv) if (bits >> (sh * nsv + sv)) & 1] for sh in range(nsh)]


def evaluate(rows, order, kind, with_empty):
    names = NAMES[kind]
    m = {}
    for sh in order:
        if rows[sh] or with_empty:
            m[sh] = set(names[sv] for sv in rows[sh])
    return servers_of_happiness(m)


def check_case(case):
    """case = {bits, nsh, nsv, orders: [[..]], kinds, brute}"""
    rows = rows_of(case["bits"], case["nsh"], case["nsv"])
    want = ref_matching(rows)
    out = []
    if case.get("brute"):
        b = brute_matching(rows)
        if b != want:
            raise RuntimeError("reference matchers disagree on %r: %d vs %d" % (rows, want, b))
    n = 0
    for kind in case["kinds"]:
        for order in case["orders"]:
            for with_empty in (False, True):
                n += 1
                try:
                    got = evaluate(rows, order, kind, with_empty)
                except Exception as e:  # noqa
                    out.append(("exception", "servers_of_happiness raised %r on rows=%r order=%r kind=%s" % (e, rows, order, kind)))
                    return out, n
                if got != want:
                    out.append(("wrong-value", "servers_of_happiness=%r, maximum matching=%r; rows(share->servers)=%r order=%r ids=%s empty_rows=%s"
                                % (got, want, rows, order, kind, with_empty)))
                    return out, n
    return out, n


def _chunk(chunk, nsh, nsv, orders, kinds, brute):
    res = common.Result()
    for bits in chunk:
        case = {"bits": bits, "nsh": nsh, "nsv": nsv, "orders": orders, "kinds": kinds, "brute": brute}
        bad, n = check_case(case)
        res.count("evaluations", n)
        res.count("relations")
        rows = rows_of(bits, nsh, nsv)
        if sum(1 for r in rows if r) >= 2 and any(len(r) >= 2 for r in rows):
            res.count("nontrivial")
        for sig, msg in bad:
            res.violation(sig, case, msg)
        if bits in (0x9c63 % (1 << (nsh * nsv)), 0x1248 % (1 << (nsh * nsv))):
            res.sample({"rows_share_to_servers": rows, "happiness": ref_matching(rows)})
    return res


def replay(case):
    return check_case(case)[0]


def run(tier, seed):
    perms4 = [list(p) for p in itertools.permutations(range(4))]
    orders = perms4 if tier == "thorough" else [perms4[0], perms4[-1], perms4[9], perms4[14]]
    kinds = ["int", "str", "bytes"]
    res = common.pmap(_chunk, range(1 << 16), (4, 4, orders, kinds, True))
    spaces = ["all 65536 relations on 4 shares x 4 servers, %d key orders x 3 id types x {with,without} empty rows" % len(orders)]
    if tier == "thorough":
        o5 = [list(range(5)), list(range(4, -1, -1))]
        o4 = [list(range(4)), list(range(3, -1, -1))]
        res.merge(common.pmap(_chunk, range(1 << 20), (5, 4, o5, ["int", "bytes"], False)))
        res.merge(common.pmap(_chunk, range(1 << 20), (4, 5, o4, ["int", "bytes"], False)))
        spaces.append("all 2^20 relations on 5 shares x 4 servers and on 4 shares x 5 servers, 2 key orders x 2 id types")
    cov = {
        "evaluations": res.counts.get("evaluations", 0),
        "distinct_nontrivial": res.counts.get("nontrivial", 0),
        "rule": "every relation share->set(server) in the stated universes (" + "; ".join(spaces) + "); non-trivial = at least two non-empty rows and one share held by >= 2 servers",
        "exhaustive": True,
        "relations": res.counts.get("relations", 0),
    }
    return res, cov

MANIFEST = {
    "engine": "E",
    "technique": "exhaustive small-scope enumeration of every server/share relation (model checking of a stateless component against a reference matching)",
    "text": "Every relation between <=4 servers and <=4 shares (65 536; thorough adds all 5x4 and 4x5) is fed to the real servers_of_happiness under several key orders and id types and compared with an independent maximum-matching computation; complete for that universe, silent outside it.",
    "note": "Trusted: the reference matcher (cross-checked by brute force on all 4x4 relations). Assumes the algorithm has no size-dependent branch beyond 5x4.",
}
