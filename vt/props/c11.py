"""C11  Mutable version ordering and rollback resistance  (Engine G, model checking).

A 2-of-4 file (SDMF and MDMF) on S = 4..6 real storage servers is published h times by one writer
on an honest grid; the share files after every publish are captured.  Then EVERY assignment
    server -> { still holds v_j (j = 1..h),  unavailable (every call fails),
                replays v_j (j < h): holds v_h on disk but answers every read with its v_j share }
is materialised (servers that never held a share: empty / unavailable); additionally, on S = 9..12
servers, EVERY placement of the 4 shares on 4 of the S positions of the permuted server list x
every version (or: server unavailable) per share ("spread"; the other servers are empty); and
  R) a fresh client (S = 4, 7, 8: it guesses k = 3 and queries 6 servers at once) or a long-lived
     client that read the file before (S = 5, 6: it knows k = 2 and queries 4 servers first) reads
     (download_best_version) under every schedule with <= d deviations;
  P) a fresh client holding the write-cap overwrites the file under every schedule with <= d
     deviations, and afterwards another fresh client reads (default schedule).
Oracle, from the answers the client really received (parsed independently) and the call log:
 (i)   a publish that reports success wrote ONE version on all acknowledged shares and its seqnum
       is greater than every seqnum contained in the answers to its survey; the history's own
       seqnums are 1..h;
 (ii)  a read returns the contents of the highest-seqnum version for which the answered servers
       supplied >= k distinct shares, and fails only if there is none;
 (iii) if, when the read finished, the answers showed a version newer than the best recoverable
       one, then no live server is left unqueried.
"""
import gc
import itertools

from .. import boot, common, grid, lib_imm, lib_mut
from .. import lib_mshare as ms
from ..lib_mut import pattern
from allmydata.mutable.publish import MutableData

LEVEL = "model_checking"
ASSUMPTIONS = [
    "2-of-4 encoding, one share per server, S in 4..6 servers; histories are linear (one writer, honest grid) and staleness is produced by restoring captured share files, which is what a server that missed later writes holds",
    "a replaying server answers slot_readv from an old share file and applies test-and-set writes to what it really holds",
    "history length bounded by h (tier dependent, <= 6); schedules bounded by d deviations from the canonical delivery order; no corruption (C10) and no concurrent writer (C12)",
]
K, N = 2, 4
_PREP = {}


def prepare(fmt, S, h, seed):
    key = (fmt, S, h, seed)
    if key in _PREP:
        return _PREP[key]
    boot.urandom.reset(seed, b"c11-prep")
    ms.reset_clock()
    contents = [pattern(10 * seed + j, 20 + j) for j in range(1, h + 1)]
    g = grid.Grid(S, client_kw=dict(k=K, n=N, happy=1))
    try:
        b = lib_mut.create(g, fmt, contents[0])
        assert b and b[0][0] == "ok", b
        node = b[0][1]
        g.quiesce()
        si = node.get_storage_index()
        snaps = [ms.slots_of(g.save_disk(), si)]
        for c in contents[1:]:
            b = g.wait(node.overwrite(MutableData(c)))
            assert b and b[0][0] == "ok", b
            g.quiesce()
            snaps.append(ms.slots_of(g.save_disk(), si))
        cap_w, cap_r = node.get_uri(), node.get_readonly_uri()
    finally:
        g.close()
    boot.take_logged()
    boot.R.take_errors()
    vids, viol = [], []
    for j, snap in enumerate(snaps):
        ids = set(ms.version_id(ms.share_data(b)) for b in snap.values())
        if len(ids) != 1 or sorted(sh for (sv, sh) in snap) != list(range(N)):
            viol.append(("history-publish-left-mixed-versions", "after publish %d on an honest grid the shares are %r" % (j + 1, sorted((k, ms.version_id(ms.share_data(b))[0]) for k, b in snap.items()))))
        vids.append(sorted(ids)[-1])
    seqs = [v[0] for v in vids]
    if any(b <= a for a, b in zip(seqs, seqs[1:])):
        viol.append(("writer-seqnums-not-increasing", "one writer's successive publishes carry seqnums %r" % (seqs,)))
    holders = sorted(set(sv for (sv, sh) in snaps[-1]))
    out = {"contents": contents, "snaps": snaps, "si": si, "cap_w": cap_w, "cap_r": cap_r, "vids": vids, "holders": holders, "viol": viol}
    _PREP[key] = out
    return out


def analyse(answers, contents_by_vid):
    """answers: {server: {shnum: first bytes of the share as served}} -> (best_vids, newer_unrecoverable)"""
    by_vid = {}
    for sv, shares in answers.items():
        for sh, data in shares.items():
            vid = ms.version_id(data)
            if vid is not None:
                by_vid.setdefault(vid, set()).add(sh)
    rec = [v for v, shs in by_vid.items() if len(shs) >= K]
    best_seq = max([v[0] for v in rec], default=-1)
    best = [v for v in rec if v[0] == best_seq]
    newer = [v for v, shs in by_vid.items() if len(shs) < K and v[0] > best_seq]
    return best, newer, by_vid


def _by_shnum(prep, j):
    return {sh: blob for (sv, sh), blob in prep["snaps"][j - 1].items()}


def layout(case, prep, g):
    """-> ({(server, shnum): container blob on disk}, dead servers, {server: {shnum: blob served to reads}})"""
    files, dead, replay = {}, set(), {}
    last = len(prep["snaps"])
    if "assign" in case:
        for sv, a in enumerate(case["assign"]):
            kind = a[0]
            if kind == "dead":
                dead.add(sv)
                src = prep["snaps"][-1]
            elif kind == "replay":
                src = prep["snaps"][-1]
                replay[sv] = {sh: b for (s2, sh), b in prep["snaps"][a[1] - 1].items() if s2 == sv}
            elif kind == "hold":
                src = prep["snaps"][a[1] - 1]
            else:
                src = {}
            for (s2, sh), blob in src.items():
                if s2 == sv:
                    files[(sv, sh)] = blob
        if case.get("extra"):
            # a SECOND copy of one share number, in a version of its own, on the first server that never held
            # a share (a share re-homed while its server was away, which then came back)
            sh, j = case["extra"]
            spare = [sv for sv in range(case["S"]) if sv not in prep["holders"]]
            if spare and spare[0] not in dead:
                files[(spare[0], sh)] = ms.rehome(_by_shnum(prep, j)[sh], spare[0], prep["cap_w"])
    else:
        # "spread": share number i sits on the server at position place[i] of the permuted server
        # list of this storage index and carries version vers[i] (0 = that server is unavailable)
        perm = [g.ids.index(s.get_serverid()) for s in g.clients[0].storage_broker.get_servers_for_psi(prep["si"])]
        for sh, (pos, j) in enumerate(zip(case["place"], case["vers"])):
            sv = perm[pos]
            if j == 0:
                dead.add(sv)
                j = last
            files[(sv, sh)] = _by_shnum(prep, j)[sh]
    return files, dead, replay


def execute(case, prefix, seed):
    fmt, S, h, phase = case["fmt"], case["S"], case["h"], case["phase"]
    prep = prepare(fmt, S, h, seed)
    si = prep["si"]
    ch = grid.Chooser(prefix)
    boot.urandom.reset(seed, b"c11-exec")
    ms.reset_clock()
    g = grid.Grid(S, nclients=1 if phase == "read" else 2, chooser=ch, client_kw=dict(k=K, n=N, happy=1))
    viol, obs = [], {}
    restore = []
    ms.bound_pending(g)
    try:
        files, dead, replay = layout(case, prep, g)
        warm_node = None
        if case.get("warm"):
            # a long-lived reader: it has read the file once while the shares (same placement) were
            # all up to date, so it knows k and N (a fresh node guesses k=3 and queries 6 servers at once)
            for (s2, sh) in files:
                ms.write_share(g, si, s2, sh, _by_shnum(prep, len(prep["snaps"]))[sh])
            warm_node = g.clients[0].create_node_from_uri(prep["cap_r"])
            b0 = lib_mut.download(g, warm_node, explore=False)
            if not b0 or b0[0][0] != "ok" or b0[0][1] != prep["contents"][-1]:
                viol.append(("honest-grid-read-failed", "reading the up-to-date file gave %r" % (b0,)))
                return ch.trace, viol, obs
            g.quiesce()
        for (s2, sh), blob in files.items():
            ms.write_share(g, si, s2, sh, blob)
        ms.install_server_behaviour(g, dead=dead, replay=replay)
        # "batch": every answer that has arrived when a reactor turn starts is delivered before the
        # client's eventual-send queue (where the per-share validation continues) runs
        g.sched.batch = bool(case.get("batch"))
        contents_by_vid = {vid: c for vid, c in zip(prep["vids"], prep["contents"])}
        state = {"answers": {}, "failed": set(), "acked": set(), "refused": set()}

        def observer(kind, ev, outcome):
            if kind != "deliver" or ev.direction != "c2s":
                return
            sv = ev.conn.si
            if ev.meth == "slot_readv":
                if outcome[0] == "ok":
                    got = state["answers"].setdefault(sv, {})
                    for sh, vecs in outcome[1].items():
                        # a survey reads from offset 0: the version header leads the answer
                        if ev.args[2] and ev.args[2][0][0] == 0 and vecs:
                            got[sh] = bytes(vecs[0][:123])
                else:
                    state["failed"].add(sv)
            elif ev.meth == "slot_testv_and_readv_and_writev":
                if outcome[0] == "ok":
                    for sh in ev.args[2]:
                        (state["acked"] if outcome[1][0] else state["refused"]).add((sv, sh))
                else:
                    state["failed"].add(sv)
        g.sched.observers.append(observer)

        # what the reader had been told WHEN IT DECIDED: answers that arrive after the servermap update
        # concluded (while the retrieve is running) cannot have influenced the choice of version.
        # ServermapUpdater._done is wrapped from the harness; the last decision before the result counts.
        import allmydata.mutable.servermap as _sm
        _orig_done = _sm.ServermapUpdater._done

        def _done_snapshot(self):
            state["decided"] = ({sv: dict(shs) for sv, shs in state["answers"].items()}, set(state["failed"]),
                                set(e.conn.si for e in g.sched.pending if e.direction == "c2s" and e.meth == "slot_readv"))
            return _orig_done(self)
        _sm.ServermapUpdater._done = _done_snapshot
        restore.append(lambda: setattr(_sm.ServermapUpdater, "_done", _orig_done))

        def judge_read(tag, b, client):
            answers, failed, pend = state.pop("decided", None) or (state["answers"], state["failed"], set(e.conn.si for e in g.sched.pending if e.conn.ci == client and e.meth == "slot_readv"))
            best, newer, by_vid = analyse(answers, contents_by_vid)
            queried = set(answers) | failed | pend
            summary = "answers when the servermap update concluded=%r" % (sorted((sv, sorted((sh, ms.version_id(d)[0]) for sh, d in shs.items())) for sv, shs in answers.items()),)
            if not b:
                obs[tag] = "hang"
                viol.append(("read-never-completes", "%s: no result; %s" % (tag, summary)))
                return
            if b[0][0] == "ok":
                got = b[0][1]
                which = [vid for vid, c in contents_by_vid.items() if c == got]
                obs[tag] = "ok:seq%s" % (which[0][0] if which else "?")
                if not which:
                    viol.append(("read-returned-unpublished-bytes", "%s returned %d bytes that no version carries; %s" % (tag, len(got), summary)))
                elif not best:
                    viol.append(("read-succeeded-without-k-located-shares", "%s returned seq %d but the answered servers supplied no version with %d distinct shares; %s" % (tag, which[0][0], K, summary)))
                elif not any(w in best for w in which):
                    sig = "read-returned-stale-version" if which[0][0] < best[0][0] else "read-returned-other-version"
                    viol.append((sig, "%s returned the contents of seq %d although the answered servers supplied %d distinct shares of seq %d; %s" % (tag, which[0][0], len(by_vid[best[0]]), best[0][0], summary)))
            else:
                name = lib_imm.failure_name(b[0][1])
                obs[tag] = "err:" + name
                if best:
                    viol.append(("read-failed-with-recoverable-version-located:" + name, "%s failed (%s) although the answered servers supplied %d distinct shares of seq %d; %s" % (tag, b[0][1].getErrorMessage()[:200], len(by_vid[best[0]]), best[0][0], summary)))
            if newer:
                unq = [sv for sv in range(S) if sv not in queried and sv not in dead]
                obs[tag + "-newer-evidence"] = True
                if unq:
                    viol.append(("read-stopped-with-newer-unrecoverable-version-and-unqueried-servers", "%s finished while the answers show seq %d on fewer than %d shares (best recoverable: %s) and live servers %r were never queried; %s" % (tag, max(v[0] for v in newer), K, best[0][0] if best else None, unq, summary)))
                if pend:
                    obs[tag + "-unanswered-at-stop"] = len(pend)
            obs[tag + "-queried"] = len(queried)

        if phase == "read":
            node = warm_node or g.clients[0].create_node_from_uri(prep["cap_r"])
            try:
                b = lib_mut.download(g, node, explore=True)
            except grid.HarnessError as e:
                viol.append(("read-livelock", str(e)[:200]))
                b = None
            if b is not None:
                judge_read("read", b, 0)
        else:
            new = pattern(10 * seed + 9, 33)
            node = g.clients[0].create_node_from_uri(prep["cap_w"])
            try:
                if case.get("pubop") == "update":
                    # an in-place edit of the best version (MDMF: Publish.update, SDMF: download + re-publish)
                    bv = g.wait(node.get_best_mutable_version(), explore=True)
                    if not bv or bv[0][0] != "ok":
                        b = bv
                    else:
                        mv = bv[0][1]
                        base = [c for vid, c in contents_by_vid.items() if vid[0] == mv.get_sequence_number()]
                        edit = b"EDIT!"
                        new = (base[0][:7] + edit + base[0][7 + len(edit):]) if base else new
                        b = g.wait(mv.update(MutableData(edit), 7), explore=True)
                else:
                    b = g.wait(node.overwrite(MutableData(new)), explore=True)
            except grid.HarnessError as e:
                viol.append(("publish-livelock", str(e)[:200]))
                b = None
            if b is not None:
                g.quiesce()
                survey = state["answers"]
                seen = [ms.version_id(d)[0] for shs in survey.values() for d in shs.values() if ms.version_id(d)]
                if not b:
                    obs["publish"] = "hang"
                    viol.append(("publish-never-completes", "overwrite never fired; log tail %r" % (g.sched.log[-4:],)))
                elif b[0][0] == "ok":
                    disk = ms.slots_of(g.save_disk(), si)
                    written = set(ms.version_id(ms.share_data(disk[key])) for key in state["acked"] if key in disk)
                    obs["publish"] = "ok"
                    if len(written) != 1:
                        viol.append(("publish-success-without-one-new-version", "overwrite reported success; acknowledged shares carry %r" % (sorted(v[0] for v in written),)))
                    else:
                        vid = list(written)[0]
                        contents_by_vid[vid] = new
                        obs["new_seq_minus_max_seen"] = vid[0] - max(seen, default=0)
                        if seen and vid[0] <= max(seen):
                            viol.append(("publish-seqnum-not-above-observed", "overwrite reported success with seqnum %d although its survey was answered with shares of seqnums %r" % (vid[0], sorted(set(seen)))))
                        if len(set(sh for (sv, sh) in state["acked"])) < K:
                            viol.append(("publish-success-with-fewer-than-k-shares", "acked=%r" % (sorted(state["acked"]),)))
                else:
                    obs["publish"] = "err:" + lib_imm.failure_name(b[0][1])
                    disk = ms.slots_of(g.save_disk(), si)
                    for key in state["acked"]:
                        if key in disk:
                            vid = ms.version_id(ms.share_data(disk[key]))
                            if vid not in contents_by_vid:
                                contents_by_vid[vid] = new
                # a later reader
                state["answers"], state["failed"] = {}, set()
                state.pop("decided", None)
                node2 = g.clients[1].create_node_from_uri(prep["cap_r"])
                b2 = lib_mut.download(g, node2, explore=False)
                judge_read("read-after-publish", b2, 1)
        obs["events"] = len(g.sched.log)
        for e in boot.R.take_errors():
            viol.append(("exception-in-timer:" + type(e.value).__name__, e.getTraceback()[-400:]))
        boot.take_logged()
    finally:
        for fn in restore:
            fn()
        g.close()
    return ch.trace, viol, obs


def chunk(tasks, seed, d_bound, max_exec):
    res = common.Result()
    gc.freeze()      # forked worker: keep the collector off the pages inherited from the parent
    for case in tasks:
        gate = {}

        def ex(prefix):
            trace, viol, obs = execute(case, prefix, seed)
            return trace, (viol, obs)

        def on_exec(prefix, trace, info):
            viol, obs = info
            res.count("executions")
            res.count("transitions", obs.get("events", 0))
            key = tuple(sorted((k, v) for k, v in obs.items() if k != "events"))
            res.distinct.add((case["phase"],) + key)
            for k in ("read", "publish", "read-after-publish"):
                if k in obs:
                    res.count("outcome:%s:%s" % (k, obs[k]))
            if obs.get("read-newer-evidence") or obs.get("read-after-publish-newer-evidence"):
                res.count("reads_ending_with_newer_unrecoverable_evidence")
            if obs.get("read-unanswered-at-stop"):
                res.count("reads_ending_with_unanswered_queries")
            for sig, msg in viol:
                res.violation(sig, {"case": case, "prefix": prefix}, msg + " | case=%r schedule=%r" % (case, prefix))
            if any(prefix) and not gate:
                gate["x"] = 1
                t2, v2, o2 = execute(case, prefix, seed)
                if o2 != obs:
                    raise grid.HarnessError("nondeterministic replay %r %r: %r vs %r" % (case, prefix, obs, o2))
                res.count("determinism_gates")
                if res.counts["determinism_gates"] <= 2:
                    res.sample({"case": case, "schedule": prefix, "observed": obs})
        n, capped = grid.explore_subtree(ex, [], d_bound, 0, on_exec, max_exec=max_exec)
        res.count("trees")
        if capped:
            res.count("capped_trees")
    return res


def assignments(fmt, S, h, phase, seed, warm=False, batch=False, pubop=None):
    prep = prepare(fmt, S, h, seed)
    per = []
    for sv in range(S):
        if sv in prep["holders"]:
            opts = [["hold", j] for j in range(1, h + 1)] + [["dead"]]
            if phase == "publish" and pubop != "update":
                # (no replaying servers under an in-place edit: what the edit is applied to is then up to
                # the liar, and the contents to expect afterwards would be a guess)
                opts += [["replay", j] for j in range(1, h)]
        else:
            opts = [["empty"], ["dead"]]
        per.append(opts)
    out = []
    extras = [None]
    if pubop == "update" and S > N:
        extras = [[sh, j] for sh in range(N) for j in range(1, h + 1)]
    for combo in itertools.product(*per):
        for extra in extras:
            out.append({"fmt": fmt, "S": S, "h": h, "phase": phase, "assign": list(combo), "warm": warm, "batch": batch, "pubop": pubop, "extra": extra})
    return out


def spread_cases(fmt, S, h, warm, with_dead, seed, batch=False):
    prepare(fmt, S, h, seed)
    out = []
    vs = list(range(0 if with_dead else 1, h + 1))
    for place in itertools.combinations(range(S), N):
        for vers in itertools.product(vs, repeat=N):
            out.append({"fmt": fmt, "S": S, "h": h, "phase": "read", "warm": warm, "place": list(place), "vers": list(vers), "batch": batch})
    return out


def replay(case):
    if "case" not in case:
        return prepare(case["fmt"], case["S"], case["h"], boot.SEED)["viol"]
    trace, viol, obs = execute(case["case"], case["prefix"], boot.SEED)
    return viol


def run(tier, seed):
    # (format, S, h, phase, d)
    if tier == "quick":
        plan = [(f, 4, 3, "read", 1) for f in ("SDMF", "MDMF")] + [("MDMF", 6, 2, "read-warm", 0), ("SDMF", 9, 2, "spread-warm", 0)]
        plan += [("SDMF", 6, 2, "read-warm-batch", 0), ("MDMF", 5, 3, "read-warm-batch", 0), ("SDMF", 6, 2, "read-batch", 0), ("MDMF", 9, 2, "spread-warm-batch", 0), ("SDMF", 4, 2, "publish-batch", 0)]
        plan += [("SDMF", 4, 2, "publish", 1), ("MDMF", 4, 2, "publish", 0), ("SDMF", 4, 3, "publish", 0), ("MDMF", 5, 2, "publish", 0)]
        plan += [("MDMF", 4, 3, "publish-update", 0), ("MDMF", 5, 2, "publish-update", 0), ("SDMF", 4, 2, "publish-update", 0)]
    else:
        plan = [(f, 4, 3, "read", 2) for f in ("SDMF", "MDMF")] + [("SDMF", 5, 4, "read-warm", 1), ("MDMF", 6, 4, "read-warm", 1)]
        plan += [("SDMF", 4, 6, "read", 1), ("MDMF", 5, 5, "read-warm", 0), ("SDMF", 6, 3, "read-warm", 1)]
        plan += [("SDMF", 10, 2, "spread-warm-dead", 0), ("MDMF", 10, 3, "spread-warm", 0), ("SDMF", 12, 2, "spread-cold", 0), ("MDMF", 9, 2, "spread-warm", 1)]
        plan += [("SDMF", 6, 3, "read-warm-batch", 1), ("MDMF", 5, 4, "read-warm-batch", 1), ("MDMF", 8, 2, "read-batch", 0), ("SDMF", 10, 3, "spread-warm-batch", 0), ("MDMF", 4, 3, "publish-batch", 0), ("SDMF", 5, 2, "publish-batch", 1)]
        plan += [("MDMF", 4, 4, "publish-update", 0), ("MDMF", 5, 3, "publish-update", 0), ("MDMF", 5, 2, "publish-update", 1), ("SDMF", 4, 3, "publish-update", 0), ("MDMF", 6, 2, "publish-update", 0)]
        plan += [("SDMF", 4, 3, "publish", 1), ("MDMF", 4, 3, "publish", 0), ("SDMF", 4, 4, "publish", 0), ("MDMF", 5, 3, "publish", 0), ("SDMF", 6, 2, "publish", 1), ("SDMF", 4, 6, "publish", 0)]
    res = common.Result()
    desc = []
    seen_prep = set()
    for d in sorted(set(p[4] for p in plan)):
        cases = []
        for (fmt, S, h, phase, dd) in plan:
            if dd != d:
                continue
            prep = prepare(fmt, S, h, seed)
            if (fmt, S, h) not in seen_prep:
                seen_prep.add((fmt, S, h))
                for sig, msg in prep["viol"]:
                    res.violation(sig, {"fmt": fmt, "S": S, "h": h}, msg)
            if phase.startswith("spread"):
                a = spread_cases(fmt, S, h, "warm" in phase, "dead" in phase, seed, batch="batch" in phase)
            else:
                a = assignments(fmt, S, h, phase.split("-")[0], seed, warm="-warm" in phase, batch="batch" in phase, pubop="update" if "update" in phase else None)
            cases += a
            desc.append("%s S=%d h=%d %s: %d assignments at d<=%d" % (fmt, S, h, phase, len(a), d))
        res.merge(common.pmap(chunk, cases, (seed, d, 4000), chunks=max(1, min(len(cases), common.NWORKERS * 8))))
    cov = {
        "states": res.counts.get("trees", 0),
        "transitions": res.counts.get("transitions", 0),
        "traces_validated_against_impl": res.counts.get("executions", 0),
        "executions": res.counts.get("executions", 0),
        "capped_trees": res.counts.get("capped_trees", 0),
        "distinct_observation_vectors": len(res.distinct),
        "reads_ending_with_newer_unrecoverable_evidence": res.counts.get("reads_ending_with_newer_unrecoverable_evidence", 0),
        "outcomes": {k[8:]: v for k, v in sorted(res.counts.items()) if k.startswith("outcome:")},
        "rule": "states = server assignments (every server -> held version / unavailable / replaying), each executed under every schedule within its deviation bound; transitions = remote calls delivered; " + "; ".join(desc),
    }
    return res, cov


MANIFEST = {
    "engine": "G",
    "technique": "stateless model checking of the real ServermapUpdater / Retrieve / Publish over every assignment of held version / unavailable / replaying-older-share to the servers and every placement of the shares over the permuted server list, each under all delivery orders within a deviation bound; judged from the answers the client really received (independent share parser) and the call log",
    "text": "One writer publishes h versions of a 2-of-4 file on real storage servers; the share files after each publish are captured and every mixture of stale, current, missing, unavailable and replaying servers is rebuilt from them. A read must return the highest-seqnum version for which the answered servers supplied k distinct shares and must not stop with unqueried live servers while it has seen a newer version it cannot recover; a successful publish must carry a seqnum above everything its survey was answered with. Each family is also run with every answer that is deliverable at the start of a reactor turn delivered in that turn; reads are judged on the answers held when the servermap update concluded.",
    "note": "Bounds (h, S, d) per family in evidence; histories are linear, staleness is produced by restoring captured share files; fresh readers (guess k=3, query 6 servers) and long-lived readers (know k, query 4) are both used because only the latter can stop before every server of a 9..10-server grid was asked.",
}
