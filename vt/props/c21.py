"""C21  Deep traversal visits every reachable object exactly once  (Engine E, exhaustive graphs,
memory-backed real DirectoryNode.deep_traverse / ManifestWalker / DeepStats / DeepChecker).

Space: ALL directed graphs on n <= 3 mutable directory nodes (node 0 = root; node 1 is MDMF, the
others SDMF).  For every ordered pair (i, j), self-loops included, the link from i to j is one of
  none | by j's write-cap (name "dJ") | by j's read-cap (name "rJ") | both (n <= 2 only)
so n=1: 4, n=2: 256, n=3: 3^9 = 19 683 link matrices (quick: self-loops of nodes 1 and 2 restricted
to {none, rw}: 8 748).  Leaves: one CHK file (1000 bytes), one LIT file (7 bytes) and one mutable
SSK file (by write-cap from even directories, by read-cap from odd ones) are linked from every
directory of a subset S; one literal immutable directory DIR2-LIT (holding a 2-byte LIT file) is
linked from every directory of a subset SD.  n <= 2: every (S, SD) pair, with and without a second
link "lit2" to the same LIT file inside the same directory, root opened by write-cap and by
read-cap.  n = 3: SD = S in {none, all, {1,2}} (quick) / every subset and both root caps (thorough).
No isomorphism reduction: both labelings of a graph are run because they give different DFS orders.
For every case: build the graph with the real set_nodes(), open the root in a fresh client and run
build_manifest(), start_deep_check() (stub checker recording every check call) and (n <= 2, and
everywhere in thorough) start_deep_stats().
Oracle: independent BFS over the model graph.
  * manifest: every reachable object appears EXACTLY once, nothing else appears, and every reported
    path followed from the root in the model ends at the object whose cap is reported;
    verifycaps / storage-index sets = those of the reachable non-literal objects;
  * deep-stats (all walkers): equal to the stats of "each reachable object once";
  * deep-check: every reachable non-literal object is checked exactly once.
A stats difference that is exactly what the manifest's (already reported) duplicate visits imply is
reported under the same signature as the manifest violation, not as a new class.
"""
import itertools

from .. import common
from ..lib_memdir import World, fire, listing, mkdir, mkimmdir, must, wait_monitor, raw_contents
from allmydata import uri
from allmydata.util import base32

LEVEL = "exploration"
ASSUMPTIONS = [
    "small scope: <= 3 directory nodes, 4 leaf objects, one link name per (parent, child, cap kind); traversal code has no size-dependent branch except the turn-break every 100 files (not reached)",
    "unknown (future-cap) children are neither files nor directories and are not part of the graphs",
    "the stub checker returns 'healthy' for everything; check() calls are recorded in the memory world; every storage operation (directory download, check) completes in a later reactor turn (World(async_io=True)) so the traversal's Deferred chain pauses as on a real grid, but always in issue order (no reordering of completions)",
    "mutable-file layer replaced by a dict; directory size = length of the packed plaintext",
]

LIT_DATA = b"literal"       # 7 bytes  -> histogram bucket (4, 10)
TINY_DATA = b"ab"           # 2 bytes  -> bucket (1, 3)
CHK_SIZE = 1000             #          -> bucket (317, 1000)
BUCKET = {"lit": (4, 10), "tiny": (1, 3), "chk": (317, 1000)}
KIND = {"chk": "chk-file", "lit": "lit-file", "tiny": "lit-file", "ssk": "mutable-file", "litdir": "lit-dir"}


def kind_of(obj):
    return KIND.get(obj, "directory")


class Built(object):
    """real world + model for one case"""

    def __init__(self, case):
        n, L, S, lit2 = case["n"], case["links"], set(case["S"]), case.get("lit2", False)
        SD = set(case.get("SD", case["S"]))
        w = self.w = World(case.get("seed", 0), b"c21", async_io=True)
        c = w.client()
        chk = c.create_from_cap(w.new_chk_cap(CHK_SIZE).to_string())
        lit = c.create_from_cap(uri.LiteralFileURI(LIT_DATA).to_string())
        tiny = c.create_from_cap(uri.LiteralFileURI(TINY_DATA).to_string())
        sskcap = w.new_mutable_cap()
        w.mutable[sskcap.get_storage_index()] = b"mutable file contents"
        ssk_rw = c.create_from_cap(sskcap.to_string())
        ssk_ro = c.create_from_cap(sskcap.get_readonly().to_string())
        litdir = mkimmdir(c, {"t": (tiny, {})})
        assert litdir.get_uri().startswith(b"URI:DIR2-LIT:"), litdir.get_uri()
        D = [mkdir(c, mdmf=(i == 1)) for i in range(n)]
        Dro = [c.create_from_cap(d.get_readonly_uri()) for d in D]
        self.model = {}          # object id -> {name: target object id}   (directories only)
        for i in range(n):
            ent, m = {}, {}
            for j in range(n):
                k = L[i][j]
                if k in (1, 3):
                    ent["d%d" % j] = (D[j], {})
                    m["d%d" % j] = "D%d" % j
                if k in (2, 3):
                    ent["r%d" % j] = (Dro[j], {})
                    m["r%d" % j] = "D%d" % j
            if i in S:
                ent["chk"], m["chk"] = (chk, {}), "chk"
                ent["lit"], m["lit"] = (lit, {}), "lit"
                if lit2:
                    ent["lit2"], m["lit2"] = (lit, {}), "lit"
                ent["ssk"], m["ssk"] = ((ssk_rw if i % 2 == 0 else ssk_ro), {}), "ssk"
            if i in SD:
                ent["litdir"], m["litdir"] = (litdir, {}), "litdir"
            if ent:
                must(D[i].set_nodes(ent))
            self.model["D%d" % i] = m
        self.model["litdir"] = {"t": "tiny"}
        # cap string -> object id (every cap form under which the object can be reported)
        self.obj_of_cap = {}
        self.verifycap = {}
        self.si = {}
        for i, d in enumerate(D):
            self.obj_of_cap[d.get_uri()] = self.obj_of_cap[d.get_readonly_uri()] = "D%d" % i
            self.verifycap["D%d" % i] = d.get_verify_cap().to_string()
            self.si["D%d" % i] = d.get_storage_index()
        for oid, node in (("chk", chk), ("lit", lit), ("tiny", tiny), ("litdir", litdir)):
            self.obj_of_cap[node.get_uri()] = oid
        self.obj_of_cap[ssk_rw.get_uri()] = self.obj_of_cap[ssk_ro.get_uri()] = "ssk"
        self.verifycap["chk"] = chk.get_verify_cap().to_string()
        self.verifycap["ssk"] = ssk_rw.get_verify_cap().to_string()
        self.si["chk"] = chk.get_storage_index()
        self.si["ssk"] = ssk_rw.get_storage_index()
        # what a check() call is logged as: the uri of the backing FILE node
        self.obj_of_checked = {}
        for i, d in enumerate(D):
            self.obj_of_checked[d._node.get_uri()] = "D%d" % i
            self.obj_of_checked[Dro[i]._node.get_uri()] = "D%d" % i
        self.obj_of_checked[chk.get_uri()] = "chk"
        self.obj_of_checked[ssk_rw.get_uri()] = self.obj_of_checked[ssk_ro.get_uri()] = "ssk"
        self.dirsize = {"D%d" % i: len(raw_contents(w, d)) for i, d in enumerate(D)}
        self.dirsize["litdir"] = len(raw_contents(w, litdir))
        self.D = D

    def root(self, mode):
        cap = self.D[0].get_uri() if mode == "rw" else self.D[0].get_readonly_uri()
        return self.w.client().create_from_cap(cap)

    # ---- independent model
    def reachable(self):
        seen, order, todo = {"D0"}, ["D0"], ["D0"]
        while todo:
            cur = todo.pop(0)
            for name in sorted(self.model.get(cur, {})):
                t = self.model[cur][name]
                if t not in seen:
                    seen.add(t)
                    order.append(t)
                    if t in self.model:
                        todo.append(t)
        return order

    def follow(self, path):
        cur = "D0"
        for name in path:
            cur = self.model.get(cur, {}).get(name)
            if cur is None:
                return None
        return cur

    def stats_of(self, visits):
        """deep-stats implied by a multiset (list) of visited object ids"""
        cnt = lambda *ids: sum(1 for v in visits if v in ids)  # noqa: E731
        dirs = [v for v in visits if v in self.model]
        s = {
            "api-version": 1,
            "count-immutable-files": cnt("chk"),
            "count-mutable-files": cnt("ssk"),
            "count-literal-files": cnt("lit", "tiny"),
            "count-files": cnt("chk", "ssk", "lit", "tiny"),
            "count-directories": len(dirs),
            "count-unknown": 0,
            "size-immutable-files": CHK_SIZE * cnt("chk"),
            "size-literal-files": len(LIT_DATA) * cnt("lit") + len(TINY_DATA) * cnt("tiny"),
            "size-directories": sum(self.dirsize[d] for d in dirs),
            "largest-directory": max([self.dirsize[d] for d in dirs] or [0]),
            "largest-directory-children": max([len(self.model[d]) for d in dirs] or [0]),
            "largest-immutable-file": CHK_SIZE if cnt("chk") else 0,
        }
        h = []
        for oid in ("tiny", "lit", "chk"):
            if cnt(oid):
                h.append((BUCKET[oid][0], BUCKET[oid][1], cnt(oid)))
        s["size-files-histogram"] = sorted(h)
        return s


def norm_stats(s):
    s = dict(s)
    s["size-files-histogram"] = sorted(tuple(x) for x in s.get("size-files-histogram", []))
    return s


def dup_sig(kind):
    return "%s-visited-more-than-once" % kind


def check_case(case):
    """-> ([(sig, msg)], info)"""
    b = Built(case)
    reach = b.reachable()
    out = []
    info = {"reachable": len(reach), "dups": 0}
    strict = b.stats_of(reach)
    root = b.root(case.get("root", "rw"))
    desc = "model %r" % ({k: v for k, v in b.model.items() if v},)

    # ---------------- manifest
    k, res = wait_monitor(root.build_manifest())
    if k != "ok":
        return [("traversal-failed:%s" % type(res).__name__, "build_manifest failed with %r; %s" % (res, desc))], info
    visits = []
    man_sigs = set()
    for path, cap in res["manifest"]:
        oid = b.obj_of_cap.get(cap)
        if oid is None:
            out.append(("manifest-reports-unknown-cap", "path %r cap %r is not an object of the graph; %s" % (path, cap, desc)))
            continue
        visits.append(oid)
        end = b.follow(path)
        if end != oid:
            out.append(("path-leads-elsewhere", "manifest path %r is reported with the cap of %s but leads to %s in the model; %s" % (path, oid, end, desc)))
    for oid in sorted(set(visits) | set(reach)):
        nvis = visits.count(oid)
        if oid not in reach:
            out.append(("unreachable-object-visited", "%s visited %d times but is not reachable; %s" % (oid, nvis, desc)))
        elif nvis == 0:
            out.append(("reachable-%s-missed" % kind_of(oid), "%s is reachable but absent from the manifest %r; %s" % (oid, res["manifest"], desc)))
        elif nvis > 1:
            sig = dup_sig(kind_of(oid))
            man_sigs.add(sig)
            info["dups"] += 1
            paths = [p for p, cp in res["manifest"] if b.obj_of_cap.get(cp) == oid]
            out.append((sig, "build_manifest reports %s (%s) %d times, under paths %r; every reachable object must be visited exactly once; %s" % (oid, kind_of(oid), nvis, paths, desc)))
    want_v = set(b.verifycap[o] for o in reach if o in b.verifycap)
    if set(res["verifycaps"]) != want_v:
        out.append(("manifest-verifycaps-differ", "verifycaps %r, model %r; %s" % (sorted(res["verifycaps"]), sorted(want_v), desc)))
    want_si = set(base32.b2a(b.si[o]) for o in reach if o in b.si)
    if set(res["storage-index"]) != want_si:
        out.append(("manifest-storage-index-differ", "storage-index set %r, model %r; %s" % (sorted(res["storage-index"]), sorted(want_si), desc)))
    implied = b.stats_of(visits)

    def judge_stats(name, got):
        got = norm_stats(got)
        if got == strict:
            return
        diff = {kk: (got.get(kk), strict.get(kk)) for kk in sorted(set(got) | set(strict)) if got.get(kk) != strict.get(kk)}
        if man_sigs and got == implied:
            for sig in sorted(man_sigs):
                out.append((sig, "%s stats count the duplicate visits: (observed, exactly-once) = %r; %s" % (name, diff, desc)))
            return
        out.append(("stats-mismatch:%s" % sorted(diff)[0], "%s: (observed, exactly-once model) = %r; %s" % (name, diff, desc)))

    judge_stats("build_manifest", res["stats"])

    # ---------------- deep-stats
    k, st = wait_monitor(b.root(case.get("root", "rw")).start_deep_stats()) if case.get("deep_stats", True) else ("skip", None)
    if k == "skip":
        pass
    elif k != "ok":
        out.append(("traversal-failed:%s" % type(st).__name__, "start_deep_stats failed with %r; %s" % (st, desc)))
    else:
        judge_stats("start_deep_stats", st)

    # ---------------- deep-check with the recording stub checker
    del b.w.checks[:]
    k, dc = wait_monitor(b.root(case.get("root", "rw")).start_deep_check())
    if k != "ok":
        out.append(("traversal-failed:%s" % type(dc).__name__, "start_deep_check failed with %r; %s" % (dc, desc)))
    else:
        checked = [b.obj_of_checked.get(u, "?" + repr(u)) for u in b.w.checks]
        want_checked = [o for o in reach if o in b.verifycap]
        for oid in sorted(set(checked) | set(want_checked)):
            nchk = checked.count(oid)
            if oid not in want_checked:
                out.append(("unreachable-object-checked", "%s checked %d times; %s" % (oid, nchk, desc)))
            elif nchk == 0:
                out.append(("reachable-%s-not-checked" % kind_of(oid), "%s reachable but never checked; %s" % (oid, desc)))
            elif nchk > 1:
                out.append(("%s-checked-more-than-once" % kind_of(oid), "%s checked %d times; %s" % (oid, nchk, desc)))
        nobj = dc.get_counters()["count-objects-checked"]
        if nobj != len(want_checked):
            out.append(("deep-check-counter", "count-objects-checked=%d, reachable non-literal objects=%d; %s" % (nobj, len(want_checked), desc)))
        judge_stats("start_deep_check", dc.get_stats())
        info["checked"] = len(checked)
    return out, info


def replay(case):
    return check_case(case)[0]


def _chunk(chunk, seed):
    res = common.Result()
    for i, c in enumerate(chunk):
        case = dict(c, seed=seed)
        bad, info = check_case(case)
        res.count("evaluations")
        res.count("reachable_objects", info["reachable"])
        if info["reachable"] >= 3:
            res.count("nontrivial")
        shared = sum(1 for j in range(case["n"]) if sum(1 for i2 in range(case["n"]) if case["links"][i2][j]) >= 2)
        if shared:
            res.count("graphs_with_shared_or_cyclic_dirs")
        if info["dups"]:
            res.count("cases_with_duplicate_visits")
        for sig, msg in bad:
            res.violation(sig, case, msg)
        if i == 3:
            res.sample({"case": case, "reachable": info["reachable"]})
    return res


def subsets(n):
    return [list(s) for r in range(n + 1) for s in itertools.combinations(range(n), r)]


def gen_cases(tier):
    cases = []
    spaces = []
    for n in (1, 2):
        kinds = (0, 1, 2, 3)
        cnt = 0
        for flat in itertools.product(kinds, repeat=n * n):
            L = [list(flat[i * n:(i + 1) * n]) for i in range(n)]
            for S in subsets(n):
                for SD in subsets(n):
                    for lit2 in ((False, True) if S else (False,)):
                        for root in ("rw", "ro"):
                            cases.append({"n": n, "links": L, "S": S, "SD": SD, "lit2": lit2, "root": root, "deep_stats": True})
                            cnt += 1
        spaces.append("n=%d: all %d link matrices over {none,rw,ro,both} x every (S, SD) pair of leaf subsets x {one,two} links to the LIT file x root by {rw,ro} = %d" % (n, len(kinds) ** (n * n), cnt))
    thorough = tier == "thorough"
    S3 = subsets(3) if thorough else [[], [0, 1, 2], [1, 2]]
    roots = ["rw", "ro"] if thorough else ["rw"]
    cnt = nmat = 0
    for flat in itertools.product((0, 1, 2), repeat=9):
        L = [list(flat[i * 3:(i + 1) * 3]) for i in range(3)]
        if not thorough and (L[1][1] == 2 or L[2][2] == 2):
            continue
        nmat += 1
        for S in S3:
            for root in roots:
                cases.append({"n": 3, "links": L, "S": S, "SD": S, "lit2": False, "root": root, "deep_stats": thorough})
                cnt += 1
    spaces.append("n=3: %d link matrices over {none,rw,ro}%s x leaf subsets S=SD in %r x root by %r = %d" % (
        nmat, "" if thorough else " (self-loops of nodes 1,2 in {none,rw})", S3, roots, cnt))
    return cases, spaces


def run(tier, seed):
    cases, spaces = gen_cases(tier)
    res = common.pmap(_chunk, cases, (seed,), chunks=common.NWORKERS * 8)
    cov = {
        "evaluations": res.counts.get("evaluations", 0),
        "distinct_nontrivial": res.counts.get("nontrivial", 0),
        "exhaustive": True,
        "graphs_with_shared_or_cyclic_dirs": res.counts.get("graphs_with_shared_or_cyclic_dirs", 0),
        "cases_with_duplicate_visits": res.counts.get("cases_with_duplicate_visits", 0),
        "reachable_objects_total": res.counts.get("reachable_objects", 0),
        "rule": "every directed graph in: " + "; ".join(spaces) + ". Each case runs build_manifest, start_deep_stats and start_deep_check on the real code and compares with a BFS over the model. non-trivial = at least 3 reachable objects.",
    }
    return res, cov


MANIFEST = {
    "engine": "E",
    "technique": "exhaustive enumeration of all small directory graphs (every link matrix over none/rw/ro on <= 3 directories, with shared leaves) traversed by the real deep_traverse walkers and compared with an independent BFS",
    "text": "All 3^9 link matrices on three directories (and all 4^4 / 4 on two / one, with double links) with CHK, LIT, mutable and literal-directory leaves attached to subsets of the directories are built from real DirectoryNodes; build_manifest, start_deep_stats and deep-check (recording stub checker) must visit exactly the reachable set, each object once regardless of rw/ro link mix, cycles and sharing, report only paths that lead to the reported object, and produce the statistics of 'each reachable object once'.",
    "note": "Small scope (<= 3 directories, 5 leaf objects). The mutable-file layer and the checker are stubs; DirectoryNode.deep_traverse, ManifestWalker, DeepStats, DeepChecker and DeepCheckResults are the real classes.",
}
