"""C02  Immutable downloads never return wrong bytes  (Engine G, fault enumeration).

Files F0 = 2-of-3 / ONE segment (single-leaf hash trees), F1 = 2-of-3 / 3 segments (61 bytes) and
(thorough) F2 = 3-of-4 / 2 segments with a padded tail.
For each file, with the damaged share NEEDED (only k-1 other shares exist) and with all other
shares intact:
 (a) EVERY single-byte flip at every offset of the share file (container header, share header,
     offset table, blocks, all hash trees, share-hash chain, UEB length, UEB);
 (b) every header word and offset-table entry set to {0, v-1, v+1, v-32, v+32, file size, 2^32-1};
     every hash-tree region and the UEB zeroed;
 (c) truncation at EVERY length;
 (d) substitution: share i replaced by share j != i of the same file, by share i of another file,
     by share i of the same plaintext under another encoding (k,N) and under another segment size;
 (e) lying servers: every placement of <= f answers altered on the wire (any read call);
 (f) every subset of shares carrying one representative damage of each class;
 (g) no damage, but a fresh reader whose guess of the segment size is too small (10 or 16 against 22):
     partial reads from every third offset with four lengths.
 (h) shares that are self-consistent but whose ciphertext does not match the ciphertext hash tree of the UEB
     (wrong at the encoder), for every choice of bad segments of a catalogue x 6 read ranges.
Oracle: bytes handed to the consumer are always a prefix of the requested plaintext; the outcome
is the exact plaintext or an errback; with >= k untouched shares on honest servers the read
succeeds; every read terminates.
"""
import itertools

from .. import boot, common, grid, lib_imm

LEVEL = "fault_enumeration"
ASSUMPTIONS = [
    "SHA-256d is treated as collision-free; single-fault catalogue as listed (multi-byte corruptions only through truncation, zeroed regions, substitution and subsets)",
    "small files with tiny segments; default delivery order except for the lying-server part",
]
F1 = dict(k=2, n=3, seg=21, size=61)
F2 = dict(k=3, n=4, seg=60, size=64)
F0 = dict(k=2, n=3, seg=64, size=61)      # ONE segment: every hash tree has a single leaf (= its root)


def placements(f, victim, mode):
    n, k = f["n"], f["k"]
    others = [s for s in range(n) if s != victim]
    keep = others if mode == "intact" else others[:k - 1]
    pl = {str(victim): [victim % 3]}
    for s in keep:
        pl[str(s)] = [s % 3] if n <= 3 else [s % 4]
    if n > 3:
        pl[str(victim)] = [victim % 4]
    return pl, (4 if n > 3 else 3)


def mk(f, victim, mode, kind):
    pl, S = placements(f, victim, mode)
    sv = pl[str(victim)][0]
    return dict(f, S=S, placement=pl, damage={"%d:%d" % (sv, victim): kind}, groups=[[[0, None]]])


def catalogue(f, seed, tier, victims, modes, flip_step=1, trunc_step=1):
    prep = lib_imm.prepare(f["k"], f["n"], f["seg"], f["size"], seed)
    cases = []
    for victim in victims:
        blob = prep["shares"][victim]
        fields = lib_imm.share_fields(blob)
        end = fields["leases"][0]
        for mode in modes:
            for pos in range(0, end, flip_step):
                cases.append(mk(f, victim, mode, ["flip", pos]))
            for ln in range(0, end, trunc_step):
                cases.append(mk(f, victim, mode, ["trunc", ln]))
            for name in ["version", "block_size", "data_size", "o_data", "o_plaintext_hash_tree", "o_crypttext_hash_tree", "o_block_hashes", "o_share_hashes", "o_uri_extension", "ueb_length"]:
                a, b = fields[name]
                v = int.from_bytes(blob[a:a + 4], "big")
                for nv in sorted(set([0, v - 1, v + 1, v - 32, v + 32, len(blob), 2 ** 32 - 1, 1999, 2000])):
                    if nv != v and nv >= 0:
                        cases.append(mk(f, victim, mode, ["setword", name, nv]))
            for name in ["data", "crypttext_hash_tree", "block_hashes", "share_hashes", "ueb"]:
                cases.append(mk(f, victim, mode, ["zero", name]))
    return cases


def subst_cases(f, seed):
    """share i replaced by: another share of the same file, share i of another file, share i of
    the same plaintext with other k,N / other segment size.  `_alt` carries the blobs."""
    prep = lib_imm.prepare(f["k"], f["n"], f["seg"], f["size"], seed)
    other_file = lib_imm.prepare(f["k"], f["n"], f["seg"], f["size"], seed + 1000)
    other_kn = lib_imm.prepare(1, f["n"], f["seg"], f["size"], seed)
    other_seg = lib_imm.prepare(f["k"], f["n"], f["seg"] + 10, f["size"], seed)
    cases = []
    for victim in range(f["n"]):
        alt = {"otherfile": other_file["shares"][victim], "otherkn": other_kn["shares"][victim], "otherseg": other_seg["shares"][victim]}
        for j in range(f["n"]):
            if j != victim:
                alt["share%d" % j] = prep["shares"][j]
        # the victim's own share with every block AND the whole block hash tree taken from the other file's
        # share (self-consistent, but not the tree whose root the share hash chain of this file names)
        o, x = prep["shares"][victim], other_file["shares"][victim]
        fo, fx = lib_imm.share_fields(o), lib_imm.share_fields(x)
        if (fo["data"], fo["block_hashes"]) == (fx["data"], fx["block_hashes"]):
            sp = bytearray(o)
            for nm in ("data", "block_hashes"):
                sp[fo[nm][0]:fo[nm][1]] = x[fx[nm][0]:fx[nm][1]]
            alt["foreignblocks"] = bytes(sp)
        for mode in ("needed", "intact"):
            for key in sorted(alt):
                c = mk(f, victim, mode, ["subst", key])
                c["_alt"] = {key: alt[key]}
                cases.append(c)
    return cases


def subset_cases(f):
    kinds = ["corrupt-block0", "corrupt-blocklast", "corrupt-blockhash", "corrupt-sharehash", "corrupt-ueb", "corrupt-cthash", "missing"]
    cases = []
    n = f["n"]
    S = 4 if n > 3 else 3
    for r in range(1, n + 1):
        for subset in itertools.combinations(range(n), r):
            for kd in kinds:
                pl = {str(s): [s % S] for s in range(n)}
                cases.append(dict(f, S=S, placement=pl, damage={"%d:%d" % (s % S, s): kd for s in subset}, groups=[[[0, None]]]))
    return cases


def replay(case):
    trace, viol, obs = lib_imm.run_reads(case["case"], case["prefix"], boot.SEED)
    return viol


def run(tier, seed):
    if tier == "quick":
        cases = catalogue(F1, seed, tier, [0, 1, 2], ["needed"]) + catalogue(F1, seed, tier, [1], ["intact"], flip_step=1, trunc_step=7)
        cases += subst_cases(F1, seed) + subset_cases(F1)
        cases += catalogue(F0, seed, tier, [0], ["needed"], flip_step=1, trunc_step=5) + subset_cases(F0)
    else:
        cases = catalogue(F0, seed, tier, [0, 1, 2], ["needed", "intact"]) + subst_cases(F0, seed) + subset_cases(F0)
        cases += catalogue(F1, seed, tier, [0, 1, 2], ["needed", "intact"])
        cases += catalogue(F2, seed, tier, [0, 3], ["needed", "intact"])
        cases += subst_cases(F1, seed) + subst_cases(F2, seed) + subset_cases(F1) + subset_cases(F2)
    res = common.pmap(lib_imm.explore_chunk, cases, (seed, 0, 0, None, "C02"))
    # several answers per reactor turn (grid.Sched.batch): every third damage case again
    res.merge(common.pmap(lib_imm.explore_chunk, [dict(c, batch=True) for c in cases[::3]], (seed, 0, 0, None, "C02")))
    # undamaged shares, but a reader whose guess of the segment size (its own default) is smaller than the real
    # one: partial reads at every offset must still deliver exactly the requested bytes
    pl_ok = {str(s_): [s_] for s_ in range(3)}
    gcases = [dict(F1, S=3, placement=pl_ok, guess=gs, groups=[[[off, sz]]]) for gs in (10, 16) for off in range(0, 61, 3) for sz in (None, 1, 16, 30)]
    res.merge(common.pmap(lib_imm.explore_chunk, gcases, (seed, 0, 0, None, "C02")))
    # (h) the ENCODER's side is wrong: every share is self-consistent (block and share hash trees, UEB) but the
    # ciphertext of some segments does not match the ciphertext hash tree the UEB commits to - reads that touch
    # such a segment must fail, the others deliver their bytes
    bcases = []
    for bad in ([0], [1], [2], [0, 2], [0, 1, 2]):
        for grp in ([[0, None]], [[0, 10]], [[22, 22]], [[50, 100]], [[0, 10]], [[30, 31]]):
            bcases.append(dict(F1, S=3, placement=pl_ok, bad_ct=bad, groups=[grp]))
    res.merge(common.pmap(lib_imm.explore_chunk, bcases, (seed, 0, 0, None, "C02")))
    n0 = res.counts.get("executions", 0)
    # lying servers: every placement of <= f lies over all read calls of a full download
    f_lie = 1 if tier == "quick" else 2
    pl3 = {"0": [0], "1": [1], "2": [2]}
    lie_cases = [dict(F1, S=3, placement=pl3, groups=[[[0, None]]], fault_kinds=["lie"]),
                 dict(F1, S=3, placement={"0": [0], "1": [1]}, groups=[[[0, None]]], fault_kinds=["lie"]),
                 dict(F1, S=3, placement=pl3, groups=[[[22, 22]], [[0, None]]], fault_kinds=["lie"])]
    res.merge(common.pmap(lib_imm.explore_chunk, lie_cases, (seed, 0, f_lie, 20000, "C02"), chunks=len(lie_cases)))
    execs = res.counts.get("executions", 0)
    cov = {
        "evaluations": execs,
        "distinct_nontrivial": n0,
        "rule": "one execution per damage case (every byte flip, every truncation length, header/offset edge values, zeroed regions, substitutions, damaged subsets) = %d executions (every third layout a second time with several answers delivered per reactor turn), plus %d executions placing <= %d altered answers over every read call of 3 download scenarios; non-trivial = each case damages at least one share the download touches" % (n0, execs - n0, f_lie),
        "exhaustive": True,
        "outcomes": {k[8:]: v for k, v in res.counts.items() if k.startswith("outcome:")},
        "lie_bound_completed": f_lie,
        "remote_calls_delivered": res.counts.get("transitions", 0),
    }
    return res, cov


MANIFEST = {
    "engine": "G",
    "technique": "exhaustive fault enumeration on the real downloader: every single-byte flip, truncation length, field edge value, substitution and damaged subset of stored shares, plus every placement of altered read answers within a bound",
    "text": "Each damaged layout is materialised as real share files on real storage servers and read through the real ImmutableFileNode; delivered bytes must always be a prefix of the plaintext, the outcome the exact plaintext or an error, and reads with k untouched shares must succeed. Also: undamaged shares read by a fresh node whose guess of the segment size is too small, and shares that are self-consistent but whose ciphertext disagrees with the UEB's ciphertext hash tree (bad segments x read ranges).",
    "note": "Catalogue is closed and fully enumerated; hash collisions assumed impossible; default schedule except for lying servers (fault bound in evidence).",
}
