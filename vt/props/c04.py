"""C04  Random-access and concurrent immutable reads  (Engine G, stateless model checking).

File: 61 bytes, 2-of-3, 3 segments of 22/22/17 bytes (AES-block and segment boundaries differ).
(a) EVERY (offset, size) of the catalogue below as a single read, on a fresh node (whose guess of the
    segment size is right, or too small: reader default 10 or 16 bytes against real 22) and as the
    second read on a node that already served another range; the same for literal files of 0, 1, 55 bytes;
    reads of a 300-byte file starting at 14 offsets around AES block 10 (offset 160) and the segment boundaries;
(b) every multiset of 2 (quick) / 3 (thorough) ranges from a 6-element catalogue issued concurrently
    on ONE node object, under every schedule with <= d deviations, where a deviation is a reordered
    delivery, an early timer, or a consumer reaction: pause at a write (resumed later as a
    scheduler action) or stopProducing at a write or at any point between writes; both on a fresh
    node and on a node that has already completed a read.
Oracle: each consumer receives exactly plaintext[offset:offset+size] clipped at EOF (nothing when
offset >= EOF); a stopped read errbacks with DownloadStopped (or had already received everything)
and the other reads still complete correctly; every Deferred fires.
"""
import itertools

from .. import boot, common, grid, lib_imm
from allmydata.immutable.upload import Data

LEVEL = "model_checking"
ASSUMPTIONS = [
    "one 61-byte 3-segment CHK file and literal files of 0/1/55 bytes; ranges around AES-block (16) and segment (22) boundaries and EOF",
    "honest servers (faults: C03/C46); calls on one connection are FIFO",
]

BASE = dict(k=2, n=3, seg=21, size=61, S=3, placement={"0": [0], "1": [1], "2": [2]})
BIG = dict(k=2, n=3, seg=100, size=300, S=3, placement={"0": [0], "1": [1], "2": [2]})
OFFS = [0, 1, 15, 16, 17, 21, 22, 23, 44, 60, 61, 62, 81]
SIZES = [None, 0, 1, 15, 16, 17, 22, 45, 100]
CONC = [[0, None], [0, 10], [5, 30], [22, 22], [40, 100], [5, 30]]   # overlapping, same segment, disjoint, identical


def single_cases():
    out = []
    for off in OFFS:
        for sz in SIZES:
            out.append(dict(BASE, groups=[[[off, sz]]]))
            out.append(dict(BASE, groups=[[[23, 20]], [[off, sz]]]))
            # a reader whose own default segment size (the basis of a fresh node's guess of the segment
            # boundaries) is smaller than the one the file was uploaded with
            for guess in (10, 16):
                out.append(dict(BASE, guess=guess, groups=[[[off, sz]]]))
    # a 300-byte file (3 segments of 100): reads that start beyond AES block 9 (offset 160), where the decimal and the
    # hexadecimal spelling of the block number part ways
    for off in (0, 95, 143, 144, 159, 160, 161, 175, 176, 200, 255, 256, 299, 300):
        for sz in (None, 1, 17, 150):
            out.append(dict(BIG, groups=[[[off, sz]]]))
            out.append(dict(BIG, groups=[[[1, 1]], [[off, sz]]]))
    return out


def conc_cases(r):
    out = []
    for combo in itertools.combinations_with_replacement(range(len(CONC) - 1), r):
        out.append(dict(BASE, consumer_choices=True, groups=[[CONC[i] for i in combo]]))
        # the same on a node that already knows the segment size (a first read is over)
        out.append(dict(BASE, consumer_choices=True, groups=[[[1, 1]], [CONC[i] for i in combo]], explore_groups=[1]))
    return out


def then_cases(r):
    """explored reads (which the consumer may stop at any point, also before the first share is known)
    FOLLOWED by reads on the same node object at the default schedule: what an interrupted read
    leaves behind in the node must not break the next one"""
    out = []
    for combo in itertools.combinations_with_replacement(range(len(CONC) - 1), r):
        for after in ([[0, None]], [[44, 10], [0, 5]]):
            out.append(dict(BASE, consumer_choices=True, groups=[[CONC[i] for i in combo], after], explore_groups=[0]))
    return out


def literal_chunk(chunk, seed):
    res = common.Result()
    for (size, off, sz) in chunk:
        data = lib_imm.payload(size, seed, b"lit")
        g = grid.Grid(1, client_kw=dict(k=1, n=1, happy=1))
        try:
            b = lib_imm.upload(g, data)
            node = g.clients[0].create_node_from_uri(b[0][1].get_uri())
            b2, cons = lib_imm.read(g, node, off, sz)
            want = data[off:] if sz is None else data[off:off + sz]
            res.count("executions")
            res.count("transitions")
            if not b2 or b2[0][0] != "ok":
                res.violation("literal-read-failed", {"literal": [size, off, sz]}, "read(%r,%r) of %d-byte literal failed: %r" % (off, sz, size, b2))
            elif cons.data() != want:
                res.violation("literal-wrong-bytes", {"literal": [size, off, sz]}, "read(%r,%r) of %d-byte literal returned %r, expected %r" % (off, sz, size, cons.data(), want))
            if g.sched.issued:
                res.violation("literal-used-servers", {"literal": [size, off, sz]}, "remote calls issued for a literal file")
        finally:
            g.close()
    return res


def replay(case):
    if "literal" in case:
        r = literal_chunk([tuple(case["literal"])], boot.SEED)
        return [(v["sig"], v["msg"]) for v in r.violations]
    trace, viol, obs = lib_imm.run_reads(case["case"], case["prefix"], boot.SEED)
    return viol


def run(tier, seed):
    singles = single_cases()
    res = common.pmap(lib_imm.explore_chunk, singles, (seed, 0, 0, None, "C04"))
    lits = [(size, off, sz) for size in (0, 1, 55) for off in (0, 1, 54, 55, 56, 70) for sz in (None, 0, 1, 54, 55, 100)]
    res.merge(common.pmap(literal_chunk, lits, (seed,)))
    n0 = res.counts.get("executions", 0)
    if tier == "quick":
        cc = conc_cases(2)
        plan = [(cc, 1), ([c for c in cc if len(c["groups"]) == 1][::3], 2), (then_cases(1), 1), (then_cases(2)[::3], 1)]
    else:
        plan = [(conc_cases(2), 3), (conc_cases(3), 2), (then_cases(1), 3), (then_cases(2), 2)]
    plan += [([dict(c, batch=True) for c in cs], max(0, d - 1)) for (cs, d) in list(plan)[:3]]     # several answers per reactor turn
    desc = []
    for cases, d in plan:
        res.merge(common.pmap(lib_imm.explore_chunk, cases, (seed, d, 0, 20000, "C04"), chunks=len(cases)))
        desc.append("%d concurrent multisets of %d reads%s at d<=%d%s" % (len(cases), len(cases[0]["groups"][0] if cases[0].get("explore_groups") != [1] else cases[0]["groups"][1]), " followed by further reads on the node" if cases[0].get("explore_groups") == [0] else "", d, " (several answers per reactor turn)" if cases[0].get("batch") else ""))
    cov = lib_imm.coverage_from(res, "single reads: %d (offset,size) pairs x {fresh node, fresh node guessing a smaller segment size (2 values), node that already read another range} + %d literal reads at the default schedule (%d executions); then %s, deviations = reordered deliveries, early timers, consumer pause/stop at any write" % (len(OFFS) * len(SIZES), len(lits), n0, "; ".join(desc)),
                                {"deviation_bound_completed": max(p[1] for p in plan)})
    return res, cov


MANIFEST = {
    "engine": "G",
    "technique": "stateless model checking of concurrent reads on one real download node: all delivery orders, early timers and consumer pause/stop decisions within a deviation bound; exhaustive (offset,size) grid at the default schedule",
    "text": "Every range of a boundary grid is read from a real 3-segment CHK file and from literal files and compared with the plaintext slice; every multiset of concurrent ranges on one node is executed under all schedules within the deviation bound, the consumer's reaction (accept/pause/stop) at each write being a choice point. Explored reads (which the consumer may stop at any point, also before any share is known) are followed by further reads on the same node object, which must succeed. Reads of a 300-byte file around AES block 10 and fresh-node reads under a too-small guess of the segment size are included.",
    "note": "Small file with tiny segments; honest servers; bounds in evidence.",
}
