"""C37  Byte-range bookkeeping is exact  (Engine H, reachable-state closure, exhaustive).

Spans over universe 0..U-1 (U=8) and DataSpans over 0..D-1 (D=6, byte values {0x00, 0xff}).
BFS from the empty object over EVERY operation until no new INTERNAL state (the raw
_spans / spans list, not the abstract set) appears: the closure is complete for the
universe, so every internal representation the code can reach there is a start state for
every operation.  Each transition is executed on a fresh real object rebuilt by replaying
the shortest history; after it the abstract value must equal the reference (Python set /
dict), the representation invariants must hold (sorted, disjoint, non-adjacent, non-empty)
and every query (contains / len / iteration / each / get / get_spans / bool) must agree.
Binary operators + - & += -= and the copy constructors are evaluated for every ORDERED PAIR
of reachable Spans states; the result of a pure operator is then changed in place (filled, emptied)
and the operands must not move (a result that is, or shares state with, an operand is not a value).
"""
import itertools

from allmydata.util.spans import Spans, DataSpans
from .. import common

LEVEL = "model_checking"
BASE = [0]      # the whole universe is also explored shifted by 1000 (fresh, non-interned int objects)


def B(x):
    return BASE[0] + x          # a NEW int object whenever the result is > 256

ASSUMPTIONS = [
    "universe 0..7 (Spans) / 0..5 with the 2 extreme byte values 0x00 and 0xff (DataSpans), explored once at offsets 0.. and once shifted by 1000 with freshly computed (non-interned) int objects, so that neither small-int identity nor a magnitude-dependent slip can hide; beyond that the code only compares and subtracts offsets",
    "zero-length add/get are outside the API contract (asserted against by Spans.add) and are not issued",
]


# ------------------------------------------------------------------ Spans
def spans_ops(U):
    ops = []
    for s in range(U):
        for l in range(1, U - s + 1):
            ops.append(["add", s, l])
            ops.append(["remove", s, l])
    return ops


def spans_build(hist):
    sp, ref = Spans(), set()
    for (op, s, l) in hist:
        r = getattr(sp, op)(B(s), l)
        if r is not sp:
            raise AssertionError("Spans.%s does not return self" % op)
        if op == "add":
            ref |= set(range(B(s), B(s) + l))
        else:
            ref -= set(range(B(s), B(s) + l))
    return sp, ref


def spans_check(sp, ref, U):
    bad = []
    raw = list(sp._spans)
    if raw != sorted(raw):
        bad.append("unsorted %r" % raw)
    prev_end = None
    for (s, l) in raw:
        if l <= 0:
            bad.append("empty span %r" % raw)
        if prev_end is not None and s <= prev_end:
            bad.append("overlapping/adjacent spans %r" % raw)
        prev_end = s + l
    if set(sp.each()) != ref or list(sp.each()) != sorted(ref):
        bad.append("each()=%r want %r" % (list(sp.each()), sorted(ref)))
    if sp.len() != len(ref):
        bad.append("len()=%r want %r" % (sp.len(), len(ref)))
    if bool(sp) != bool(ref):
        bad.append("bool")
    if list(sp) != raw:
        bad.append("iter")
    for s in range(U):
        for l in range(1, U - s + 2):
            want = set(range(B(s), B(s) + l)) <= ref
            if ((B(s), l) in sp) != want:
                bad.append("(%d,%d) in -> %r want %r" % (B(s), l, (B(s), l) in sp, want))
    return bad


def spans_closure(U, res):
    ops = spans_ops(U)
    seen = {(): []}
    frontier = [()]
    while frontier:
        nxt = []
        for canon in frontier:
            hist = seen[canon]
            for op in ops:
                h2 = hist + [op]
                res.count("transitions")
                try:
                    sp, ref = spans_build(h2)
                    bad = spans_check(sp, ref, U)
                except Exception as e:  # noqa
                    bad = ["exception %r" % (e,)]
                    sp = None
                if bad:
                    res.violation("spans:" + bad[0].split()[0], {"kind": "Spans", "history": h2, "base": BASE[0]}, "; ".join(bad[:3]))
                    continue
                c2 = tuple(sp._spans)
                if c2 not in seen:
                    seen[c2] = h2
                    nxt.append(c2)
        frontier = nxt
    return seen


def spans_binary_chunk(chunk, U, hists):
    res = common.Result()
    for (i, j) in chunk:
        try:
            a, ra = spans_build(hists[i])
            b, rb = spans_build(hists[j])
            checks = [("+", a + b, ra | rb), ("-", a - b, ra - rb), ("&", a & b, ra & rb), ("copy", Spans(a), ra)]
            a2, _ = spans_build(hists[i]); a2 += b
            a3, _ = spans_build(hists[i]); a3 -= b
            checks += [("+=", a2, ra | rb), ("-=", a3, ra - rb)]
        except Exception as e:  # noqa  (an internal assertion of the class under test counts as a wrong answer)
            res.count("transitions")
            res.violation("spans-binary:raised:" + type(e).__name__, {"kind": "SpansBinary", "a": hists[i], "b": hists[j], "op": "build-or-operator"},
                          "building the operands %r / %r or applying + - & += -= to them raised %r" % (hists[i], hists[j], e))
            continue
        for name, got, want in checks:
            res.count("transitions")
            bad = spans_check(got, want, U)
            if bad:
                res.violation("spans-binary:" + name, {"kind": "SpansBinary", "a": hists[i], "b": hists[j], "op": name}, "; ".join(bad[:3]))
        # operands must be unchanged by the pure operators
        if set(a.each()) != ra or set(b.each()) != rb:
            res.violation("spans-binary:mutated-operand", {"kind": "SpansBinary", "a": hists[i], "b": hists[j], "op": "pure"}, "operand mutated")
        # ... and their results are values of their own: changing a result afterwards (fill it, then empty
        # it) must not show in either operand (a result that IS an operand, or shares its list, would)
        for name, got, want in checks[:4]:
            res.count("transitions")
            for fill in (True, False):
                if fill:
                    got.add(B(0), U)
                else:
                    got.remove(B(0), U)
                if set(a.each()) != ra or set(b.each()) != rb:
                    res.violation("spans-binary:result-shares-state-with-operand", {"kind": "SpansBinary", "a": hists[i], "b": hists[j], "op": name},
                                  "after %s the result of `a %s b` was %s in place; operands now read %r / %r, were %r / %r" % (
                                      "a " + name + " b", name, "filled" if fill else "emptied", sorted(a.each()), sorted(b.each()), sorted(ra), sorted(rb)))
                    break
    return res


# ------------------------------------------------------------------ DataSpans
VALS = (b"\x00", b"\xff")      # the two extreme byte values (a sentinel or sign slip shows at one of them)


def ds_ops(D, maxlen):
    ops = []
    for s in range(D):
        for l in range(1, min(maxlen, D - s) + 1):
            for data in itertools.product(VALS, repeat=l):
                ops.append(["add", s, b"".join(data)])
        for l in range(1, D - s + 1):
            ops.append(["remove", s, l])
            ops.append(["pop", s, l])
    return ops


def ds_apply(ds, ref, op):
    """apply op to real object and reference; return list of problems for the result"""
    name, s, x = op
    s = B(s)
    bad = []
    if name == "add":
        ds.add(s, x)
        for i, b in enumerate(x):
            ref[s + i] = bytes([b])
    elif name == "remove":
        ds.remove(s, x)
        for i in range(s, s + x):
            ref.pop(i, None)
    else:
        want = b"".join(ref[i] for i in range(s, s + x)) if all(i in ref for i in range(s, s + x)) else None
        got = ds.pop(s, x)
        if got != want:
            bad.append("pop(%d,%d)=%r want %r" % (s, x, got, want))
        if want is not None:
            for i in range(s, s + x):
                ref.pop(i, None)
    return bad


def ds_build(hist):
    ds, ref = DataSpans(), {}
    bad = []
    for op in hist:
        bad = ds_apply(ds, ref, op)
    return ds, ref, bad


def ds_check(ds, ref, D):
    bad = []
    raw = list(ds.spans)
    prev_end = None
    for (s, data) in raw:
        if len(data) == 0:
            bad.append("empty chunk %r" % raw)
        if prev_end is not None and s <= prev_end:
            bad.append("unsorted/overlapping/adjacent chunks %r" % raw)
        prev_end = s + len(data)
    got = {}
    for (s, data) in raw:
        for i, b in enumerate(data):
            got[s + i] = bytes([b])
    if got != ref:
        bad.append("content %r want %r" % (got, ref))
    if ds.len() != len(ref) or bool(ds) != bool(ref):
        bad.append("len/bool")
    if set(ds.get_spans().each()) != set(ref):
        bad.append("get_spans")
    if list(ds._dump()) != sorted(ref):
        bad.append("_dump")
    for s0 in range(D):
        s = B(s0)
        for l in range(1, D - s0 + 2):
            want = b"".join(ref[i] for i in range(s, s + l)) if all(i in ref for i in range(s, s + l)) else None
            g = ds.get(B(s0), l)
            if g != want:
                bad.append("get(%d,%d)=%r want %r" % (s, l, g, want))
    c = DataSpans(ds)
    if c.get_chunks() != ds.get_chunks():
        bad.append("copy-constructor")
    return bad


def ds_closure(D, maxlen, res):
    ops = ds_ops(D, maxlen)
    seen = {(): []}
    frontier = [()]
    while frontier:
        nxt = []
        for canon in frontier:
            hist = seen[canon]
            for op in ops:
                h2 = hist + [op]
                res.count("transitions")
                try:
                    ds, ref, bad = ds_build(h2)
                    bad = bad + ds_check(ds, ref, D)
                except Exception as e:  # noqa
                    bad = ["exception %r" % (e,)]
                if bad:
                    res.violation("dataspans:" + bad[0].split("(")[0].split()[0], {"kind": "DataSpans", "history": h2, "base": BASE[0]}, "; ".join(bad[:3]))
                    continue
                c2 = tuple(ds.spans)
                if c2 not in seen:
                    seen[c2] = h2
                    nxt.append(c2)
        frontier = nxt
    return seen


def ds_overwrite_family(D, res):
    """every set of held offsets over 0..D-1 (runs of 0x00 added left to right, or right to left) x every
    single add of 0xff bytes: one write that starts inside one run, swallows others and ends inside a
    further one needs more positions than the closure's universe offers"""
    n = 0
    for mask in range(1 << D):
        runs, i = [], 0
        while i < D:
            if mask >> i & 1:
                j = i
                while j < D and mask >> j & 1:
                    j += 1
                runs.append(["add", i, b"\x00" * (j - i)])
                i = j
            else:
                i += 1
        if len(runs) < 2:
            continue
        for base_hist in (runs, runs[::-1]):
            for s in range(D):
                for l in range(1, D - s + 1):
                    h2 = base_hist + [["add", s, b"\xff" * l]]
                    res.count("transitions")
                    n += 1
                    try:
                        ds, ref, bad = ds_build(h2)
                        bad = bad + ds_check(ds, ref, D)
                    except Exception as e:  # noqa
                        bad = ["exception %r" % (e,)]
                    if bad:
                        res.violation("dataspans-overwrite:" + bad[0].split("(")[0].split()[0], {"kind": "DataSpans", "history": h2, "base": BASE[0]}, "; ".join(bad[:3]))
    return n


def replay(case):
    BASE[0] = case.get("base", 0)
    k = case["kind"]
    if k == "Spans":
        try:
            sp, ref = spans_build(case["history"])
            bad = spans_check(sp, ref, 8)
        except Exception as e:  # noqa
            bad = ["exception %r" % (e,)]
        return [("spans", b) for b in bad]
    if k == "DataSpans":
        try:
            ds, ref, bad = ds_build(case["history"])
            bad = bad + ds_check(ds, ref, 6)
        except Exception as e:  # noqa
            bad = ["exception %r" % (e,)]
        return [("dataspans", b) for b in bad]
    r = spans_binary_chunk([(0, 1)], 8, [case["a"], case["b"]])
    return [(v["sig"], v["msg"]) for v in r.violations]


def _closure_job(chunk):
    res = common.Result()
    for (kind, U, maxlen, base) in chunk:
        BASE[0] = base
        if kind == "spans" and base:
            seen = spans_closure(U, res)
            res.count("shifted_spans_states", len(seen))
            continue
        if kind == "dsover":
            res.count("ds_overwrite_cases", ds_overwrite_family(U, res))
            continue
        if kind == "spans":
            seen = spans_closure(U, res)
            res.notes["spans_hists"] = [seen[k] for k in sorted(seen)]
        else:
            seen = ds_closure(U, maxlen, res)
            res.count("ds_states" if not base else "shifted_ds_states", len(seen))
            if base:
                continue
            res.sample({"DataSpans_state": sorted(seen)[len(seen) // 2], "shortest_history": seen[sorted(seen)[len(seen) // 2]]})
    return res


def run(tier, seed):
    U = 8 if tier == "quick" else 9
    D, maxlen = (6, 3) if tier == "quick" else (7, 4)
    DO = 10 if tier == "quick" else 12
    res = common.pmap(_closure_job, [("spans", U, 0, 0), ("ds", D, maxlen, 0), ("spans", U, 0, 1000), ("ds", D, maxlen, 1000),
                                     ("dsover", DO, 0, 0), ("dsover", DO, 0, 1000)], chunks=6)
    BASE[0] = 0
    hists = res.notes.pop("spans_hists")
    n = len(hists)
    res.sample({"Spans_state_history": hists[n // 2]})
    pairs = [(i, j) for i in range(n) for j in range(n)]
    res.merge(common.pmap(spans_binary_chunk, pairs, (U, hists)))
    states = n + res.counts.get("ds_states", 0) + res.counts.get("shifted_spans_states", 0) + res.counts.get("shifted_ds_states", 0)
    cov = {
        "states": states,
        "transitions": res.counts.get("transitions", 0),
        "traces_validated_against_impl": res.counts.get("transitions", 0),
        "exhaustive": True,
        "spans_internal_states": n,
        "dataspans_internal_states": res.counts.get("ds_states", 0),
        "spans_pairs_for_binary_ops": len(pairs),
        "dataspans_overwrite_cases": res.counts.get("ds_overwrite_cases", 0),
        "rule": "reachable-state closure: BFS over all add/remove (Spans, universe 0..%d) and add/remove/pop (DataSpans, universe 0..%d, byte values 0x00 and 0xff, add length <= %d) until no new internal representation appears; every transition runs the real class and is compared with a set/dict reference; all ordered pairs of Spans states under + - & += -= copy; DataSpans overwrite family: every set of held offsets over 0..%d (>= 2 runs, built in both orders) x every single add" % (U - 1, D - 1, maxlen, DO - 1),
    }
    return res, cov


MANIFEST = {
    "engine": "H",
    "technique": "explicit-state reachability closure on the real Spans/DataSpans objects with a set/dict reference model stepped alongside",
    "text": "All internal states reachable over a small offset universe are enumerated to closure and every operation is applied in every one of them on the real classes; results, abstract value and representation invariants are compared with a Python set/dict after every step. Complete for the universe; nothing is sampled.",
    "note": "Assumes no magnitude-dependent behaviour beyond the universe (offsets are only compared/subtracted). Every transition is an implementation run, so traces_validated_against_impl = transitions.",
}
