"""C17  Key and secret derivations match the specification  (Engine E, exhaustive small scope).

Reference: vt/lib_caps.py - hashlib only, written from docs/specifications (file-encoding.rst
"Hashes", mutable.rst "SDMF slots overview", dirnodes.rst, lease.rst) and first replayed
against every published vector (test_hashutil.py known answers, the four renewal-secret
vectors of derive_renewal_secret.py captured from a real upload).  Enumerated, each compared
byte for byte with the reference:

 kat     the published vectors against the REAL functions;
 func    every key/secret derivation function of util/hashutil.py over the full product of
         its argument alphabets: documented length in {00.., ff.., counting, seed-derived}
         plus length-1 / length+1 where the function accepts it; tagged_hash /
         tagged_pair_hash / tagged_hasher with 6 tags x values x truncations (pairs chosen so
         that a missing netstring wrapper or swapped arguments collide or differ);
         convergence_hash / convergence_hasher over (k, N, segsize, data, secret);
 chains  end-to-end through the objects that really compute them, without a grid:
   uri            write key -> read key -> storage index through every constructor,
                  from_string, get_readonly(), get_verify_cap() and the DIR2 wrappers;
   mutable-node   client.SecretHolder -> MutableFileNode(init_from_cap) .get_renewal_secret /
                  .get_cancel_secret / .get_write_enabler(server) with a stub server whose lease
                  seed and write-enabler seed differ;
   checker        immutable Checker lease secrets (add-lease path);
   selector       Tahoe2ServerSelector.get_shareholders driven against 4 stub storage servers:
                  the bytes that arrive in allocate_buckets(storage_index, renew, cancel, ...);
   upload-key     upload.Data convergent key and EncryptAnUploadable storage index;
   rsa            mutable/common.derive_mutable_keys on the 5 RSA fixture keys of the test-suite
                  (write key, fingerprint, encrypted private key) and the cap built from them;
   datakey        Retrieve._decrypt_segment(readkey, IV) decrypts what the reference encrypted;
   dirnode        dirnode._encrypt_rw_uri salt / key / ciphertext, DirectoryNode
                  ._decrypt_rwcapdata, and pack_children -> _unpack_contents of a real child.

NOT covered here (needs the virtual grid): the same secrets as they arrive at a real
StorageServer during a full Uploader / Publish run (slot_testv_and_readv_and_writev write
enabler, add_lease of the downloader/repairer), and the Publish-side data key (IV drawn inside
Publish._encode_segment).
"""
import base64
import itertools
import os

from twisted.internet import defer

from allmydata import uri, dirnode
from allmydata.util import hashutil
from allmydata.client import SecretHolder
from allmydata.crypto import rsa
from allmydata.immutable import upload
from allmydata.immutable.checker import Checker
from allmydata.mutable.common import derive_mutable_keys
from allmydata.mutable.filenode import MutableFileNode
from allmydata.mutable.retrieve import Retrieve
from allmydata.nodemaker import NodeMaker
from .. import boot
from .. import common
from .. import lib_caps as L

LEVEL = "exploration"
ASSUMPTIONS = [
    "differential check over a finite alphabet: it shows the absence of structural mistakes (wrong tag, argument order, truncation, netstring wrapping, wrong seed), which are input-independent; it is not a statement about SHA-256",
    "the tag constants of the reference are pinned by the project's published known-answer vectors, not by the prose of the specification (which prints only the lease and storage-index tags)",
    "end-to-end values are taken at stub storage servers / stub collaborators, not at a real grid; the full Uploader/Publish pipelines are left to the grid checks",
    "the dirnode child-cap MAC (written for pre-1.3 readers, never verified) is not compared",
]

ENC = {"k": 3, "n": 10}
V1 = b"http://allmydata.org/tahoe/protocols/storage/v1"

# real function name -> reference callable
REF = {
    "storage_index_hash": L.chk_storage_index,
    "my_renewal_secret_hash": L.client_renewal_secret,
    "my_cancel_secret_hash": L.client_cancel_secret,
    "file_renewal_secret_hash": L.file_renewal_secret,
    "file_cancel_secret_hash": L.file_cancel_secret,
    "bucket_renewal_secret_hash": L.bucket_renewal_secret,
    "bucket_cancel_secret_hash": L.bucket_cancel_secret,
    "ssk_writekey_hash": L.ssk_writekey,
    "ssk_pubkey_fingerprint_hash": L.ssk_fingerprint,
    "ssk_write_enabler_master_hash": L.ssk_write_enabler_master,
    "ssk_write_enabler_hash": L.ssk_write_enabler,
    "ssk_readkey_hash": L.ssk_readkey,
    "ssk_readkey_data_hash": L.ssk_datakey,
    "ssk_storage_index_hash": L.ssk_storage_index,
    "mutable_rwcap_key_hash": L.dirnode_child_key,
    "mutable_rwcap_salt_hash": L.dirnode_child_salt,
    "tagged_hash": L.tagged,
    "tagged_pair_hash": L.tagged_pair,
    "convergence_hash": L.convergence_key,
}


THOROUGH = [False]      # set by run(); only widens the value alphabets


def P(n, seed, label):
    out = L.patterns(n, seed, label)
    if THOROUGH[0]:
        out = out + [b"\x55" * n, b"\xaa" * n, bytes(range(255, 255 - n, -1)), L.seeded(label + b"'", seed, n)]
    return out


def Pm(n, seed, label):
    """documented length in 4 (thorough 8) patterns + one shorter + one longer value"""
    return P(n, seed, label) + [bytes(range(1, n)), bytes(range(1, n + 2))]


def fixture_keys():
    """DER private keys of the RSA fixtures shipped with the project's tests (2048 bit)"""
    d = os.path.join(boot.REPO_SRC, "allmydata", "test", "data")
    out = []
    for name in ("pycryptopp-rsa-2048-priv.txt", "openssl-rsa-2048.txt", "openssl-rsa-2048-2.txt",
                 "openssl-rsa-2048-3.txt", "openssl-rsa-2048-4.txt"):
        txt = open(os.path.join(d, name)).read()
        if "BEGIN" in txt:
            txt = "".join(l for l in txt.splitlines() if l and not l.startswith("-----"))
        out.append((name, base64.b64decode(txt)))
    return out


# ------------------------------------------------------------------ func cases
def func_cases(seed, tier):
    k16, s32, p20 = Pm(16, seed, b"k"), Pm(32, seed, b"s"), P(20, seed, b"p")
    k16b = Pm(16, seed, b"k2")
    ders = [b"", b"\x30", L.seeded(b"der", seed, 1216)] + [d for (_n, d) in fixture_keys()[:2]]
    caps = [b"", b"URI:SSK:" + L.b32enc(k16[2]) + b":" + L.b32enc(s32[2]), b"URI:DIR2-MDMF:" + L.b32enc(k16[3]) + b":" + L.b32enc(s32[3]),
            b"x-tahoe-crazy://rw", b"URI:SSK:" + b"a" * 300]
    dom = {
        "storage_index_hash": [k16],
        "my_renewal_secret_hash": [s32],
        "my_cancel_secret_hash": [s32],
        "file_renewal_secret_hash": [s32, k16],
        "file_cancel_secret_hash": [s32, k16],
        "bucket_renewal_secret_hash": [s32, p20],
        "bucket_cancel_secret_hash": [s32, p20],
        "ssk_writekey_hash": [ders],
        "ssk_pubkey_fingerprint_hash": [ders],
        "ssk_write_enabler_master_hash": [k16],
        "ssk_write_enabler_hash": [k16, p20],
        "ssk_readkey_hash": [k16],
        "ssk_readkey_data_hash": [k16, k16b],
        "ssk_storage_index_hash": [k16],
        "mutable_rwcap_key_hash": [k16, k16b],
        "mutable_rwcap_salt_hash": [caps],
    }
    cases = []
    for name in sorted(dom):
        for args in itertools.product(*dom[name]):
            cases.append({"t": "func", "f": name, "args": list(args)})
    tags = [b"", b"t", b"tag", L.T["chk_si"], L.seeded(b"tag", seed, 32), b"3:tag,"]
    vals = [b"", b"v", b"3:tag,", k16[2], s32[3], L.seeded(b"val", seed, 100)]
    for tag, val, tr in itertools.product(tags, vals, (None, 1, 16, 31, 32)):
        cases.append({"t": "func", "f": "tagged_hash", "args": [tag, val, tr]})
    pv = [b"", b"a", b"ab", b"bc", b"c", b"1:a,", k16[2], s32[1]]
    for tag, a, b, tr in itertools.product(tags[:4] + tags[5:], pv, pv, (None, 16)):
        cases.append({"t": "func", "f": "tagged_pair_hash", "args": [tag, a, b, tr]})
    for tag, tr, (a, b) in itertools.product(tags, (None, 16), [(b"", b""), (b"hello ", b"world"), (b"", k16[3]), (s32[2], b"")]):
        cases.append({"t": "hasher", "tag": tag, "tr": tr, "a": a, "b": b})
    datas = [b"", b"d", L.seeded(b"data", seed, 100)]
    secrets = [b"", b"converge"] + P(32, seed, b"cs")[1:]
    for (k, n), seg, data, sec in itertools.product([(1, 1), (3, 10), (10, 3 * 10), (256, 256)], (1, 1024, 131073), datas, secrets):
        cases.append({"t": "func", "f": "convergence_hash", "args": [k, n, seg, data, sec]})
        cases.append({"t": "convhasher", "args": [k, n, seg, data, sec]})
    return cases


def run_func(case):
    name, args = case["f"], list(case["args"])
    real = getattr(hashutil, name)
    try:
        got = real(*args)
    except Exception as e:  # noqa
        return [("raises:%s:%s" % (name, type(e).__name__), "hashutil.%s%r raised %r" % (name, tuple(args), e))]
    want = REF[name](*args)
    if not isinstance(got, bytes) or got != want:
        return [("mismatch:%s" % name, "hashutil.%s%r = %r, specification gives %r" % (name, tuple(args), got, want))]
    return []


def run_hasher(case):
    tag, tr, a, b = case["tag"], case["tr"], case["a"], case["b"]
    try:
        h = hashutil.tagged_hasher(tag, tr)
        h.update(a)
        h.update(b)
        got = h.digest()
        again = h.digest()
    except Exception as e:  # noqa
        return [("raises:tagged_hasher:%s" % type(e).__name__, "tagged_hasher(%r, %r) fed %r + %r raised %r" % (tag, tr, a, b, e))]
    want = L.tagged(tag, a + b, tr)
    if got != want or again != got:
        return [("mismatch:tagged_hasher", "tagged_hasher(%r, %r) fed %r + %r = %r (second digest() %r), specification gives %r" % (tag, tr, a, b, got, again, want))]
    return []


def run_convhasher(case):
    k, n, seg, data, sec = case["args"]
    try:
        h = hashutil.convergence_hasher(k, n, seg, sec)
        h.update(data[:1])
        h.update(data[1:])
        got = h.digest()
    except Exception as e:  # noqa
        return [("raises:convergence_hasher:%s" % type(e).__name__, "convergence_hasher%r raised %r" % ((k, n, seg, sec), e))]
    want = L.convergence_key(k, n, seg, data, sec)
    if got != want:
        return [("mismatch:convergence_hasher", "convergence_hasher%r over %r = %r, specification gives %r" % ((k, n, seg, sec), data, got, want))]
    return []


# ------------------------------------------------------------------ published vectors against the real code
def run_kat(case):
    name, _fn, args, want = L.KATS[case["i"]]
    try:
        got = L.b32enc(getattr(hashutil, name)(*args))
    except Exception as e:  # noqa
        return [("kat-raises:%s:%s" % (name, type(e).__name__), "hashutil.%s%r raised %r" % (name, args, e))]
    if got != want:
        return [("kat:%s" % name, "hashutil.%s%r = %r, published vector (test_hashutil.py) %r" % (name, args, got, want))]
    return []


def run_leasekat(case):
    ls, si, tub, want = [x for x in L.LEASE_CHAIN_KATS[case["i"]]]
    ls, si, tub = L.b32dec(ls), L.b32dec(si), L.b32dec(tub)
    try:
        v = uri.CHKFileVerifierURI(si, b"\x00" * 32, 3, 10, 100)
        c = Checker(v, [], False, True, SecretHolder(ls, b""), None)
        got = L.b32enc(c._get_renewal_secret(tub))
    except Exception as e:  # noqa
        return [("kat-raises:lease-chain:%s" % type(e).__name__, "%r" % (e,))]
    if got != want:
        return [("kat:lease-chain", "renewal secret for lease secret %r, SI %r, server %r = %r, vector captured from a real upload (docs/specifications/derive_renewal_secret.py) %r"
                 % (L.b32enc(ls), L.b32enc(si), L.b32enc(tub), got, want))]
    return []


# ------------------------------------------------------------------ chains
class StubStorage(object):
    def __init__(self, server, log):
        self.server, self.log = server, log

    def get_buckets(self, si):
        return defer.succeed({})

    def allocate_buckets(self, si, renew, cancel, sharenums, size, canary):
        self.log.append((self.server, si, renew, cancel))
        return defer.succeed((set(), dict((sh, object()) for sh in sharenums)))


class StubServer(object):
    def __init__(self, i, lease_seed, we_seed, log=None):
        self.i, self.lease_seed, self.we_seed = i, lease_seed, we_seed
        self.storage = StubStorage(self, log if log is not None else [])

    def get_serverid(self):
        return b"server-%02d-id-bytes!" % self.i

    def get_name(self):
        return "s%d" % self.i

    def get_longname(self):
        return "server%d" % self.i

    def get_lease_seed(self):
        return self.lease_seed

    def get_foolscap_write_enabler_seed(self):
        return self.we_seed

    def get_permutation_seed(self):
        return self.get_serverid()

    def get_version(self):
        return {V1: {b"maximum-immutable-share-size": 2 ** 32}}

    def get_storage_server(self):
        return self.storage

    def upload_permitted(self):
        return True


class StubBroker(object):
    def __init__(self, servers):
        self.servers = servers

    def get_servers_for_psi(self, si, for_upload=False):
        return list(self.servers)


def fired(d):
    out = []
    d.addBoth(out.append)
    boot.R.pump_until_idle()
    if not out:
        raise RuntimeError("deferred did not fire")
    if hasattr(out[0], "raiseException"):
        out[0].raiseException()
    return out[0]


def cmp(bad, sig, what, got, want, ctx):
    if got != want:
        bad.append((sig, "%s = %r, specification gives %r; %s" % (what, got, want, ctx)))
    return 1


def chain_uri(c):
    key, fp = c["key"], c["fp"]
    bad, n = [], 0
    ctx = "key %r fingerprint %r" % (key, fp)
    rk, = (L.ssk_readkey(key),)
    si_w, si_r = L.ssk_storage_index(rk), L.ssk_storage_index(key)
    for wcls, rcls, dw, dr in ((uri.WriteableSSKFileURI, uri.ReadonlySSKFileURI, uri.DirectoryURI, uri.ReadonlyDirectoryURI),
                               (uri.WriteableMDMFFileURI, uri.ReadonlyMDMFFileURI, uri.MDMFDirectoryURI, uri.ReadonlyMDMFDirectoryURI)):
        w = wcls(key, fp)
        for how, o in (("constructor", w), ("from_string", uri.from_string(w.to_string())), ("dir", dw(w))):
            name = "%s[%s]" % (wcls.__name__, how)
            f = o.get_filenode_cap() if how == "dir" else o
            n += cmp(bad, "chain:uri:readkey", name + ".readkey", f.readkey, rk, ctx)
            n += cmp(bad, "chain:uri:storage-index", name + ".get_storage_index()", o.get_storage_index(), si_w, ctx)
            ro = o.get_readonly()
            fro = ro.get_filenode_cap() if how == "dir" else ro
            n += cmp(bad, "chain:uri:readkey", name + ".get_readonly().readkey", fro.readkey, rk, ctx)
            n += cmp(bad, "chain:uri:storage-index", name + ".get_readonly().get_storage_index()", ro.get_storage_index(), si_w, ctx)
            n += cmp(bad, "chain:uri:storage-index", name + ".get_verify_cap().get_storage_index()", o.get_verify_cap().get_storage_index(), si_w, ctx)
            n += cmp(bad, "chain:uri:storage-index", name + ".get_readonly().get_verify_cap().get_storage_index()", ro.get_verify_cap().get_storage_index(), si_w, ctx)
        r = rcls(key, fp)      # the same 16 bytes used as a READ key
        for how, o in (("constructor", r), ("from_string", uri.from_string(r.to_string())), ("dir", dr(r))):
            name = "%s[%s]" % (rcls.__name__, how)
            n += cmp(bad, "chain:uri:storage-index", name + ".get_storage_index()", o.get_storage_index(), si_r, ctx)
            n += cmp(bad, "chain:uri:storage-index", name + ".get_verify_cap().get_storage_index()", o.get_verify_cap().get_storage_index(), si_r, ctx)
    chk = uri.CHKFileURI(key, fp, 3, 10, 1000)
    si_c = L.chk_storage_index(key)
    for how, o in (("constructor", chk), ("from_string", uri.from_string(chk.to_string())), ("dir", uri.ImmutableDirectoryURI(chk))):
        name = "CHKFileURI[%s]" % how
        n += cmp(bad, "chain:uri:chk-storage-index", name + ".get_storage_index()", o.get_storage_index(), si_c, ctx)
        n += cmp(bad, "chain:uri:chk-storage-index", name + ".get_verify_cap().get_storage_index()", o.get_verify_cap().get_storage_index(), si_c, ctx)
    return bad, n


def chain_mutable_node(c):
    key, ls, lease_seed, we_seed, kind = c["key"], c["lease_secret"], c["lease_seed"], c["we_seed"], c["kind"]
    cls = getattr(uri, L.KINDS[kind].cls)
    cap = cls(key, b"\x07" * 32)
    node = MutableFileNode(None, SecretHolder(ls, b"conv"), ENC, None).init_from_cap(cap)
    srv = StubServer(0, lease_seed, we_seed)
    write = L.KINDS[kind].authority == "write"
    rk = L.ssk_readkey(key) if write else key
    si = L.ssk_storage_index(rk)
    ctx = "%s node, key %r, lease secret %r, server lease seed %r / write-enabler seed %r" % (kind, key, ls, lease_seed, we_seed)
    bad, n = [], 0
    n += cmp(bad, "chain:mutable-node:storage-index", "get_storage_index()", node.get_storage_index(), si, ctx)
    n += cmp(bad, "chain:mutable-node:readkey", "get_readkey()", node.get_readkey(), rk, ctx)
    n += cmp(bad, "chain:mutable-node:renewal-secret", "get_renewal_secret(server)", node.get_renewal_secret(srv), L.renewal_secret_chain(ls, si, lease_seed), ctx)
    n += cmp(bad, "chain:mutable-node:cancel-secret", "get_cancel_secret(server)", node.get_cancel_secret(srv), L.cancel_secret_chain(ls, si, lease_seed), ctx)
    if write:
        n += cmp(bad, "chain:mutable-node:writekey", "get_writekey()", node.get_writekey(), key, ctx)
        n += cmp(bad, "chain:mutable-node:write-enabler", "get_write_enabler(server)", node.get_write_enabler(srv), L.ssk_write_enabler(key, we_seed), ctx)
    else:
        n += cmp(bad, "chain:mutable-node:writekey", "get_writekey() of a read-only node", node.get_writekey(), None, ctx)
    return bad, n


def chain_checker(c):
    key, ls, seed = c["key"], c["lease_secret"], c["lease_seed"]
    v = uri.CHKFileURI(key, b"\x09" * 32, 3, 10, 1000).get_verify_cap()
    ck = Checker(v, [], False, True, SecretHolder(ls, b"conv"), None)
    si = L.chk_storage_index(key)
    ctx = "CHK key %r, lease secret %r, server lease seed %r" % (key, ls, seed)
    bad, n = [], 0
    n += cmp(bad, "chain:checker:renewal-secret", "Checker._get_renewal_secret(seed)", ck._get_renewal_secret(seed), L.renewal_secret_chain(ls, si, seed), ctx)
    n += cmp(bad, "chain:checker:cancel-secret", "Checker._get_cancel_secret(seed)", ck._get_cancel_secret(seed), L.cancel_secret_chain(ls, si, seed), ctx)
    return bad, n


def chain_selector(c):
    ls, si, seeds = c["lease_secret"], c["si"], c["seeds"]
    log = []
    servers = [StubServer(i, s, bytes(reversed(s)), log) for i, s in enumerate(seeds)]
    sel = upload.Tahoe2ServerSelector("c17", None, upload.UploadStatus(), reactor=boot.R)
    fired(sel.get_shareholders(StubBroker(servers), SecretHolder(ls, b"conv"), si, 100, 10, 1, len(seeds), 2, 2, 300))
    bad, n = [], 0
    if len(log) < len(seeds):
        bad.append(("chain:selector:no-allocate", "only %d allocate_buckets calls for %d servers" % (len(log), len(seeds))))
    for (srv, gsi, renew, cancel) in log:
        ctx = "lease secret %r, storage index %r, server %s lease seed %r" % (ls, si, srv.get_name(), srv.lease_seed)
        n += cmp(bad, "chain:selector:storage-index", "allocate_buckets storage_index", gsi, si, ctx)
        n += cmp(bad, "chain:selector:renewal-secret", "allocate_buckets renew_secret", renew, L.renewal_secret_chain(ls, si, srv.lease_seed), ctx)
        n += cmp(bad, "chain:selector:cancel-secret", "allocate_buckets cancel_secret", cancel, L.cancel_secret_chain(ls, si, srv.lease_seed), ctx)
    return bad, n


def chain_upload_key(c):
    data, sec, k, n_, maxseg = c["data"], c["secret"], c["k"], c["n"], c["maxseg"]
    u = upload.Data(data, sec)
    u.set_default_encoding_parameters({"k": k, "happy": 1, "n": n_, "max_segment_size": maxseg})
    key = fired(u.get_encryption_key())
    segsize = min(maxseg, len(data))
    segsize = ((segsize + k - 1) // k) * k          # "a multiple of k" (file-encoding.rst: params are part of the hash)
    ctx = "Data(%d bytes, convergence %r) k=%d n=%d max_segment_size=%d" % (len(data), sec, k, n_, maxseg)
    bad, n = [], 0
    n += cmp(bad, "chain:upload-key:convergent-key", "encryption key", key, L.convergence_key(k, n_, segsize, data, sec), ctx)
    si = fired(upload.EncryptAnUploadable(u).get_storage_index())
    n += cmp(bad, "chain:upload-key:storage-index", "EncryptAnUploadable.get_storage_index()", si, L.chk_storage_index(key), ctx)
    return bad, n


def chain_rsa(c):
    name, der = fixture_keys()[c["i"]]
    priv, pub = rsa.create_signing_keypair_from_string(der)
    wk, encpriv, fp = derive_mutable_keys((pub, priv))
    priv_der, pub_der = rsa.der_string_from_signing_key(priv), rsa.der_string_from_verifying_key(pub)
    ctx = "RSA fixture %s" % name
    bad, n = [], 0
    n += cmp(bad, "chain:rsa:writekey", "derive_mutable_keys writekey", wk, L.ssk_writekey(priv_der), ctx)
    n += cmp(bad, "chain:rsa:fingerprint", "derive_mutable_keys fingerprint", fp, L.ssk_fingerprint(pub_der), ctx)
    n += cmp(bad, "chain:rsa:encprivkey", "derive_mutable_keys encrypted private key", encpriv, L.aes_ctr(L.ssk_writekey(priv_der), priv_der), ctx)
    for cls in (uri.WriteableSSKFileURI, uri.WriteableMDMFFileURI):
        cap = cls(wk, fp)
        rk = L.ssk_readkey(L.ssk_writekey(priv_der))
        n += cmp(bad, "chain:rsa:readkey", cls.__name__ + ".readkey", cap.readkey, rk, ctx)
        n += cmp(bad, "chain:rsa:storage-index", cls.__name__ + ".storage_index", cap.storage_index, L.ssk_storage_index(rk), ctx)
    return bad, n


class _StubStatus(object):
    def accumulate_decrypt_time(self, t):
        pass


class _StubRetrieve(object):
    _current_segment = 0

    def __init__(self, node):
        self._node = node
        self._status = _StubStatus()

    def _set_current_status(self, s):
        pass

    def log(self, *a, **kw):
        pass


def chain_datakey(c):
    key, iv, pt = c["key"], c["iv"], c["plaintext"]
    node = MutableFileNode(None, None, ENC, None).init_from_cap(uri.ReadonlySSKFileURI(key, b"\x05" * 32))
    ct = L.aes_ctr(L.ssk_datakey(iv, key), pt)
    got = fired(Retrieve._decrypt_segment(_StubRetrieve(node), (ct, iv)))
    bad = []
    n = cmp(bad, "chain:datakey:decrypt", "Retrieve._decrypt_segment of AES-CTR(H(IV, readkey))", got, pt, "readkey %r IV %r" % (key, iv))
    return bad, n


def chain_dirnode(c):
    wk, rw = c["writekey"], c["rw_uri"]
    ctx = "dirnode writekey %r child rw_uri %r" % (wk, rw)
    bad, n = [], 0
    blob = dirnode._encrypt_rw_uri(wk, rw)
    salt = L.dirnode_child_salt(rw)
    key = L.dirnode_child_key(salt, wk)
    n += cmp(bad, "chain:dirnode:salt", "_encrypt_rw_uri salt", blob[:16], salt, ctx)
    n += cmp(bad, "chain:dirnode:child-key-ciphertext", "_encrypt_rw_uri ciphertext", blob[16:-32], L.aes_ctr(key, rw), ctx)
    n += cmp(bad, "chain:dirnode:blob-length", "len(salt+ciphertext+mac)", len(blob), 16 + len(rw) + 32, ctx)
    nm = NodeMaker(None, None, None, None, None, ENC, None, None)
    parent = nm.create_from_cap(uri.WriteableSSKFileURI(wk, b"\x06" * 32).to_string())
    dn = dirnode.DirectoryNode(parent, nm, None)
    # a blob built ONLY by the reference must decrypt in the real reader
    ref_blob = salt + L.aes_ctr(key, rw) + b"\x00" * 32
    n += cmp(bad, "chain:dirnode:decrypt", "DirectoryNode._decrypt_rwcapdata(reference blob)", dn._decrypt_rwcapdata(ref_blob), rw, ctx)
    if rw.startswith(b"URI:"):
        child = nm.create_from_cap(rw)
        packed = dirnode.pack_children({u"kid": (child, {})}, wk)
        n += cmp(bad, "chain:dirnode:packed-entry", "reference rwcapdata present in pack_children output", (salt + L.aes_ctr(key, rw)) in packed, True, ctx)
        kids = dn._unpack_contents(packed)
        n += cmp(bad, "chain:dirnode:unpack", "write uri of the unpacked child", kids[u"kid"][0].get_write_uri(), rw, ctx)
    return bad, n


CHAINS = {"uri": chain_uri, "mutable-node": chain_mutable_node, "checker": chain_checker, "selector": chain_selector,
          "upload-key": chain_upload_key, "rsa": chain_rsa, "datakey": chain_datakey, "dirnode": chain_dirnode}


def chain_cases(seed, tier):
    k16, s32, p20 = P(16, seed, b"ck"), P(32, seed, b"cs"), P(20, seed, b"cp")
    fps = P(32, seed, b"cf")[2:4]
    cases = []
    for key in k16:
        for fp in fps:
            cases.append({"t": "chain", "c": "uri", "key": key, "fp": fp})
    for kind in ("SSK", "SSK-RO", "MDMF", "MDMF-RO"):
        for key, ls, a, b in itertools.product(k16, s32, p20, p20):
            cases.append({"t": "chain", "c": "mutable-node", "kind": kind, "key": key, "lease_secret": ls, "lease_seed": a, "we_seed": b})
    for key, ls, a in itertools.product(k16, s32, p20):
        cases.append({"t": "chain", "c": "checker", "key": key, "lease_secret": ls, "lease_seed": a})
    for ls, si in itertools.product(s32, k16):
        cases.append({"t": "chain", "c": "selector", "lease_secret": ls, "si": si, "seeds": list(p20)})
    datas = [b"", b"x", L.seeded(b"up", seed, 100), L.seeded(b"up", seed, 1000)]
    for data, sec, (k, n), maxseg in itertools.product(datas, [b"", s32[2], s32[3]], [(1, 1), (3, 10), (7, 9)], (50, 131072)):
        cases.append({"t": "chain", "c": "upload-key", "data": data, "secret": sec, "k": k, "n": n, "maxseg": maxseg})
    for i in range(len(fixture_keys())):
        cases.append({"t": "chain", "c": "rsa", "i": i})
    for key, iv, pt in itertools.product(k16, P(16, seed, b"iv"), [b"", b"p", L.seeded(b"pt", seed, 50)]):
        cases.append({"t": "chain", "c": "datakey", "key": key, "iv": iv, "plaintext": pt})
    rws = [b"", b"URI:SSK:" + L.b32enc(k16[2]) + b":" + L.b32enc(s32[2]), b"URI:MDMF:" + L.b32enc(k16[3]) + b":" + L.b32enc(s32[3]),
           b"URI:DIR2:" + L.b32enc(k16[1]) + b":" + L.b32enc(s32[0]), b"x-tahoe-crazy://rw", b" "]
    for wk, rw in itertools.product(k16, rws):
        cases.append({"t": "chain", "c": "dirnode", "writekey": wk, "rw_uri": rw})
    return cases


# ------------------------------------------------------------------ driver
def run_case(case):
    """-> (violations, comparisons)"""
    t = case["t"]
    if t == "func":
        return run_func(case), 1
    if t == "hasher":
        return run_hasher(case), 1
    if t == "convhasher":
        return run_convhasher(case), 1
    if t == "kat":
        return run_kat(case), 1
    if t == "leasekat":
        return run_leasekat(case), 1
    try:
        return CHAINS[case["c"]](case)
    except Exception as e:  # noqa
        import traceback
        tb = traceback.format_exc().strip().splitlines()
        return [("chain:%s:raises:%s" % (case["c"], type(e).__name__), "%r; %s" % (e, " | ".join(tb[-3:])))], 1


def _grid_chunk(chunk, seed):
    """values that actually reach a REAL storage server during a real immutable upload, a
    check(add_lease=True) and a mutable create/overwrite, compared with the hashlib reference"""
    from .. import grid as G, lib_imm, lib_mut, boot
    from allmydata.mutable.publish import MutableData
    from allmydata.monitor import Monitor
    res = common.Result()
    for (what, variant) in chunk:
        g = G.Grid(3, client_kw=dict(k=2, n=3, happy=2, max_segment_size=64))
        try:
            c = g.clients[0]
            lease_secret = b"lease-secret-0"          # vt.grid.VClient's SecretHolder(lease_secret, convergence)
            seen = []

            def ob(kind, ev, outcome):
                if kind == "deliver":
                    seen.append((ev.conn.si, ev.meth, ev.args))
            g.sched.observers.append(ob)
            if what == "immutable":
                data = lib_imm.payload(100 + variant, seed, b"c17")
                b = lib_imm.upload(g, data)
                cap = b[0][1].get_uri()
                node = c.create_node_from_uri(cap)
                g.wait(node.check(Monitor(), verify=False, add_lease=True))
                g.quiesce()
                si = node.get_storage_index()
                key = tahoe_uri_from_string(cap).key
                checks = 0
                if L.chk_storage_index(key) != si:
                    res.violation("grid:chk-storage-index", {"t": "grid", "what": what, "variant": variant}, "storage index used on the wire is not H(key)")
                if L.convergence_key(2, 3, 64, data, b"conv") != key:
                    res.violation("grid:convergent-key", {"t": "grid", "what": what, "variant": variant}, "key in the cap is not the specified convergent key")
                for (sv, meth, args) in seen:
                    peerid = g.ids[sv]
                    if meth in ("allocate_buckets", "add_lease"):
                        checks += 1
                        wsi, rs, cs = args[0], args[1], args[2]
                        want_r = L.renewal_secret_chain(lease_secret, si, peerid)
                        want_c = L.cancel_secret_chain(lease_secret, si, peerid)
                        if wsi != si or rs != want_r or cs != want_c:
                            res.violation("grid:lease-secret:" + meth, {"t": "grid", "what": what, "variant": variant}, "%s on server %d carried renew/cancel secrets that are not client->file->bucket derivations of the client's lease secret" % (meth, sv))
                res.count("evaluations", checks + 2)
                if not any(m == "add_lease" for (_, m, _) in seen):
                    res.violation("grid:no-add-lease-seen", {"t": "grid", "what": what, "variant": variant}, "check(add_lease=True) sent no add_lease")
            else:
                b = lib_mut.create(g, what, b"contents %d" % variant)
                node = b[0][1]
                g.wait(node.overwrite(MutableData(b"second %d" % variant)))
                g.quiesce()
                # the other publishers: an in-place partial update (Publish.update for MDMF), a modify() round and a repair
                bv = g.wait(node.get_best_mutable_version())
                if bv and bv[0][0] == "ok":
                    g.wait(bv[0][1].update(MutableData(b"XY"), 3))
                    g.quiesce()
                g.wait(node.modify(lambda old, sm, first: old + b"!"))
                g.quiesce()
                cr = g.wait(node.check_and_repair(Monitor()))
                g.quiesce()
                u = node.get_cap()
                wk, si = u.writekey, u.get_storage_index()
                checks = 0
                if L.ssk_storage_index(L.ssk_readkey(wk)) != si or u.readkey != L.ssk_readkey(wk):
                    res.violation("grid:ssk-chain", {"t": "grid", "what": what, "variant": variant}, "writekey -> readkey -> storage index of a real mutable file differs from the specification")
                for (sv, meth, args) in seen:
                    peerid = g.ids[sv]
                    if meth == "slot_testv_and_readv_and_writev":
                        checks += 1
                        wsi, (we, rs, cs) = args[0], args[1]
                        if wsi != si or we != L.ssk_write_enabler(wk, peerid):
                            res.violation("grid:write-enabler", {"t": "grid", "what": what, "variant": variant}, "write enabler sent to server %d is not H(WRITE_ENABLER_MASTER(writekey), nodeid)" % sv)
                        if rs != L.renewal_secret_chain(lease_secret, si, peerid) or cs != L.cancel_secret_chain(lease_secret, si, peerid):
                            res.violation("grid:lease-secret:slot_testv_and_readv_and_writev", {"t": "grid", "what": what, "variant": variant}, "mutable write to server %d carried lease secrets outside the specified chain" % sv)
                res.count("evaluations", checks + 1)
                if not checks:
                    res.violation("grid:no-writes-seen", {"t": "grid", "what": what, "variant": variant}, "no mutable write observed")
            res.count("cases")
            res.count("nontrivial")
            res.count("family:grid-" + what)
            boot.R.take_errors(); boot.take_logged()
        finally:
            g.close()
    return res


def tahoe_uri_from_string(cap):
    from allmydata import uri as _u
    return _u.from_string(cap)


def trivial(case):
    vals = [v for v in case.get("args", [])] + [case.get(k) for k in ("key", "lease_secret", "si", "data", "writekey", "a", "b", "tag")]
    return not any(isinstance(v, bytes) and v for v in vals) and case["t"] not in ("kat", "leasekat") and case.get("c") != "rsa"


def _chunk(chunk):
    res = common.Result()
    for case in chunk:
        bad, n = run_case(case)
        res.count("evaluations", n)
        res.count("cases")
        res.count("family:%s" % (case.get("c") or case.get("f") or case["t"]))
        if not trivial(case):
            res.count("nontrivial")
        for sig, msg in bad:
            res.violation(sig, case, msg)
    return res


def replay(case):
    if case.get("t") == "grid":
        r = _grid_chunk([(case["what"], case["variant"])], 0)
        return [(v["sig"], v["msg"]) for v in r.violations]
    if "seeds" in case:
        case["seeds"] = list(case["seeds"])
    return run_case(case)[0]


def run(tier, seed):
    n_ref = L.selfcheck()
    THOROUGH[0] = (tier == "thorough")
    cases = [{"t": "kat", "i": i} for i in range(len(L.KATS))]
    cases += [{"t": "leasekat", "i": i} for i in range(len(L.LEASE_CHAIN_KATS))]
    cases += func_cases(seed, tier)
    cases += chain_cases(seed, tier)
    res = common.pmap(_chunk, cases)
    res.merge(common.pmap(_grid_chunk, [(w, v) for w in ("immutable", "SDMF", "MDMF") for v in range(2 if tier == "quick" else 6)], (seed,)))
    for c in (cases[40], cases[len(cases) // 2], cases[-1]):
        res.sample(c)
    fams = {k[7:]: v for k, v in res.counts.items() if k.startswith("family:")}
    cov = {
        "evaluations": res.counts.get("evaluations", 0),
        "distinct_nontrivial": res.counts.get("nontrivial", 0),
        "exhaustive": True,
        "cases": res.counts.get("cases", 0),
        "families": fams,
        "distinct_families": len(fams),
        "reference_vectors_replayed": n_ref,
        "rule": "full product of the argument alphabets (documented length in {00,ff,counting,seed-derived} (thorough: + 55, aa, descending, second seed-derived) +/- 1 byte where accepted) for every key/secret derivation function of hashutil, the tagged-hash primitives, and 8 end-to-end chains through uri / SecretHolder / MutableFileNode / Checker / Tahoe2ServerSelector with stub servers / upload.Data / derive_mutable_keys / Retrieve._decrypt_segment / dirnode; evaluations = byte-for-byte comparisons with the hashlib reference; non-trivial = at least one non-empty secret/key/data input",
    }
    return res, cov


MANIFEST = {
    "engine": "E",
    "technique": "differential exhaustive enumeration: every derivation function and end-to-end secret chain over the full product of small input alphabets against a hashlib-only implementation of the specification pinned by published vectors",
    "text": "An independent hashlib-only implementation of the tagged SHA-256d derivations (written from docs/specifications and replayed against the project's published known-answer vectors) is compared byte for byte with the real code: every key/secret function of hashutil over the full product of its argument alphabets, and the chains client secret -> file secret -> per-server lease secret (MutableFileNode, immutable Checker, upload server selector against stub storage servers), write key -> read key -> storage index (all cap classes), write enabler, data key, RSA key -> write key/fingerprint, convergent key -> storage index, and directory child-cap encryption. The grid half covers create, overwrite, in-place update, modify and check-and-repair.",
    "note": "Finite alphabets: detects structural mistakes (tag, order, truncation, netstring, wrong seed), which do not depend on the input. The values that reach real storage servers during a real immutable upload, check(add_lease=True) and SDMF/MDMF create, overwrite, in-place update, modify and check-and-repair on the virtual grid (lease secrets, write enabler, storage index) are compared with the same reference.",
}
