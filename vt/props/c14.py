"""C14  Mutable check and repair preserve the newest content  (Engine E over Engine G, fault enumeration).

A 2-of-3 file on 3 servers and a 2-of-4 file on 4 servers (SDMF and MDMF, one share per server) are
really published four times (v1..v4); a competing version v3' (same seqnum as v3, other contents and
root hash) is published by a second writer on a grid restored from the disk snapshot taken after v2.
EVERY assignment
    slot -> { v3, v2 (older), v3' (competing), v4 (newer), missing,
              bad-signature (v3 share, signed prefix damaged: visible to every servermap update),
              bad-block (v3 share, one block byte damaged: visible only to verify=True),
              [2-of-3: signature-field (v3 share, the signature bytes damaged, prefix intact);
               thorough: bad-privkey (v3 share, encrypted private key damaged);
               foreign-blocks (v3 share whose blocks and block hash tree are those of the v4 share:
               self-consistent, but not under the signed root hash)] }
is written to real servers (2-of-3 also with a SECOND copy of share 0, in any of the four versions, on
a fourth server: more share instances than N; and a 2-of-6 file with every arrangement of two shares each of v3,
v3' and v2: THREE recoverable versions at once), then   check(verify in {F,T})  ->  repair(force in {F,T})   or
check_and_repair(verify) is run on a node built from the write-cap (thorough: check also under
every schedule with <= 1 deviation).
Oracle from ground truth (independent parser of the files on disk):
 * healthy  <=>  exactly one version is present, on N distinct share numbers, none damaged (damage
   that only verify=True can see is not judged when verify=False);
 * recoverable <=> some version has >= k shares (same visibility rule);
 * repair without force, when a version newer than the best recoverable one exists on < k shares or
   two recoverable versions share the top seqnum: must not report success and must leave every
   share file byte-identical;
 * no recoverable version: repair must not report success;
 * a repair that reports success: a fresh client reads exactly the contents of the best recoverable
   version as it was before the repair, the version it reads sits on N distinct share numbers on
   disk, and a fresh verify=True check finds no damaged share.
"""
import gc
import itertools

from .. import boot, common, grid, lib_imm, lib_mut
from .. import lib_mshare as ms
from ..lib_mut import pattern
from allmydata.mutable.publish import MutableData
from allmydata.monitor import Monitor

LEVEL = "fault_enumeration"
ASSUMPTIONS = [
    "k = 2; N = S in {3, 4}, one share per server (so every slot is a distinct share number), plus 2-of-3 on 4 servers with a duplicate of share 0; files of 25-29 bytes (MDMF: 3 segments of 12 bytes)",
    "'competing versions with the same sequence number' is judged for recoverable competitors (an unrecoverable same-seqnum fragment cannot be picked; those repairs are counted, not judged)",
    "which error a refused repair raises is not judged; servers are honest and available (unavailable servers: C11)",
]
K = 2
STATES = ["v3", "v2", "v3x", "v4", "missing", "badsig", "badblock"]
HIDDEN = ("badblock", "badprivkey", "short", "foreignblocks")
_PREP = {}


def prepare(fmt, n, seed, S=None):
    S = S or n
    key = (fmt, n, seed, S)
    if key in _PREP:
        return _PREP[key]
    boot.urandom.reset(seed, b"c14-prep")
    ms.reset_clock()
    cs = {j: pattern(10 * seed + j, 24 + j) for j in (1, 2, 3, 4)}
    cs["3x"] = pattern(10 * seed + 8, 26)
    g = grid.Grid(S, client_kw=dict(k=K, n=n, happy=1))
    snaps = {}
    try:
        b = lib_mut.create(g, fmt, cs[1])
        assert b and b[0][0] == "ok", b
        node = b[0][1]
        si = node.get_storage_index()
        cap_w, cap_r = node.get_uri(), node.get_readonly_uri()
        for j in (2, 3, 4):
            b = g.wait(node.overwrite(MutableData(cs[j])))
            assert b and b[0][0] == "ok", b
            g.quiesce()
            snaps[j] = g.save_disk()
    finally:
        g.close()
    boot.urandom.reset(seed, b"c14-prep-competitor")
    g = grid.Grid(S, client_kw=dict(k=K, n=n, happy=1), restore=snaps[2])
    try:
        node = g.clients[0].create_node_from_uri(cap_w)
        b = g.wait(node.overwrite(MutableData(cs["3x"])))
        assert b and b[0][0] == "ok", b
        g.quiesce()
        snaps["3x"] = g.save_disk()
    finally:
        g.close()
    boot.take_logged()
    boot.R.take_errors()
    slots = {}
    for name, j in (("v2", 2), ("v3", 3), ("v4", 4), ("v3x", "3x")):
        slots[name] = {sh: (sv, blob) for (sv, sh), blob in ms.slots_of(snaps[j], si).items()}
        assert sorted(slots[name]) == list(range(n)), (name, sorted(slots[name]))
    server = {sh: slots["v3"][sh][0] for sh in range(n)}
    for name in slots:
        assert all(slots[name][sh][0] == server[sh] for sh in range(n))
    vid = {name: ms.version_id(ms.share_data(slots[name][0][1])) for name in slots}
    assert vid["v2"][0] == 2 and vid["v3"][0] == 3 and vid["v4"][0] == 4 and vid["v3x"][0] == 3 and vid["v3x"] != vid["v3"], vid
    spare = [sv for sv in range(S) if sv not in server.values()]
    out = {"si": si, "cap_w": cap_w, "cap_r": cap_r, "server": server, "vid": vid, "spare": spare,
           "blob": {name: {sh: slots[name][sh][1] for sh in range(n)} for name in slots},
           "content": {vid["v2"]: cs[2], vid["v3"]: cs[3], vid["v4"]: cs[4], vid["v3x"]: cs["3x"]}}
    _PREP[key] = out
    return out


def build(prep, sh, state):
    if state == "missing":
        return None
    if state in ("v2", "v3", "v3x", "v4"):
        return prep["blob"][state][sh]
    blob = prep["blob"]["v3"][sh]
    d = ms.share_data(blob)
    f = ms.fields(d)
    if state == "badsig":
        d = ms.flip(d, f["root_hash"][0] + 5)          # signed prefix damaged: the signature no longer matches
    elif state == "sigfield":
        d = ms.flip(d, f["signature"][0] + 7)          # the signature bytes themselves
    elif state == "badblock":
        last = max(int(nm[5:]) for nm in f if nm.startswith("block") and nm[5:].isdigit())
        d = ms.flip(d, f["block%d" % last][0] + 1)
    elif state == "foreignblocks":
        # every block (MDMF: with its salt) AND the whole block hash tree taken from the v4 share of the
        # same share number (same block size): self-consistent, but not what the signed root hash covers
        d4 = ms.share_data(prep["blob"]["v4"][sh])
        f4 = ms.fields(d4)
        if (f["share_data"], f["block_hash_tree"]) != (f4["share_data"], f4["block_hash_tree"]):
            raise ValueError("v3/v4 layouts differ")
        for nm in ("share_data", "block_hash_tree"):
            d = ms.put(d, f[nm], d4[f4[nm][0]:f4[nm][1]])
    elif state == "badprivkey":
        d = ms.flip(d, f["enc_privkey"][0] + 40)
    elif state == "short":
        # the share file ends early, after everything the servermap update looks at (prefix, key,
        # signature): SDMF inside the second node of the share hash chain, MDMF inside the block hash tree
        d = d[:f["share_hash_chain"][0] + 43] if d[0] == 0 else d[:f["block_hash_tree"][0] + 40]
    else:
        raise ValueError(state)
    return ms.container(blob, d)


def truth(prep, assign, verify, extra=None):
    """A share whose signature FIELD is damaged while its signed prefix equals that of a sibling with
    a good signature is accepted or rejected by the servermap depending on which answer arrives
    first (signatures are verified once per version); the statement is silent about it, so both
    readings are computed and only what they agree on is judged."""
    if "sigfield" not in assign:
        t = _truth1(prep, assign, verify, extra)
        t["bests"] = [t["best"]]
        return t
    a = _truth1(prep, ["v3" if s == "sigfield" else s for s in assign], verify, extra)
    b = _truth1(prep, ["badsig" if s == "sigfield" else s for s in assign], verify, extra)
    out = dict(a)
    out["judged_healthy"] = a["judged_healthy"] and b["judged_healthy"] and a["healthy"] == b["healthy"]
    out["judged_recoverable"] = a["judged_recoverable"] and b["judged_recoverable"] and a["recoverable"] == b["recoverable"]
    out["must_refuse"] = a["must_refuse"] and b["must_refuse"]
    out["newer_unrecoverable"] = a["newer_unrecoverable"] if b["newer_unrecoverable"] else []
    out["unrec_competitor"] = a["unrec_competitor"] or b["unrec_competitor"]
    out["bests"] = [a["best"], b["best"]]
    return out


def _truth1(prep, assign, verify, extra=None):
    """what a checker can know.  returns dict(versions {vid: set(shnum)}, best, healthy, recoverable,
    must_refuse, judged_healthy, judged_recoverable)"""
    n = len(assign)
    vers1, hidden = {}, {}
    for sh, st in enumerate(assign):
        if st in ("missing", "badsig"):
            continue
        v = prep["vid"]["v3" if st in HIDDEN else st]
        vers1.setdefault(v, set()).add(sh)
        if st in HIDDEN:
            hidden.setdefault(v, set()).add(sh)
    if extra:
        # a second copy of share 0, in this version, on a server of its own
        vers1.setdefault(prep["vid"][extra], set()).add(0)
        if hidden.get(prep["vid"][extra]):
            hidden[prep["vid"][extra]].discard(0)

    def summarise(vers):
        rec = sorted(v for v, shs in vers.items() if len(shs) >= K)
        best = rec[-1] if rec else None
        healthy = len(vers) == 1 and best is not None and len(vers[best]) == n
        return rec, best, healthy
    rec1, best1, healthy1 = summarise(vers1)
    # the deep truth: damaged shares do not count at all
    deep = {v: shs - hidden.get(v, set()) for v, shs in vers1.items()}
    deep = {v: shs for v, shs in deep.items() if shs}
    recd, bestd, healthyd = summarise(deep)
    healthyd = healthyd and not hidden
    out = {"best": best1, "best_deep_ok": best1 is not None and len(deep.get(best1, ())) >= K}
    if verify:
        # verify reads every share of the best version of the servermap
        vers2 = {v: (shs - hidden.get(v, set()) if v == best1 else set(shs)) for v, shs in vers1.items()}
        found = bool(best1 is not None and hidden.get(best1))
        vers2 = {v: shs for v, shs in vers2.items() if shs}
        rec2, best2, healthy2 = summarise(vers2)
        out["healthy"] = healthy2 and not found
        out["recoverable"] = bool(rec2)
        # a damaged encrypted private key is looked at only until the first good one was seen
        out["judged_healthy"] = "badprivkey" not in assign
        # hidden damage in a version that is not the best one is not visited by verify, but then the
        # best one is recoverable anyway
        out["judged_recoverable"] = "badprivkey" not in assign
    else:
        out["healthy"] = healthy1
        out["recoverable"] = bool(rec1)
        out["judged_healthy"] = healthy1 == healthyd
        out["judged_recoverable"] = bool(rec1) == bool(recd)
    top = max([v[0] for v in rec1], default=None)
    newer = [v for v, shs in vers1.items() if len(shs) < K and top is not None and v[0] > top]
    tie = [v for v in rec1 if v[0] == top]
    out["newer_unrecoverable"] = sorted(v[0] for v in newer)
    out["tie"] = len(tie) > 1
    out["must_refuse"] = bool(newer) or len(tie) > 1
    out["unrec_competitor"] = any(len(shs) < K and v[0] == top for v, shs in vers1.items())
    return out


def execute(case, prefix, seed):
    if case.get("cpu") == "async":
        with ms.async_cpu():
            return _execute(case, prefix, seed)
    return _execute(case, prefix, seed)


def _execute(case, prefix, seed):
    fmt, n, assign, verify, mode = case["fmt"], case["n"], case["assign"], case["verify"], case["mode"]
    S = case.get("S") or n
    extra = case.get("extra")
    prep = prepare(fmt, n, seed + 1000 * case.get("pseed", 0), S)      # pseed: another file (other keys, contents, hashes)
    si = prep["si"]
    ch = grid.Chooser(prefix)
    boot.urandom.reset(seed, b"c14-exec")
    ms.reset_clock()
    g = grid.Grid(S, nclients=2, chooser=ch, client_kw=dict(k=K, n=n, happy=1))
    g.sched.batch = bool(case.get("batch"))     # turn granularity, see grid.Sched.batch
    viol, obs = [], {}
    ms.bound_pending(g)
    try:
        place = case.get("place")
        if place:
            # "spread": share number i sits on the server at position place[i] of the permuted server
            # list (S > 2k servers: a MODE_READ servermap update can stop before it has seen them all)
            perm = [g.ids.index(s_.get_serverid()) for s_ in g.clients[0].storage_broker.get_servers_for_psi(si)]
            for sv, sh_ in [(sv_, sh_) for (sv_, p_) in g.share_files() for sh_ in [p_.rsplit("/", 1)[1]] if sh_.isdigit()]:
                ms.write_share(g, si, sv, int(sh_), None)
            for sh, st in enumerate(assign):
                blob = build(prep, sh, st)
                if blob is not None:
                    ms.write_share(g, si, perm[place[sh]], sh, ms.rehome(blob, perm[place[sh]], prep["cap_w"]))
        else:
            for sh, st in enumerate(assign):
                ms.write_share(g, si, prep["server"][sh], sh, build(prep, sh, st))
        if extra:
            ms.write_share(g, si, prep["spare"][0], 0, ms.rehome(prep["blob"][extra][0], prep["spare"][0], prep["cap_w"]))
        t = truth(prep, assign, verify, extra)
        desc = "%s 2-of-%d slots=%r%s%s verify=%r %s%s" % (fmt, n, assign, " at positions %r of the permuted list of %d servers" % (place, S) if place else "", " + a second copy of share 0 in state %s on a %dth server" % (extra, S) if extra else "", verify, mode, " (CPU-pool results delivered in a later reactor turn, as in production)" if case.get("cpu") == "async" else "")
        v3_is_best = bool(t["bests"]) and all(b == prep["vid"]["v3"] for b in t["bests"])
        best_hidden = sorted(sh for sh, st in enumerate(assign) if st in HIDDEN and st != "badprivkey") if v3_is_best else []
        node = g.clients[0].create_node_from_uri(prep["cap_w"])
        before = g.save_disk()

        def judge_check(cr, tag):
            h, r = bool(cr.is_healthy()), bool(cr.is_recoverable())
            obs[tag] = "healthy=%s recoverable=%s" % (h, r)
            missed = []
            if verify and best_hidden:
                listed = set(sh for (_s, _si, sh) in cr.get_corrupt_shares())
                # (with a second copy of share 0 only one of the two copies is ever read: not judged here)
                missed = [sh for sh in best_hidden if sh not in listed and not (extra and sh == 0)]
                if missed:
                    viol.append(("verify-misses-damaged-share", "%s: %s with verify=True lists corrupt shares %r; shares %r of the best version are damaged too (states %r) and were neither read nor reported; it reports healthy=%s count-good=%d recoverable=%s, ground truth healthy=%s recoverable=%s" % (desc, tag, sorted(listed), missed, [assign[sh] for sh in missed], h, cr.get_share_counter_good(), r, t["healthy"], t["recoverable"])))
            if t["judged_healthy"] and h != t["healthy"] and not missed:
                sig = "reported-healthy-but-is-not" if h else "reported-unhealthy-but-is-healthy"
                viol.append((sig, "%s: %s says healthy=%s; ground truth: %s (summary %r)" % (desc, tag, h, t["healthy"], cr.get_summary())))
            if t["judged_recoverable"] and r != t["recoverable"] and not missed:
                sig = "reported-recoverable-but-is-not" if r else "reported-unrecoverable-but-is-recoverable"
                viol.append((sig, "%s: %s says recoverable=%s; ground truth: %s" % (desc, tag, r, t["recoverable"])))

        def outcome_of(b):
            if not b:
                return "hang", None
            if b[0][0] == "ok":
                return "ok", b[0][1]
            return "err:" + lib_imm.failure_name(b[0][1]), b[0][1]

        success = False
        forced = True
        try:
            if mode == "car":
                forced = False
                kind, val = outcome_of(g.wait(node.check_and_repair(Monitor(), verify=verify), explore=True))
                g.quiesce()
                obs["car"] = kind
                if kind == "hang":
                    viol.append(("check-and-repair-never-completes", desc))
                elif kind == "err:HarnessError":
                    viol.append(("retrieve-spins-on-damaged-duplicate-share", "%s: check_and_repair() never returns to the reactor: %s" % (desc, val.getErrorMessage()[:160])))
                elif kind == "ok":
                    judge_check(val.get_pre_repair_results(), "check_and_repair.pre")
                    obs["repair"] = "attempted=%s successful=%s" % (val.get_repair_attempted(), val.get_repair_successful() if val.get_repair_attempted() else None)
                    success = bool(val.get_repair_attempted() and val.get_repair_successful())
            else:
                forced = (mode == "force")
                kind, cr = outcome_of(g.wait(node.check(Monitor(), verify=verify), explore=True))
                g.quiesce()
                if kind != "ok":
                    obs["check"] = kind
                    viol.append(("check-failed:" + kind, "%s: check() did not produce results: %s" % (desc, cr.getErrorMessage()[:300] if cr is not None else "never fired")))
                else:
                    judge_check(cr, "check")
                    if g.save_disk() != before:
                        viol.append(("check-changed-shares", desc))
                    kind, rr = outcome_of(g.wait(node.repair(cr, force=forced), explore=False))
                    g.quiesce()
                    if kind == "err:HarnessError":
                        viol.append(("retrieve-spins-on-damaged-duplicate-share", "%s: the download inside repair() never returns to the reactor (it re-activates the same damaged share for ever, one advise_corrupt_share call per round): %s" % (desc, rr.getErrorMessage()[:160])))
                    if kind == "ok":
                        success = bool(rr.get_successful())
                        obs["repair"] = "ok successful=%s" % success
                    else:
                        obs["repair"] = kind
                        if kind == "hang":
                            viol.append(("repair-never-completes", desc))
        except grid.HarnessError as e:
            viol.append(("check-or-repair-livelock", "%s: %s" % (desc, str(e)[:200])))
        after = g.save_disk()
        changed = after != before
        bests = [b for b in t["bests"] if b is not None]
        if not bests and success:
            viol.append(("repair-success-without-recoverable-version", "%s: repair reported success although no version has %d valid shares" % (desc, K)))
        if not forced and t["must_refuse"]:
            why = "a newer unrecoverable version (seqnums %r)" % (t["newer_unrecoverable"],) if t["newer_unrecoverable"] else "two recoverable versions with the same seqnum"
            if changed:
                lost = sorted(k for k in before if after.get(k) != before[k])
                viol.append(("unforced-repair-discarded-newer-version" if t["newer_unrecoverable"] else "unforced-repair-picked-between-competing-versions",
                             "%s: repair without force ran although there is %s; share files changed: %r (repair outcome %s)" % (desc, why, lost, obs.get("repair"))))
            elif success:
                viol.append(("unforced-repair-reported-success-when-it-must-refuse", "%s: %s; outcome %s" % (desc, why, obs.get("repair"))))
            obs["refusal"] = "refused" if not changed and not success else "NOT-refused"
        elif success and bests:
            if not forced and t["unrec_competitor"]:
                obs["note"] = "unforced repair over an unrecoverable same-seqnum competitor"
            wants = [prep["content"][b] for b in bests]
            n2 = g.clients[1].create_node_from_uri(prep["cap_r"])
            b3 = lib_mut.download(g, n2)
            disk = ms.slots_of(after, si)
            vers = {}
            for (sv, sh), blob in disk.items():
                vers.setdefault(ms.version_id(ms.share_data(blob)), set()).add(sh)
            newest = max(vers, key=lambda v: (v[0] if v else -1)) if vers else None
            if not b3 or b3[0][0] != "ok":
                viol.append(("unreadable-after-successful-repair", "%s: repair reported success; a fresh client's read fails: %s" % (desc, b3 and lib_imm.failure_name(b3[0][1]))))
            elif b3[0][1] not in wants:
                which = [k for k, c in prep["content"].items() if c == b3[0][1]]
                viol.append(("contents-changed-by-repair", "%s: best recoverable version before the repair was seq %d; after the successful repair a fresh client reads %s" % (desc, bests[0][0], "the contents of seq %d%s" % (which[0][0], " (the competing version)" if which[0] not in bests and which[0][0] == bests[0][0] else "") if which else "%d unknown bytes" % len(b3[0][1]))))
            if newest is None or len(vers[newest]) < n:
                viol.append(("repaired-version-not-on-N-distinct-shares", "%s: after the successful repair the newest version (seq %s) is on share numbers %r of %d; all versions on disk: %r" % (desc, newest and newest[0], sorted(vers.get(newest, ())), n, sorted((v[0], sorted(s)) for v, s in vers.items()))))
            kind, cr2 = outcome_of(g.wait(n2.check(Monitor(), verify=True)))
            if kind == "ok":
                obs["post-check"] = "healthy=%s" % bool(cr2.is_healthy())
                if cr2.get_corrupt_shares():
                    viol.append(("damaged-share-left-after-successful-repair", "%s: %r" % (desc, [(str(s.get_name(), "ascii"), sh) for (s, _si, sh) in cr2.get_corrupt_shares()])))
            else:
                obs["post-check"] = kind
        elif changed and not success:
            obs["note2"] = "failed repair changed shares"
        obs["events"] = len(g.sched.log)
        for e in boot.R.take_errors():
            viol.append(("exception-in-timer:" + type(e.value).__name__, e.getTraceback()[-400:]))
        boot.take_logged()
    finally:
        g.close()
    return ch.trace, viol, obs


def chunk(cases, seed, d_bound):
    res = common.Result()
    gc.freeze()      # forked worker: keep the collector off the pages inherited from the parent
    for case in cases:
        gate = {}

        def ex(prefix):
            trace, viol, obs = execute(case, prefix, seed)
            return trace, (viol, obs)

        def on_exec(prefix, trace, info):
            viol, obs = info
            res.count("executions")
            res.count("remote_calls", obs.get("events", 0))
            res.distinct.add(tuple(sorted((k, v) for k, v in obs.items() if k != "events")))
            for k in ("check", "car", "check_and_repair.pre", "repair", "refusal", "post-check", "note", "note2"):
                if k in obs:
                    res.count("outcome:%s:%s" % (k, obs[k]))
            for sig, msg in viol:
                res.violation(sig, {"case": case, "prefix": prefix}, msg + (" schedule=%r" % (prefix,) if any(prefix) else ""))
            if any(prefix) and not gate:
                gate["x"] = 1
                t2, v2, o2 = execute(case, prefix, seed)
                if o2 != obs:
                    raise grid.HarnessError("nondeterministic replay %r %r: %r vs %r" % (case, prefix, obs, o2))
                res.count("determinism_gates")
            if not any(prefix) and obs.get("refusal") and res.counts.get("sampled", 0) < 2:
                res.count("sampled")
                res.sample({"case": case, "observed": obs})
        grid.explore_subtree(ex, [], d_bound, 0, on_exec, max_exec=400)
        res.count("layouts_x_operations")
    return res


def cases_for(fmt, n, states, modes, verifies=(False, True), cpu="sync", extras=(None,)):
    out = []
    for combo in itertools.product(states, repeat=n):
        for extra in extras:
            for verify in verifies:
                for mode in modes:
                    c = {"fmt": fmt, "n": n, "assign": list(combo), "verify": verify, "mode": mode, "cpu": cpu}
                    if extra:
                        c.update(extra=extra, S=n + 1)
                    out.append(c)
    return out


def spread_cases(fmt, n, S, states, modes, verifies):
    out = []
    for place in itertools.combinations(range(S), n):
        for combo in itertools.product(states, repeat=n):
            for verify in verifies:
                for mode in modes:
                    out.append({"fmt": fmt, "n": n, "S": S, "assign": list(combo), "place": list(place), "verify": verify, "mode": mode, "cpu": "sync"})
    return out


def replay(case):
    trace, viol, obs = execute(case["case"], case["prefix"], boot.SEED)
    return viol


def run(tier, seed):
    res = common.Result()
    desc = []
    if tier == "quick":
        plan = [("SDMF", 3, STATES + ["short", "foreignblocks"], ("noforce@async",), 0),
                ("SDMF", 3, STATES + ["sigfield", "short"], ("noforce", "force", "car"), 0), ("MDMF", 3, STATES, ("noforce", "force"), 0),
                ("SDMF", 3, ["v3", "v2", "v3x", "v4", "missing", "badblock"], ("noforce+extra", "force+extra"), 0),
                ("SDMF", 4, [s for s in STATES if s != "badsig"], ("noforce",), 0), ("MDMF", 4, ["v3", "v2", "v3x", "v4", "missing"], ("force",), 0)]
    else:
        plan = [(f, 3, STATES + ["short", "badprivkey"], ("noforce@async", "car@async"), 0) for f in ("SDMF", "MDMF")]
        plan += [(f, 3, STATES + ["sigfield", "short", "badprivkey", "foreignblocks"], ("noforce", "force", "car"), 1) for f in ("SDMF", "MDMF")]
        plan += [(f, 4, STATES, ("noforce", "force", "car"), 0) for f in ("SDMF", "MDMF")]
        plan += [(f, 3, STATES, ("noforce+extra", "force+extra", "car+extra"), 0) for f in ("SDMF", "MDMF")]
    for d in sorted(set(p[4] for p in plan)):
        cases = []
        for (fmt, n, states, modes, dd) in plan:
            if dd != d:
                continue
            prepare(fmt, n, seed)
            if modes[0].endswith("@async"):
                cs = cases_for(fmt, n, states, tuple(m.split("@")[0] for m in modes), verifies=(True,), cpu="async")
            elif modes[0].endswith("+extra"):
                prepare(fmt, n, seed, n + 1)
                cs = cases_for(fmt, n, states, tuple(m.split("+")[0] for m in modes), extras=("v2", "v3", "v3x", "v4"))
            else:
                cs = cases_for(fmt, n, states, modes)
            # v4 on >= k slots makes v4 the best version: kept (the oracle is general), nothing excluded
            cases += cs
            if d == 0 and n == 3 and not modes[0].endswith("@async"):
                # several answers per reactor turn (grid.Sched.batch): every second case again
                cases += [dict(c, batch=True) for c in cs[::2]]
                desc.append("  + %d of them with several answers delivered per reactor turn" % len(cs[::2]))
            desc.append("%s 2-of-%d: %d^%d layouts x verify{F,T} x %s = %d at d<=%d" % (fmt, n, len(states), n, "/".join(modes), len(cs), d))
        if d == 0:
            # spread placements on 7 servers: versions v3 / v2 per share, every choice of 4 positions
            for fmt in (("SDMF",) if tier == "quick" else ("SDMF", "MDMF")):
                prepare(fmt, 4, seed, 7)
                sp = spread_cases(fmt, 4, 7, ["v3", "v2"], ("noforce", "car") if tier == "quick" else ("noforce", "force", "car"), (False,) if tier == "quick" else (False, True))
                cases += sp
                desc.append("%s 2-of-4 on 7 servers: C(7,4) placements over the permuted list x {v3,v2}^4 x modes = %d" % (fmt, len(sp)))
        if d == 0:
            # THREE recoverable versions at once: 2-of-6 on 6 servers, every arrangement of two shares each of
            # v3, v3' (competing, same seqnum) and v2 (older) [thorough: also with v4 / missing in place of v2]
            for fmt in (("SDMF",) if tier == "quick" else ("SDMF", "MDMF")):
                # (several files: the order in which the code under test meets the versions of a servermap is a set
                # order over their hashes, so it differs from file to file)
                pseeds = tuple(range(10)) if tier == "quick" else tuple(range(14))
                for ps in pseeds:
                    prepare(fmt, 6, seed + 1000 * ps)
                trios = [("v3", "v3x", "v2")] if tier == "quick" else [("v3", "v3x", "v2"), ("v3", "v3x", "v4"), ("v3", "v3x", "missing")]
                six = []
                for trio in trios:
                    for combo in sorted(set(itertools.permutations(trio * 2))):
                        for mode in (("noforce", "car") if tier == "quick" else ("noforce", "force", "car")):
                            for ps in (pseeds if trio[2] == "v2" else (0,)):
                                if ps and combo != tuple(sorted(combo)) and combo != tuple(sorted(combo, reverse=True)):
                                    continue          # the other files: two arrangements each
                                six.append({"fmt": fmt, "n": 6, "assign": list(combo), "verify": False, "mode": mode, "cpu": "sync", "pseed": ps})
                cases += six
                desc.append("%s 2-of-6: every arrangement of two shares each of three versions x modes = %d" % (fmt, len(six)))
        res.merge(common.pmap(chunk, cases, (seed, d), chunks=max(1, min(len(cases), common.NWORKERS * 8))))
    execs = res.counts.get("executions", 0)
    cov = {
        "evaluations": execs,
        "distinct_nontrivial": res.counts.get("layouts_x_operations", 0),
        "exhaustive": True,
        "distinct_observation_vectors": len(res.distinct),
        "remote_calls_delivered": res.counts.get("remote_calls", 0),
        "outcomes": {k[8:]: v for k, v in sorted(res.counts.items()) if k.startswith("outcome:")},
        "rule": "distinct_nontrivial = (layout, verify, operation) triples, each a different assignment of share states to slots run through check and repair; evaluations additionally count schedules; " + "; ".join(desc),
    }
    return res, cov


MANIFEST = {
    "engine": "E over G",
    "technique": "exhaustive enumeration of share-state assignments (best / older / competing same-seqnum / newer fragment / missing / damaged prefix / damaged block / damaged signature field / truncated / damaged private key, plus a duplicated share number) built from captured share files of really published versions, each run through the real MutableChecker, Repairer and MutableCheckAndRepairer with verify in {F,T} and force in {F,T}; verdicts compared with ground truth computed by an independent parser of the files on disk",
    "text": "Every layout is written to real storage servers; check(verify) then repair(force), or check_and_repair(verify), is executed on a node built from the write-cap. Healthy must hold exactly when one version is present on N distinct undamaged share numbers; an unforced repair must change nothing when a newer unrecoverable version or two recoverable versions of equal seqnum exist; a repair that reports success must leave the former best version's contents readable by a fresh client from N distinct share numbers with no damaged share left. Further: 2-of-4 files on 7 servers with the four shares at every choice of positions of the permuted server list and versions {v3,v2}^4, so that a MODE_READ servermap update can conclude before it has seen every share. A 2-of-6 family holds two shares each of v3, a competing v3' and an older v2 (three recoverable versions) over 10 different files.",
    "note": "k=2, N in {3,4}; the competing version is produced by a second writer on a grid restored from the disk snapshot taken before v3; thorough adds schedules with <= 1 deviation on the check and a production-like mode in which CPU-pool results arrive in a later reactor turn.",
}
