"""C26  Garbage collection deletes exactly the expired shares  (Engine E, exhaustive grid).

Grid: expire.enabled in {F,T} x policy in {age (nominal 31 d), age+override 1 d, age+override
60 d, cutoff-date in {now-200 d, now-31 d, now-12 h}} x expire share types in {none, mutable,
immutable, both} x share kind in {immutable, mutable} x EVERY multiset of <= 3 (quick) / <= 5
(thorough) leases whose last-renewal times are drawn from
    {now-400 d, T*-1 s, T*, T*+1 s, now-1 d}         T* = the policy's threshold renewal time
      (age: now - duration;  cutoff: the cutoff date).
For every (configuration, share kind) a REAL StorageServer with that configuration is built in
a fresh directory; one share per lease multiset is created through the server API with the
server clock set to each lease's renewal time (distinct secrets per lease, one bucket per
share); time.time() is set to `now`; ONE full cycle (1024 prefixes, no time-slice
interruption) of the server's real LeaseCheckingCrawler is run.  Zero-lease shares and every
failing case are (re-)run alone on their own server.

Oracle = the documented predicate (docs/garbage-collection.rst, and the statement):
    lease expired  <=>  age mode: renewal + (override or 31 d) < now ;  cutoff: renewal < cutoff
    share deleted after the cycle  <=>  enabled AND kind in sharetypes AND every lease expired
Shares with ZERO leases: the statement does not decide them ("every lease on it is expired"
is vacuous) -> both behaviours are accepted and counted (ZERO_LEASE_VACUOUS_IS_EXPIRED below
turns the vacuous reading into a demand, for experiments only).
"""
import hashlib
import itertools
import os

from twisted.internet.task import Clock

from .. import boot
from allmydata.storage.common import storage_index_to_dir
from allmydata.storage.immutable import ShareFile
from allmydata.storage.shares import get_share_file
import allmydata.storage.server  # noqa: F401  (imported in the parent so that forked workers inherit it)

from .. import common
from .. import lib_crash as K

LEVEL = "exploration"
ASSUMPTIONS = [
    "one share per bucket; for speed all lease multisets of one (configuration, share kind) live on ONE server and are judged after ONE cycle; every failing case is re-run alone on its own server (same verdict demanded, sig verdict-differs-alone-vs-in-company otherwise) and --replay runs the case alone; buckets holding several shares are not part of this grid",
    "renewal times are the 5 listed points around each policy threshold; leases have distinct secrets (as clients derive them)",
    "lease duration is the fixed 31 days of server.DEFAULT_RENEWAL_TIME; a lease's last-renewal time is what the server itself records (expiration - 31 d)",
    "zero-lease shares: the immutable one is written with ShareFile(create=True) directly, the mutable one through slot_testv_and_readv_and_writev(renew_leases=False); their fate is counted, not judged",
    "one full uninterrupted crawl cycle; interruptions and restarts of the crawler are C27's subject",
]

ZERO_LEASE_VACUOUS_IS_EXPIRED = False

DAY = 86400
NOW = 1100000000
NOMINAL = 31 * DAY
LABELS = ["far", "below", "at", "above", "recent"]     # index = lease label in a case
POLICIES = [
    ["age", None, None],
    ["age", 1 * DAY, None],
    ["age", 60 * DAY, None],
    ["cutoff-date", None, -200 * DAY],
    ["cutoff-date", None, -31 * DAY],
    ["cutoff-date", None, -DAY // 2],
]
SHARETYPES = [[], ["mutable"], ["immutable"], ["mutable", "immutable"]]


def threshold(policy):
    mode, override, cutoff_off = policy
    if mode == "age":
        return NOW - (override if override is not None else NOMINAL)
    return NOW + cutoff_off


def renewal_time(policy, label):
    t = threshold(policy)
    return {"far": NOW - 400 * DAY, "below": t - 1, "at": t, "above": t + 1, "recent": NOW - DAY}[label]


def ref_expired(policy, renew):
    mode, override, cutoff_off = policy
    if mode == "age":
        return renew + (override if override is not None else NOMINAL) < NOW
    return renew < NOW + cutoff_off


def _h(tag):
    return hashlib.sha256(b"c26:" + tag).digest()


def all_cases(tier):
    maxl = 3 if tier == "quick" else 5
    msets = []
    for k in range(maxl + 1):
        msets.extend(list(c) for c in itertools.combinations_with_replacement(range(len(LABELS)), k))
    cases = []
    for enabled in (False, True):
        for policy in POLICIES:
            for st in SHARETYPES:
                for kind in ("immutable", "mutable"):
                    for ms in msets:
                        cases.append({"enabled": enabled, "policy": policy, "sharetypes": st, "kind": kind,
                                      "leases": [LABELS[i] for i in ms]})
    return cases


def _si_of(case, seed):
    return _h(b"si:%d:" % seed + ",".join(case["leases"]).encode() + b":" + case["kind"].encode())[:16]


def _data_of(case, seed):
    return _h(b"data:%d:" % seed + ",".join(case["leases"]).encode())[:20]


def run_shares(cfg, cases, seed=0):
    """cfg = the (enabled, policy, sharetypes) part shared by `cases`.  Builds ONE real server with
    that configuration, one share per case (each in its own bucket), runs one full crawl cycle.
    -> (harness-level violations [(sig,msg)], [observation dict per case])"""
    policy = cfg["policy"]
    mode, override, cutoff_off = policy
    bad = []
    out = [dict() for _ in cases]
    old_offset, old_hook = boot.VT.offset, boot.VT.hook
    with K.Scratch("c26") as base:
        try:
            clk = Clock()
            boot.VT.hook = None
            boot.VT.offset = NOW - boot.R.seconds()
            ss = K.make_server(
                os.path.join(base, "s"), clock=clk,
                expiration_enabled=cfg["enabled"], expiration_mode=mode,
                expiration_override_lease_duration=override,
                expiration_cutoff_date=(NOW + cutoff_off) if cutoff_off is not None else None,
                expiration_sharetypes=tuple(cfg["sharetypes"]))
            paths = []
            for case in cases:
                kind = case["kind"]
                renews = [renewal_time(policy, lab) for lab in case["leases"]]
                si, data = _si_of(case, seed), _data_of(case, seed)
                path = os.path.join(ss.sharedir, storage_index_to_dir(si), "0")
                paths.append(path)
                secrets = [(_h(b"renew:%d:" % i + si), _h(b"cancel:%d:" % i + si)) for i in range(len(renews))]
                # ---- create the share, each lease added with the server clock at its renewal time
                clk.rightNow = float(renews[0] if renews else NOW - 400 * DAY)
                if kind == "immutable":
                    if not renews:
                        sf = ShareFile(path, max_size=len(data), create=True)
                        sf.write_share_data(0, data)
                    else:
                        got, w = ss.allocate_buckets(si, secrets[0][0], secrets[0][1], [0], len(data))
                        w[0].write(0, data)
                        w[0].close()
                else:
                    r0, c0 = secrets[0] if renews else (_h(b"r-unused"), _h(b"c-unused"))
                    ok, _ = ss.slot_testv_and_readv_and_writev(si, (_h(b"we"), r0, c0), {0: ([], [(0, data)], None)}, [],
                                                               renew_leases=bool(renews))
                    assert ok
                for i in range(1, len(renews)):
                    clk.rightNow = float(renews[i])
                    ss.add_lease(si, secrets[i][0], secrets[i][1])
                got_renews = sorted(int(li.get_grant_renew_time_time()) for li in get_share_file(path).get_leases())
                if got_renews != sorted(renews):
                    raise RuntimeError("harness: share has renewal times %r, wanted %r" % (got_renews, sorted(renews)))
            # ---- one full cycle of the real crawler
            lc = ss.lease_checker
            try:
                lc.start_slice()
            except Exception as e:  # noqa
                bad.append(("crawler-raised:" + type(e).__name__, "LeaseCheckingCrawler.start_slice raised %r with %r" % (e, cfg)))
                return bad, None
            if lc.state["last-cycle-finished"] != 0 or lc.state["current-cycle"] is not None:
                bad.append(("cycle-not-finished", "one start_slice() with a constant clock did not finish cycle 0: %r" % (
                    {k: lc.state[k] for k in ("last-cycle-finished", "current-cycle", "last-complete-prefix")},)))
                return bad, None
            sr = lc.get_state()["history"]["0"]["space-recovered"]
            if sr["examined-shares"] != len(cases):
                bad.append(("share-not-examined", "the cycle examined %r shares, expected %d; %r" % (sr["examined-shares"], len(cases), cfg)))
            for case, path, obs in zip(cases, paths, out):
                present = os.path.exists(path)
                obs["deleted"] = not present
                obs["examined"], obs["actual"], obs["configured"] = sr["examined-shares"], sr["actual-shares"], sr["configured-shares"]
                if present:
                    obs["leases_left"] = len(list(get_share_file(path).get_leases()))
                    si, data = _si_of(case, seed), _data_of(case, seed)
                    if case["kind"] == "immutable":
                        rd = ss.get_buckets(si)[0].read(0, 100)
                    else:
                        rd = ss.slot_readv(si, [0], [(0, 100)])[0][0]
                    if rd != data:
                        obs["data_changed"] = True
        finally:
            boot.VT.offset, boot.VT.hook = old_offset, old_hook
            K.cancel_timers()
    return bad, out


def judge(case, obs, alone):
    """the oracle for one share"""
    policy = case["policy"]
    mode, override, cutoff_off = policy
    kind = case["kind"]
    bad = []
    renews = [renewal_time(policy, lab) for lab in case["leases"]]
    expired = [ref_expired(policy, r) for r in renews]
    type_enabled = kind in case["sharetypes"]
    desc = "enabled=%s mode=%s override=%s cutoff=%s sharetypes=%r kind=%s; leases last renewed at now+%r s (position relative to the policy threshold: %s); per-lease expired by the documented predicate=%r" % (
        case["enabled"], mode, "%dd" % (override // DAY) if override else None,
        ("now%+ds" % cutoff_off) if cutoff_off is not None else None, case["sharetypes"], kind,
        [r - NOW for r in renews], case["leases"], expired)
    counters = ("crawler counters (this share alone on the server): examined=%s configured-shares=%s actual-shares=%s" % (
        obs.get("examined"), obs.get("configured"), obs.get("actual"))) if alone else "(share was one of several on the server)"
    if not renews:
        obs["zero_lease"] = True
        if ZERO_LEASE_VACUOUS_IS_EXPIRED and case["enabled"] and type_enabled and not obs["deleted"]:
            bad.append(("zero-lease-share-not-deleted", "share with no leases survived; " + desc + "; " + counters))
        if (not case["enabled"] or not type_enabled) and obs["deleted"]:
            bad.append(("deleted-while-disabled" if not case["enabled"] else "deleted-type-not-enabled", "zero-lease share deleted; " + desc))
        return bad
    want_deleted = case["enabled"] and type_enabled and all(expired)
    obs["want_deleted"] = want_deleted
    if want_deleted and not obs["deleted"]:
        if mode == "age" and override is None:
            sig = "age-no-override-never-expires"
        else:
            sig = "expired-share-not-deleted:" + ("age-override" if mode == "age" else "cutoff-date")
        bad.append((sig, "share should have been deleted within this cycle but is still present with %d leases; %s; %s" % (obs.get("leases_left", -1), desc, counters)))
    if obs["deleted"] and not want_deleted:
        if not case["enabled"]:
            sig = "deleted-while-disabled"
        elif not type_enabled:
            sig = "deleted-type-not-enabled"
        else:
            sig = "deleted-with-unexpired-lease:" + ("age" if mode == "age" and override is None else "age-override" if mode == "age" else "cutoff-date")
        bad.append((sig, "share was deleted but the predicate says keep; %s; %s" % (desc, counters)))
    if obs.get("data_changed"):
        bad.append(("surviving-share-data-changed", "the share survived the cycle but no longer reads back its data; " + desc))
    return bad


def run_case(case, seed=0):
    """one share alone on its server -> (violations, observation)"""
    bad, out = run_shares(case, [case], seed)
    if out is None:
        return bad, {}
    return bad + judge(case, out[0], True), out[0]


def _cfg_key(case):
    return (case["enabled"], tuple(case["policy"]), tuple(case["sharetypes"]))


def _chunk(chunk, seed):
    """chunk = list of groups; a group = cases with the same configuration (one server, one cycle)"""
    res = common.Result()
    for group in chunk:
        alone = len(group) == 1
        hbad, out = run_shares(group[0], group, seed)
        res.count("crawl_cycles")
        for sig, msg in hbad:
            res.violation(sig, group[0], msg)
        if out is None:
            continue
        for case, obs in zip(group, out):
            bad = judge(case, obs, alone)
            res.count("evaluations")
            if bad and not alone:
                # confirm on a server that holds nothing but this share (this is also what --replay runs)
                bad2, obs2 = run_case(case, seed)
                res.count("crawl_cycles")
                if sorted(b[0] for b in bad2) != sorted(b[0] for b in bad):
                    res.violation("verdict-differs-alone-vs-in-company", case,
                                  "with other shares on the server: %r; alone: %r" % ([b[0] for b in bad], [b[0] for b in bad2]))
                bad = bad2
            for sig, msg in bad:
                res.violation(sig, case, msg)
            if obs.get("zero_lease"):
                res.count("zero-lease:" + ("deleted" if obs["deleted"] else "kept"))
                if case["enabled"] and case["kind"] in case["sharetypes"]:
                    res.count("zero-lease, expiry enabled for its type:" + ("deleted" if obs["deleted"] else "kept")
                              + ((", crawler reports actual-shares=%s (recovered)" % obs.get("actual")) if alone else ""))
            else:
                res.count("outcome:%s/expected:%s" % ("deleted" if obs["deleted"] else "kept", "deleted" if obs["want_deleted"] else "kept"))
                if case["enabled"] and case["kind"] in case["sharetypes"]:
                    res.count("nontrivial")
                    exp = [ref_expired(case["policy"], renewal_time(case["policy"], l)) for l in case["leases"]]
                    if any(exp) and not all(exp):
                        res.count("mixed_expired_and_valid_leases")
                        if not obs["deleted"] and obs.get("leases_left") != len(exp) - sum(exp):
                            res.count("note: share with expired+valid leases survived keeping ALL its leases (%s)" % (
                                "age, no override" if case["policy"][0] == "age" and case["policy"][1] is None else "other policy"))
            if len(case["leases"]) == 2 and case["leases"][0] == "below" and case["enabled"] and len(case["sharetypes"]) == 2:
                res.sample({"case": case, "deleted": obs.get("deleted"), "expected_deleted": obs.get("want_deleted")}, cap=1)
    return res


# ------------------------------------------------------------------ part B: several cycles with renewals in between
T_RENEW, T_CYCLE2, T_CYCLE3 = 10 * DAY, 35 * DAY, 80 * DAY       # offsets from NOW


def expired_at(policy, renew, now):
    mode, override, cutoff_off = policy
    if mode == "age":
        return renew + (override if override is not None else NOMINAL) < now
    return renew < NOW + cutoff_off


def history_cases(tier):
    """ordered lease tuples (slot order matters for containers) x non-empty subsets renewed between the cycles"""
    out = []
    sizes = (2,) if tier == "quick" else (2, 3)
    labs = ["far", "below", "above", "recent"]
    for policy in POLICIES:
        for kind in ("immutable", "mutable"):
            for n in sizes:
                for leases in itertools.product(labs, repeat=n):
                    for mask in range(1, 1 << n):
                        out.append({"history": True, "enabled": True, "policy": policy, "sharetypes": ["mutable", "immutable"], "kind": kind,
                                    "leases": list(leases), "renewed": [i for i in range(n) if mask >> i & 1]})
    return out


def run_histories(cfg, cases, seed=0):
    """ONE real server; one share per case; cycle at NOW, the case's leases renewed at NOW+10 d, cycle at
    NOW+35 d, cycle at NOW+80 d.  -> (harness violations, [[(sig, msg)] per case])"""
    policy = cfg["policy"]
    mode, override, cutoff_off = policy
    bad, per_case = [], [[] for _ in cases]
    old_offset, old_hook = boot.VT.offset, boot.VT.hook
    with K.Scratch("c26h") as base:
        try:
            clk = Clock()
            boot.VT.hook = None
            boot.VT.offset = NOW - boot.R.seconds()
            ss = K.make_server(os.path.join(base, "s"), clock=clk, expiration_enabled=True, expiration_mode=mode,
                               expiration_override_lease_duration=override,
                               expiration_cutoff_date=(NOW + cutoff_off) if cutoff_off is not None else None,
                               expiration_sharetypes=("mutable", "immutable"))
            model, paths, secs = [], [], []
            for ci, case in enumerate(cases):
                renews = [renewal_time(policy, lab) for lab in case["leases"]]
                # two out of three shares live in ONE prefix directory, so that a time slice can end inside it
                si = _h(b"hsi:%d:%d:" % (seed, ci) + repr(sorted(case.items())).encode())[:16]
                if ci % 3:
                    si = b"\x53\x40" + si[2:]
                data = _h(b"hdata:" + si)[:20]
                path = os.path.join(ss.sharedir, storage_index_to_dir(si), "0")
                secrets = [(_h(b"renew:%d:" % i + si), _h(b"cancel:%d:" % i + si)) for i in range(len(renews))]
                clk.rightNow = float(renews[0])
                if case["kind"] == "immutable":
                    got, w = ss.allocate_buckets(si, secrets[0][0], secrets[0][1], [0], len(data))
                    w[0].write(0, data)
                    w[0].close()
                else:
                    ok, _ = ss.slot_testv_and_readv_and_writev(si, (_h(b"we"), secrets[0][0], secrets[0][1]), {0: ([], [(0, data)], None)}, [])
                    assert ok
                for i in range(1, len(renews)):
                    clk.rightNow = float(renews[i])
                    ss.add_lease(si, secrets[i][0], secrets[i][1])
                model.append({"si": si, "data": data, "leases": dict(enumerate(renews)), "alive": True})
                paths.append(path)
                secs.append(secrets)
            lc = ss.lease_checker

            def cycle(number, now_off):
                boot.VT.offset = NOW + now_off - boot.R.seconds()
                clk.rightNow = float(NOW + now_off)
                if cfg.get("sliced"):
                    # the crawler's time slice ends after every bucket (cpu_slice = 0): the cycle is the sum of
                    # as many slices as it takes, each resumed from the crawler's own cursor
                    lc.cpu_slice = 0
                    for _ in range(4000):
                        lc.start_slice()
                        for dc in clk.getDelayedCalls():
                            dc.cancel()
                        if lc.state["last-cycle-finished"] == number:
                            break
                else:
                    lc.start_slice()
                if lc.state["last-cycle-finished"] != number:
                    bad.append(("cycle-not-finished", "cycle %d did not finish in one start_slice(): %r" % (number, lc.state.get("last-cycle-finished"))))
                    return False
                for ci, (case, m, path) in enumerate(zip(cases, model, paths)):
                    if not m["alive"]:
                        continue
                    exp = {i: expired_at(policy, r, NOW + now_off) for i, r in m["leases"].items()}
                    want_deleted = all(exp.values())
                    present = os.path.exists(path)
                    desc = "cycle %d at now%+dd; mode=%s override=%s cutoff=%s kind=%s; leases created at %r, leases %r renewed at now+10d; per-lease expired now=%r" % (
                        number + 1, now_off // DAY, mode, override and override // DAY, cutoff_off, case["kind"], case["leases"], case["renewed"], [exp[i] for i in sorted(exp)])
                    if present and want_deleted:
                        per_case[ci].append(("history:expired-share-not-deleted", "share still present although every lease is expired; " + desc))
                    if not present and not want_deleted:
                        per_case[ci].append(("history:deleted-with-unexpired-lease", "share was deleted although a lease is not expired; " + desc))
                    if not present:
                        m["alive"] = False
                        continue
                    if case["kind"] == "immutable":
                        rd = ss.get_buckets(m["si"])[0].read(0, 100)
                    else:
                        rd = ss.slot_readv(m["si"], [0], [(0, 100)])[0][0]
                    if rd != m["data"]:
                        per_case[ci].append(("history:surviving-share-data-changed", desc))
                    # the unexpired leases must all still be on the share with their renewal times
                    have = sorted(int(li.get_grant_renew_time_time()) for li in get_share_file(path).get_leases())
                    need = sorted(r for i, r in m["leases"].items() if not exp[i])
                    if any(have.count(t) < need.count(t) for t in set(need)):
                        per_case[ci].append(("history:unexpired-lease-lost", "share has renewal times %r, the unexpired leases are %r; %s" % ([t - NOW for t in have], [t - NOW for t in need], desc)))
                return True
            if not cycle(0, 0):
                return bad, per_case
            # renewals
            clk.rightNow = float(NOW + T_RENEW)
            boot.VT.offset = NOW + T_RENEW - boot.R.seconds()
            for case, m, secrets in zip(cases, model, secs):
                if not m["alive"]:
                    continue
                for i in case["renewed"]:
                    ss.add_lease(m["si"], secrets[i][0], secrets[i][1])
                    m["leases"][i] = NOW + T_RENEW
            if cycle(1, T_CYCLE2):
                cycle(2, T_CYCLE3)
        except Exception as e:  # noqa
            import traceback
            bad.append(("history-raised:" + type(e).__name__, traceback.format_exc()[-600:]))
        finally:
            boot.VT.offset, boot.VT.hook = old_offset, old_hook
            K.cancel_timers()
    return bad, per_case


def _hchunk(chunk, seed):
    res = common.Result()
    for group in chunk:
        hbad, per_case = run_histories(group[0], group, seed)
        res.count("crawl_cycles", 3)
        for sig, msg in hbad:
            res.violation(sig, group[0], msg)
        for case, bad in zip(group, per_case):
            res.count("evaluations")
            res.count("histories")
            if bad and not case.get("sliced"):
                # confirm alone on its own server (not for the sliced crawl: what is examined there is how a slice
                # that ends inside a prefix directory treats the OTHER buckets of that directory)
                hb2, pc2 = run_histories(case, [case], seed)
                bad = pc2[0] + hb2
            for sig, msg in bad:
                res.violation(sig, case, msg)
    return res


def replay(case):
    if "config" in case:
        return run_config(case)
    if case.get("history"):
        if case.get("sliced"):
            # replayed in the company it failed in: the first 60 histories of its (policy, kind)
            tier = "quick" if len(case["leases"]) == 2 else "thorough"
            group = [dict(c, sliced=True) for c in history_cases(tier) if c["policy"] == case["policy"] and c["kind"] == case["kind"]][:60]
            hb, pc = run_histories(group[0], group)
            me = [i for i, c in enumerate(group) if c["leases"] == case["leases"] and c["renewed"] == case["renewed"]]
            return hb + (pc[me[0]] if me else [])
        hb, pc = run_histories(case, [case])
        return hb + pc[0]
    return run_case(case)[0]


# ------------------------------------------------------------------ part C: the configuration call site
def config_cases():
    out = []
    for imm in (None, "true", "false"):
        for mut in (None, "true", "false"):
            for mode in ("age", "cutoff-date"):
                out.append({"config": [imm, mut, mode]})
    return out


def run_config(case):
    """tahoe.cfg [storage] expire.* -> _Client.get_anonymous_storage_server (the real call site that turns the options
    into the crawler's policy): the share types handed to the lease checker must be exactly the enabled ones"""
    import os
    import shutil
    from twisted.application import service
    from allmydata import client
    from allmydata.node import config_from_string
    imm, mut, mode = case["config"]

    class Stub(service.MultiService):
        STOREDIR = "storage"
        nodeid = b"n" * 20
        stats_provider = None

        def __init__(self, config):
            service.MultiService.__init__(self)
            self.config = config

        def get_config(self, *a, **kw):
            return self.config.get_config(*a, **kw)
    lines = ["[node]", "nickname = x", "[storage]", "enabled = true", "expire.enabled = true", "expire.mode = " + mode]
    lines += ["expire.override_lease_duration = 1 day"] if mode == "age" else ["expire.cutoff_date = 2009-01-16"]
    if imm is not None:
        lines.append("expire.immutable = " + imm)
    if mut is not None:
        lines.append("expire.mutable = " + mut)
    tmp = "/dev/shm/vt-c26-config-%d" % os.getpid()
    shutil.rmtree(tmp, ignore_errors=True)
    os.makedirs(tmp)
    try:
        cfg = config_from_string(tmp, "client.port", "\n".join(lines) + "\n", _valid_config=client._valid_config())
        ss = client._Client.get_anonymous_storage_server(Stub(cfg))
        got = tuple(sorted(ss.lease_checker.sharetypes_to_expire))
        got_mode = ss.lease_checker.mode
        enabled = ss.lease_checker.expiration_enabled
    except Exception as e:  # noqa
        return [("config:start-up-raised:" + type(e).__name__, "tahoe.cfg %r: %r" % (lines[4:], e))]
    finally:
        shutil.rmtree(tmp, ignore_errors=True)
        K.cancel_timers()
    want = tuple(sorted(t for t, v in (("immutable", imm), ("mutable", mut)) if v != "false"))
    bad = []
    if got != want:
        bad.append(("config:share-types-differ-from-options", "tahoe.cfg expire.immutable=%s expire.mutable=%s: the lease checker expires share types %r, the options enable %r" % (imm, mut, got, want)))
    if got_mode != mode or enabled is not True:
        bad.append(("config:mode-or-enabled-differs", "tahoe.cfg expire.enabled=true expire.mode=%s: the lease checker has mode %r, enabled %r" % (mode, got_mode, enabled)))
    return bad


def _config_chunk(chunk):
    res = common.Result()
    for case in chunk:
        res.count("evaluations")
        res.count("config_cases")
        for sig, msg in run_config(case):
            res.violation(sig, case, msg)
    return res


def run(tier, seed):
    cases = all_cases(tier)
    groups = {}
    singles = []
    for c in cases:
        if not c["leases"]:
            singles.append([c])          # zero-lease shares always alone (their crawler counters are reported)
        else:
            groups.setdefault(_cfg_key(c) + (c["kind"],), []).append(c)
    items = [groups[k] for k in sorted(groups, key=repr)] + singles
    res = common.pmap(_chunk, items, (seed,))
    # part B: histories over three cycles with renewals in between, all shares of one (policy, kind) on one server
    hgroups = {}
    for c in history_cases(tier):
        hgroups.setdefault((tuple(c["policy"]), c["kind"]), []).append(c)
    hitems = []
    for k in sorted(hgroups, key=repr):
        g = hgroups[k]
        for i in range(0, len(g), 120):
            hitems.append(g[i:i + 120])
            if i == 0:
                # the first server of each (policy, kind) once more with a time slice ending after every bucket
                hitems.append([dict(c, sliced=True) for c in g[:60]])
    res.merge(common.pmap(_hchunk, hitems, (seed,)))
    res.merge(common.pmap(_config_chunk, config_cases(), chunks=2))
    cov = {
        "evaluations": res.counts.get("evaluations", 0),
        "distinct_nontrivial": res.counts.get("nontrivial", 0),
        "exhaustive": True,
        "grid": "2 enabled x %d policies x %d sharetype filters x 2 share kinds x %d lease multisets" % (
            len(POLICIES), len(SHARETYPES), len(cases) // (2 * len(POLICIES) * len(SHARETYPES) * 2)),
        "crawl_cycles": res.counts.get("crawl_cycles", 0),
        "zero_lease_cases": res.counts.get("zero-lease:deleted", 0) + res.counts.get("zero-lease:kept", 0),
        "three_cycle_histories": res.counts.get("histories", 0),
        "rule": "every point of the grid (enabled x policy x sharetypes x share kind x multiset of <= %d leases over 5 renewal times around the policy threshold), one real crawl cycle each; non-trivial = expiry enabled for the share's type and >= 1 lease, so that the per-lease predicate decides; plus three-cycle histories: every ordered tuple of %s leases over {far, below, above, recent} x every non-empty subset renewed at now+10 d, cycles at now, now+35 d, now+80 d, judged after each cycle (deleted iff all leases expired then; unexpired leases still recorded); two thirds of the shares of a server share one prefix directory and one server per (policy, kind) is crawled with a time slice ending after every bucket" % (3 if tier == "quick" else 5, "2" if tier == "quick" else "2..3"),
    }
    return res, cov


MANIFEST = {
    "engine": "E",
    "technique": "exhaustive configuration grid x lease multisets around the policy threshold, each evaluated by one full cycle of the real LeaseCheckingCrawler on a real StorageServer, against the documented expiry predicate",
    "text": "Every point of {enabled} x {age, age+override 1d/60d, 3 cutoff dates} x {share-type filters} x {immutable, mutable} x every multiset of <= 3 (thorough 5) leases with renewal times {now-400d, T*-1s, T*, T*+1s, now-1d} is built through the server API with a controlled clock and crawled once; a share must be gone iff expiry is enabled, its type is enabled and every lease is expired by docs/garbage-collection.rst. Complete for the grid. Part B: three crawl cycles (now, +35 d, +80 d) with renewals of every non-empty subset of a share's leases at +10 d, for every ordered tuple of 2 (thorough 2..3) leases over {far, below, above, recent}, all shares of a policy on one real server; after each cycle a share is gone iff all its leases are expired then, and unexpired leases are still recorded. Part C: tahoe.cfg expire.* options go through the real _Client.get_anonymous_storage_server and the lease checker must be configured with exactly the enabled share types and mode.",
    "note": "Shares of one configuration share a server and a cycle; failing cases are re-run alone. Zero-lease shares are counted, not judged (the statement is silent). Trusted: the 10-line reference predicate.",
}
