"""C27  Share crawler covers every bucket each cycle  (choice exploration + Engine K kills).

The real allmydata.storage.crawler.ShareCrawler (a logging subclass that only implements the
documented hooks process_bucket / finished_prefix) is run as a twisted service on the virtual
reactor over a real shares/ directory for TWO consecutive cycles.  time.time() is a choice
point (boot.VT.hook): the crawler asks `time.time() >= start_slice + cpu_slice` after every
bucket and after every prefix (1024 + #buckets questions per cycle; the other ~1030
time.time() calls per cycle only measure elapsed time); at a chosen question the
virtual clock jumps by cpu_slice, so the slice is "exceeded" exactly there (any monotone clock
is a legal environment, so every explored schedule is a possible one).
Process kills: the run is a sequence of EVENTS = every such question (a kill there = after
process_bucket / finished_prefix, before the time check), every file-system mutation call
(vt.lib_crash: creating/truncating open, write, rename of save_state; a kill there = instead of
the call, i.e. before / inside / after save_state between tmp-write and move_into_place), and
an "idle" event after every slice (kill while sleeping).  At a chosen event the crawler object
is discarded, all timers are dropped and a new crawler is constructed from the state file.

Enumerated (bucket sets = multisets of buckets over the prefix slots {first, two adjacent
middle, last}):
  A1  interruption combinations over the "interesting" questions (after each bucket, after each
      populated prefix and its two neighbours, after the first and the last prefix), for every
      bucket set.  quick: every single one of both cycles, every pair within cycle 0, every
      (cycle 0, cycle 1) pair for sets of <= 1 bucket, every triple within cycle 0 for sets of
      <= 2 buckets.  thorough: every combination of <= 3 over both cycles for sets of <= 3
      buckets; singles + pairs within cycle 0 for larger sets;
  A2  EVERY single interruption point (quick: all 1027 of cycle 0 for one set and all 1027 of
      cycle 1 for another; thorough: all ~2060 of both cycles for six sets);
  B1  a kill at EVERY event of an uninterrupted run (quick: cycle 0, 1034 events, one set;
      thorough: both cycles, ~2070 events, two sets), and a kill at every interesting event (interesting
      questions, all mutations, all idles) for every bucket set;
  B2  every pair of kills over interesting events (second kill chosen among the events of the
      run that follows the first kill) for the bucket sets of <= 1 bucket (thorough: <= 3);
  B3  one interruption (interesting question of cycle 0) x one kill (interesting event; quick:
      up to the end of cycle 0) for sets of 1..2 (thorough: 1..3) buckets;
  C   the real LeaseCheckingCrawler of a real StorageServer holding real shares (expiry
      disabled), same hooks: every single interesting interruption, every single kill at an
      interesting event, and B3 (one interruption x one kill, which includes the plain
      restart of an idle crawler in the middle of a cycle).
Oracle per run: every bucket is passed to process_bucket >= 1 time with cycle number 0 and
>= 1 time with cycle number 1; exactly once for a cycle during which no kill hit a running
slice; cycle numbers of the calls and `last-cycle-finished` in the state file go 0, 1 in
steps of one; the crawler neither raises nor stops scheduling itself.
"""
import itertools
import json
import os
import struct

from twisted.application import service

from .. import boot
from allmydata.storage.common import si_b2a
from allmydata.storage.crawler import ShareCrawler
from allmydata.storage.expirer import LeaseCheckingCrawler
from allmydata.storage.server import StorageServer
from .. import common
from .. import lib_crash as K

LEVEL = "model_checking"
ASSUMPTIONS = [
    "bucket sets: multisets of <= 3 (quick) / <= 6 (thorough) buckets over 4 prefix slots (first, two adjacent middle, last prefix); the loop body for an empty prefix touches only last_complete_prefix_index and is covered by the sweeps over every question (A2, B1)",
    "static bucket sets (every bucket exists throughout both cycles); buckets appearing/disappearing during a cycle are outside the statement",
    "interruption combinations and kill pairs are restricted to the interesting points and set sizes listed in the module docstring (A1, B2, B3); single interruptions and single kills are enumerated at EVERY point for representative bucket sets (A2, B1)",
    "kill model of vt.lib_crash (process kill, completed syscalls persist, one write() atomic: the state file is < 4096 bytes)",
    "the generic subject uses a stub server object (ShareCrawler only reads server.sharedir) with empty bucket directories; subject C is the LeaseCheckingCrawler of a real StorageServer with real shares",
    "two consecutive cycles starting from an empty state file",
]

CPU_SLICE = 1.0
NPREFIX = 1024
SLOTS = [0, 511, 512, 1023]           # positions in the crawler's sorted prefix list
MAX_SLICES = 40


class _Srv(object):
    def __init__(self, sharedir):
        self.sharedir = sharedir


_ENV = [None]


class LogCrawler(ShareCrawler):
    slow_start = 0

    def process_bucket(self, cycle, prefix, prefixdir, storage_index_b32):
        _ENV[0].bucket_done(self, cycle, prefix, storage_index_b32)

    def finished_prefix(self, cycle, prefix):
        _ENV[0].prefix_done(self, cycle, prefix)


class LogLeaseCrawler(LeaseCheckingCrawler):
    slow_start = 0

    def process_bucket(self, cycle, prefix, prefixdir, storage_index_b32):
        LeaseCheckingCrawler.process_bucket(self, cycle, prefix, prefixdir, storage_index_b32)
        _ENV[0].bucket_done(self, cycle, prefix, storage_index_b32)

    def finished_prefix(self, cycle, prefix):
        _ENV[0].prefix_done(self, cycle, prefix)


class LogStorageServer(StorageServer):
    LeaseCheckerClass = LogLeaseCrawler


_PREFIXES = None


def prefixes():
    global _PREFIXES
    if _PREFIXES is None:
        p = [si_b2a(struct.pack(">H", i << 6))[:2].decode("ascii") for i in range(NPREFIX)]
        num = {s: i for i, s in enumerate(p)}
        p.sort()
        _PREFIXES = (p, {s: i for i, s in enumerate(p)}, num)
    return _PREFIXES


def bucket_names(slots, subject):
    """slots: sorted list of slot numbers (0..3) -> [(prefix_index, bucket name, si bytes or None)]"""
    plist, pidx, pnum = prefixes()
    out = []
    seen = {}
    for s in slots:
        j = seen.get(s, 0)
        seen[s] = j + 1
        pi = SLOTS[s]
        prefix = plist[pi]
        if subject == "base":
            out.append((pi, prefix + "b" * 23 + chr(ord("a") + j), None))
        else:
            si = struct.pack(">H", pnum[prefix] << 6) + bytes([j + 1]) * 14
            name = si_b2a(si).decode("ascii")
            assert name[:2] == prefix
            out.append((pi, name, si))
    return out


def interesting_labels(slots, subject, cycles=(0, 1)):
    bn = bucket_names(slots, subject)
    out = []
    for c in cycles:
        labs = set()
        for pi, name, _ in bn:
            labs.add(("b", c, pi, name))
            for d in (-1, 0, 1):
                if 0 <= pi + d < NPREFIX:
                    labs.add(("p", c, pi + d, None))
        labs.add(("p", c, 0, None))
        labs.add(("p", c, NPREFIX - 1, None))
        out.extend(sorted(labs, key=lambda l: (l[2], 0 if l[0] == "b" else 1, l[3] or "")))
    return [list(l) for l in out]


class Env(object):
    """owns the virtual clock choices, the event numbering and the process_bucket log"""

    def __init__(self, interrupts, kills):
        self.interrupts = [tuple(l) for l in interrupts]
        self.kills = set(kills)
        self.extra = 0.0
        self.pending = None
        self.events = []          # descriptor per event
        self.log = []             # [incarnation, cycle, prefix, bucket]
        self.incarnation = 0
        self.eng = None
        self.pidx = prefixes()[1]
        self.kill_hit = None
        self.interrupts_hit = []

    def bucket_done(self, crawler, cycle, prefix, bucket):
        self.log.append([self.incarnation, cycle, prefix, bucket])
        self.pending = ("b", cycle, self.pidx[prefix], bucket)

    def prefix_done(self, crawler, cycle, prefix):
        self.pending = ("p", cycle, self.pidx[prefix], None)

    def event(self, desc):
        idx = len(self.events)
        self.events.append(desc)
        if idx in self.kills:
            self.kill_hit = (idx, desc)
            return True
        return False

    def time(self):
        lab = self.pending
        if lab is not None:
            self.pending = None
            if self.event(("Q",) + lab):
                self.eng.kill_now(["question", "", list(lab), "time.time"])
            if lab in self.interrupts:
                self.interrupts.remove(lab)
                self.interrupts_hit.append(lab)
                self.extra += CPU_SLICE
        return boot.R.seconds() + self.extra

    def on_mutation(self, idx, kind, rel, site):
        return self.event(("M", kind, rel, site))


def _state_path(sd, subject):
    return os.path.join(sd, "lease_checker.state.json" if subject == "lease" else "crawler.state.json")


def _read_persisted(sd, subject):
    try:
        with open(_state_path(sd, subject), "rb") as f:
            st = json.load(f)
    except FileNotFoundError:
        return ("nofile",)
    except Exception as e:  # noqa
        return ("unreadable", type(e).__name__)
    return (st.get("last-cycle-finished"), st.get("current-cycle"), st.get("last-complete-prefix"), st.get("last-complete-bucket"))


def _setup(sd, cfg):
    bn = bucket_names(cfg["slots"], cfg["subject"])
    if cfg["subject"] == "base":
        for pi, name, _ in bn:
            os.makedirs(os.path.join(sd, "shares", name[:2], name))
        os.makedirs(os.path.join(sd, "shares"), exist_ok=True)
    else:
        ss = K.make_server(sd)
        for n, (pi, name, si) in enumerate(bn):
            r, c = bytes([n + 1]) * 32, bytes([n + 101]) * 32
            if n % 2 == 0:
                got, w = ss.allocate_buckets(si, r, c, [0], 7)
                w[0].write(0, b"payload")
                w[0].close()
            else:
                ss.slot_testv_and_readv_and_writev(si, (b"w" * 32, r, c), {0: ([], [(0, b"payload")], None)}, [])
        K.cancel_timers()
    return bn


def execute(cfg, interrupts, kills):
    """One run.  -> dict(events, log, viol [(sig,msg)], kills_info, persisted, slices, ...)"""
    subject = cfg["subject"]
    out = {"viol": [], "kill_cycles": [], "midslice_kills": 0, "persisted": [], "slices": 0, "restarts": 0}
    env = Env(interrupts, kills)
    old_hook = boot.VT.hook
    _ENV[0] = env
    with K.Scratch("c27") as base:
        sd = os.path.join(base, "s")
        bn = _setup(sd, cfg)
        out["buckets"] = [name for _, name, _ in bn]
        boot.VT.hook = env.time
        if hasattr(boot.R, "take_errors"):
            boot.R.take_errors()
        parent = None
        crawler = None
        eng = None
        try:
            need_start = True
            while True:
                if need_start:
                    need_start = False
                    env.incarnation += 1
                    env.pending = None
                    eng = K.CrashFS(sd, on_event=env.on_mutation)
                    env.eng = eng
                    eng.__enter__()
                    try:
                        parent = service.MultiService()
                        parent.startService()
                        if subject == "base":
                            crawler = LogCrawler(_Srv(os.path.join(sd, "shares")), os.path.join(sd, "crawler.state"))
                        else:
                            ss = LogStorageServer(sd, K.NODEID, clock=boot.R)
                            crawler = ss.lease_checker
                            crawler.disownServiceParent()
                        crawler.setServiceParent(parent)
                    except K.Killed:
                        killed = True
                    except Exception as e:  # noqa
                        out["viol"].append(("crawler-construction-raised:%s" % type(e).__name__,
                                            "constructing the crawler from the state file raised %r (persisted state %r)" % (e, _read_persisted(sd, subject))))
                        break
                    else:
                        killed = False
                else:
                    killed = False
                if not killed:
                    d = boot.R.next_timer_delay()
                    if d is None:
                        out["viol"].append(("crawler-stopped", "the crawler has no timer pending but two cycles are not finished; persisted=%r" % (_read_persisted(sd, subject),)))
                        break
                    try:
                        boot.R.advance(max(d, 0.0))
                        # newer boot.VReactor.advance records exceptions of timer callbacks instead of raising them
                        errs = boot.R.take_errors() if hasattr(boot.R, "take_errors") else []
                        if errs:
                            raise errs[0].value.with_traceback(errs[0].getTracebackObject())
                        out["slices"] += 1
                    except K.Killed:
                        killed = True
                    except Exception as e:  # noqa
                        import traceback
                        tb = traceback.extract_tb(e.__traceback__)
                        fr = [f for f in tb if "/allmydata/" in f.filename]
                        where = "%s:%d" % (fr[-1].name, fr[-1].lineno) if fr else "?"
                        out["viol"].append(("crawler-raised:%s:%s" % (type(e).__name__, fr[-1].name if fr else "?"),
                                            "start_slice raised %r at %s in incarnation %d (after %d restarts); the timer is not rescheduled, so the crawler is dead; persisted state=%r"
                                            % (e, where, env.incarnation, out["restarts"], _read_persisted(sd, subject))))
                        break
                if not killed:
                    p = _read_persisted(sd, subject)
                    out["persisted"].append(p)
                    if env.event(("idle", out["slices"])):
                        killed = True
                        idle_kill = True
                    else:
                        idle_kill = False
                    if not killed:
                        if p[0] is not None and p[0] != "nofile" and p[0] != "unreadable" and p[0] >= 1:
                            break
                        if out["slices"] >= MAX_SLICES:
                            out["viol"].append(("no-progress", "%d slices and two cycles are still not finished; persisted=%r" % (out["slices"], p)))
                            break
                        continue
                else:
                    idle_kill = False
                # ---- the process is dead here
                eng.dead = True
                st = getattr(crawler, "state", None) or {}
                cc, lcf = st.get("current-cycle"), st.get("last-cycle-finished")
                if not idle_kill:
                    out["midslice_kills"] += 1
                    out["kill_cycles"].append(cc if cc is not None else lcf)
                eng.__exit__(None, None, None)
                eng = None
                K.cancel_timers()
                crawler = None
                parent = None
                out["restarts"] += 1
                pk = _read_persisted(sd, subject)
                out["persisted"].append(("kill",) + pk)
                if isinstance(pk[0], int) and pk[0] >= 1:
                    break        # both cycles are already recorded as finished: nothing left to observe
                need_start = True
        finally:
            if eng is not None:
                eng.dead = True
                eng.__exit__(None, None, None)
            boot.VT.hook = old_hook
            K.cancel_timers()
            _ENV[0] = None
    out["events"] = env.events
    out["log"] = env.log
    out["interrupts_hit"] = env.interrupts_hit
    out["interrupts_missed"] = env.interrupts
    out["kill_hit"] = env.kill_hit
    return out


def judge(cfg, interrupts, kills, out):
    bad = list(out["viol"])
    ctx = "subject=%s buckets=%r interruptions(after bucket 'b' / after prefix 'p': kind,cycle,prefix#,bucket)=%r kills(event#)=%r killed-at=%r" % (
        cfg["subject"], out.get("buckets"), interrupts, kills,
        [out["events"][k] for k in kills if k < len(out["events"])])
    if out["viol"]:
        return [(s, m + "; " + ctx) for s, m in bad]
    if out["interrupts_missed"]:
        # a planned "end the slice after bucket X of cycle c" point that was never reached: either the crawler
        # never processed X in that cycle (a skipped bucket - the subject of this property), or the harness is wrong
        unexplained = []
        for lab in out["interrupts_missed"]:
            if lab[0] == "b" and not any(c == lab[1] and name == lab[3] for (_, c, _, name) in out["log"]):
                bad.append(("bucket-skipped", "bucket %s was never passed to process_bucket in cycle %d (the slice end planned after it was never reached); calls=%r; %s" % (lab[3], lab[1], out["log"], ctx)))
            else:
                unexplained.append(lab)
        if bad:
            return bad
        if any(lab[0] != "p" for lab in unexplained):
            raise RuntimeError("harness: interruption labels never asked: %r (%s)" % (unexplained, ctx))
        # an "end the slice after prefix #n" point that was never reached: judged below by what happened to the
        # buckets; if nothing is wrong with them either, the harness is
    for k in kills:
        if k >= len(out["events"]):
            raise RuntimeError("harness: kill event %d never reached (%s)" % (k, ctx))
    log = out["log"]
    dup_ok = set(out["kill_cycles"])
    for cyc in (0, 1):
        for b in out["buckets"]:
            n = sum(1 for (_, c, _, name) in log if c == cyc and name == b)
            if n == 0:
                bad.append(("bucket-skipped", "bucket %s was never passed to process_bucket in cycle %d although the saved state says the cycle finished; calls=%r; %s" % (b, cyc, log, ctx)))
            elif n > 1 and cyc not in dup_ok:
                bad.append(("bucket-processed-twice", "bucket %s was processed %d times in cycle %d and no kill hit a running slice of that cycle; calls=%r; %s" % (b, n, cyc, log, ctx)))
    cycs = [c for (_, c, _, _) in log]
    for a, b in zip([0] + cycs, cycs):
        if b not in (a, a + 1):
            bad.append(("cycle-number-jump", "process_bucket cycle numbers go %r -> %r; calls=%r; %s" % (a, b, log, ctx)))
            break
    if cycs and max(cycs) > 1:
        bad.append(("cycle-number-jump", "a third cycle number %r was used before two cycles were recorded as finished; %s" % (max(cycs), ctx)))
    lcfs = [p[0] if p[0] != "kill" else p[1] for p in out["persisted"]]
    prev = None
    for v in lcfs:
        if v in ("nofile",):
            v = None
        if v == "unreadable":
            bad.append(("state-file-unreadable", "the state file could not be parsed after a slice/kill; %s" % ctx))
            break
        if not (v == prev or (prev is None and v == 0) or (prev is not None and v == prev + 1)):
            bad.append(("cycle-number-jump", "last-cycle-finished in the state file goes %r -> %r (sequence %r); %s" % (prev, v, lcfs, ctx)))
            break
        prev = v
    if prev != 1:
        bad.append(("cycles-not-finished", "final last-cycle-finished=%r, expected 1; %s" % (prev, ctx)))
    if out["interrupts_missed"] and not bad:
        # only "after prefix #n" points are left here and every bucket was handled exactly as demanded: the
        # crawler never reported that prefix boundary where a slice could end; nothing the statement speaks of
        out["prefix_boundaries_never_offered"] = len(out["interrupts_missed"])
    # de-duplicate by sig (keep first message)
    seen, uniq = set(), []
    for s, m in bad:
        if s not in seen:
            seen.add(s)
            uniq.append((s, m))
    return uniq


def _record(res, cfg, interrupts, kills, out, bad):
    res.count("transitions", out["slices"] + out["restarts"])
    res.count("traces")
    res.count("runs:%s" % cfg["subject"])
    res.count("process_bucket_calls", len(out["log"]))
    if out["restarts"]:
        res.count("runs_with_kill")
        if any(sum(1 for (_, c, _, n) in out["log"] if c == cyc and n == b) > 1 for cyc in (0, 1) for b in out["buckets"]):
            res.count("runs_with_kill_where_work_was_repeated")
    key = tuple(cfg["slots"])
    for p in out["persisted"]:
        res.distinct.add((cfg["subject"], key, tuple(p)))
    for sig, msg in bad:
        res.violation(sig, {"cfg": cfg, "interrupts": interrupts, "kills": kills}, msg)


def _is_interesting_event(ev, labs):
    if ev[0] == "Q":
        return tuple(ev[1:]) in labs
    return True      # every mutation, every idle


def _work(chunk, tier):
    res = common.Result()
    for item in chunk:
        cfg, interrupts, kills, expand = item
        out = execute(cfg, interrupts, kills)
        bad = judge(cfg, interrupts, kills, out)
        _record(res, cfg, interrupts, kills, out, bad)
        if len(interrupts) == 2 and not kills:
            res.sample({"cfg": cfg, "interrupts": interrupts, "process_bucket_calls": out["log"], "persisted_after_each_slice": out["persisted"]}, cap=1)
        if len(kills) == 1 and out["restarts"] and len(out["log"]) > 2 * len(out["buckets"]):
            res.sample({"cfg": cfg, "kills": kills, "killed_at": out["events"][kills[0]], "process_bucket_calls": out["log"]}, cap=1)
        if expand and not bad and kills:
            # second kill: every interesting event of THIS run after the first kill
            labs = set(tuple(l) for l in interesting_labels(cfg["slots"], cfg["subject"]))
            for j in range(kills[-1] + 1, len(out["events"])):
                if _is_interesting_event(out["events"][j], labs):
                    k2 = kills + [j]
                    out2 = execute(cfg, interrupts, k2)
                    bad2 = judge(cfg, interrupts, k2, out2)
                    _record(res, cfg, interrupts, k2, out2, bad2)
                    res.count("kill_pairs")
    return res


def replay(case):
    out = execute(case["cfg"], case["interrupts"], case["kills"])
    return judge(case["cfg"], case["interrupts"], case["kills"], out)


def bucket_sets(maxn):
    out = []
    for n in range(0, maxn + 1):
        out.extend(list(c) for c in itertools.combinations_with_replacement(range(4), n))
    return out


def run(tier, seed):
    quick = tier == "quick"
    sets = bucket_sets(3 if quick else 6)
    items = []
    plan = {}

    def add(name, lst):
        plan[name] = plan.get(name, 0) + len(lst)
        items.extend(lst)
    probe = {}
    for slots in sets:
        cfg = {"subject": "base", "slots": slots}
        out = execute(cfg, [], [])
        bad = judge(cfg, [], [], out)
        if bad:
            res0 = common.Result()
            _record(res0, cfg, [], [], out, bad)
            return res0, {"states": len(res0.distinct), "transitions": res0.counts.get("transitions", 0),
                          "traces_validated_against_impl": res0.counts.get("traces", 0),
                          "rule": "stopped early: the uninterrupted two-cycle run already violates the property, nothing else was explored"}
        probe[tuple(slots)] = out
    # ---- A1
    for slots in sets:
        cfg = {"subject": "base", "slots": slots}
        l0 = interesting_labels(slots, "base", (0,))
        l1 = interesting_labels(slots, "base", (1,))
        l01 = l0 + l1
        combos = [[]] + [[a] for a in l01]
        if quick:
            combos += [list(c) for c in itertools.combinations(l0, 2)]
            if len(slots) <= 1:
                combos += [[a, b] for a in l0 for b in l1]
            if len(slots) <= 2:
                combos += [list(c) for c in itertools.combinations(l0, 3)]
        elif len(slots) <= 3:
            combos += [list(c) for c in itertools.combinations(l01, 2)]
            combos += [list(c) for c in itertools.combinations(l01, 3)]
        else:
            combos += [list(c) for c in itertools.combinations(l0, 2)]
        add("A1 interruption combinations", [(cfg, c, [], False) for c in combos])
    # ---- A2
    if quick:
        reps = [([0, 1, 3], (0,)), ([1, 1, 2], (1,))]
    else:
        reps = [(r, (0, 1)) for r in ([0, 1, 2, 3], [0, 0, 1, 1, 2, 3], [1, 1, 2, 2, 3, 3], [0, 1, 3], [1, 1, 2], [0, 0, 3])]
    for slots, cycs in reps:
        cfg = {"subject": "base", "slots": slots}
        out = probe.get(tuple(slots)) or execute(cfg, [], [])
        qs = [list(e[1:]) for e in out["events"] if e[0] == "Q" and e[2] in cycs]
        add("A2 every single interruption point", [(cfg, [q], [], False) for q in qs])
    # ---- B1
    for slots in ([[0, 1, 3]] if quick else [[0, 1, 3], [0, 0, 1, 1, 2, 3]]):
        cfg = {"subject": "base", "slots": slots}
        out = probe.get(tuple(slots)) or execute(cfg, [], [])
        lim = len(out["events"])
        if quick:
            lim = 1 + min(k for k, e in enumerate(out["events"]) if e[0] == "idle")     # cycle 0: up to the first idle
        add("B1 kill at every event", [(cfg, [], [k], False) for k in range(lim)])
    for slots in sets:
        cfg = {"subject": "base", "slots": slots}
        labs = set(tuple(l) for l in interesting_labels(slots, "base"))
        out = probe[tuple(slots)]
        ks = [k for k, e in enumerate(out["events"]) if _is_interesting_event(e, labs)]
        pairs = len(slots) <= (1 if quick else 3)
        add("B1/B2 kill at every interesting event (+ every second kill)" if pairs else "B1 kill at every interesting event",
            [(cfg, [], [k], pairs) for k in ks])
    # ---- B3
    def b3(cfg, name):
        slots = cfg["slots"]
        labs = set(tuple(l) for l in interesting_labels(slots, cfg["subject"]))
        for lab in interesting_labels(slots, cfg["subject"], (0,)):
            out = execute(cfg, [lab], [])
            ks = [k for k, e in enumerate(out["events"]) if _is_interesting_event(e, labs)]
            if quick:
                # quick: kills up to the end of cycle 0 (the idle event after the slice that finishes cycle 0)
                lim = len(out["events"])
                nidle = 0
                for k, e in enumerate(out["events"]):
                    if e[0] == "idle":
                        nidle += 1
                        if nidle == 2:
                            lim = k + 1
                            break
                ks = [k for k in ks if k < lim]
            add(name, [(cfg, [lab], [k], False) for k in ks])
    for slots in sets:
        if not slots or len(slots) > (2 if quick else 3):
            continue
        b3({"subject": "base", "slots": slots}, "B3 one interruption x one kill")
    # ---- C
    for slots in ([[0, 1, 3]] if quick else [[0, 1, 3], [0, 1, 1, 2, 3]]):
        cfg = {"subject": "lease", "slots": slots}
        labs = interesting_labels(slots, "lease")
        out = execute(cfg, [], [])
        add("C lease crawler: uninterrupted", [(cfg, [], [], False)])
        add("C lease crawler: single interruptions", [(cfg, [l], [], False) for l in labs])
        lset = set(tuple(l) for l in labs)
        ks = [k for k, e in enumerate(out["events"]) if _is_interesting_event(e, lset)]
        add("C lease crawler: single kills", [(cfg, [], [k], False) for k in ks])
        b3(cfg, "C lease crawler: one interruption x one kill")
    # deal the items round-robin into the chunks (expensive items - those that expand into second kills,
    # the lease subject - are adjacent in `items`; contiguous chunks would be badly balanced)
    nchunks = max(1, min(len(items), common.NWORKERS * 12))
    size = (len(items) + nchunks - 1) // nchunks
    dealt = [[] for _ in range(nchunks)]
    for i, it in enumerate(items):
        dealt[i % nchunks].append(it)
    dealt.sort(key=len, reverse=True)
    items = [it for ch in dealt for it in ch]
    res = common.pmap(_work, items, (tier,), chunks=nchunks)
    runs = res.counts.get("traces", 0)
    cov = {
        "states": len(res.distinct),
        "transitions": res.counts.get("transitions", 0),
        "traces_validated_against_impl": runs,
        "runs": runs,
        "bucket_sets": len(sets),
        "kill_pairs": res.counts.get("kill_pairs", 0),
        "plan": plan,
        "rule": "states = distinct (subject, bucket set, state file contents (last-cycle-finished, current-cycle, last-complete-prefix, last-complete-bucket) observed after a slice or at a kill); transitions = time slices + restarts executed on the real crawler; every run (trace) is an execution of the real code for two cycles; enumeration per module docstring: %s" % json.dumps(plan),
    }
    return res, cov


MANIFEST = {
    "engine": "K",
    "technique": "stateless model checking by re-execution: time.time() is a choice point that decides every 'slice exceeded?' question of the real ShareCrawler, combined with crash-point enumeration (process kill + restart from the state file) at every question, every file-system mutation of save_state and every idle period",
    "text": "The real crawler runs as a twisted service on the virtual reactor for two cycles over real bucket directories. Every single interruption point and every single kill point is enumerated for representative bucket sets; combinations of up to 3 interruptions, pairs of kills and interruption x kill are enumerated over the points adjacent to populated prefixes, cycle start and cycle end for every multiset of <= 3 (thorough 6) buckets over 4 prefix slots. The same is done, on a smaller set, for the LeaseCheckingCrawler of a real StorageServer with real shares. Oracle: every bucket processed >= 1 time per cycle, exactly once in a cycle without a mid-slice kill, cycle numbers 0,1 in steps of one, and the crawler keeps running.",
    "note": "Any monotone clock is a legal environment, so each explored schedule is feasible. Restricted combinations are listed in the module docstring; the per-empty-prefix loop body is covered by the every-point sweeps. The generic subject uses a stub server (only .sharedir is read). 'The crawler must not die after a restart' is read into the statement (a dead crawler processes no bucket in any later cycle).",
}
