"""C18  Read-only directory access is transitive  (Engine E, exhaustive small scope, memory-backed).

Real code: DirectoryNode._unpack_contents / _decrypt_rwcapdata / _create_and_validate_node /
_pack_normalized_children / _encrypt_rw_uri, NodeMaker.create_from_cap (+ its node cache),
UnknownNode, uri.from_string.  Fake: the dict that holds the directory plaintext (vt/lib_memdir.py).

Space.
 A. flat: parent in {SDMF dir, MDMF dir} x built by {create_new_mutable_directory, set_node per child}
    x EVERY single child and EVERY ordered pair (thorough: + every ordered triple over 12 kinds) of
    children from the catalogue (every cap kind of
    uri.py incl. REAL sub-directories that themselves hold a writeable file and a writeable
    sub-sub-directory; unknown-cap shapes with/without rw part and prefixes) x opened by
    {write-cap in a fresh client, read-cap in a fresh client, read-cap in the SAME client that just
    listed it through the write-cap (node cache warm)}.
 B. nesting depth 3: root -> d1 -> d2 -> leaf with dir kinds {SDMF, MDMF}^3, every link stored
    {with the child's write-cap, with its read-cap only}^3, leaf in {SSK, MDMF, DIR2, DIR2-MDMF,
    unknown rw+ro, CHK}, root opened by {write-cap, read-cap}.
Oracle.  Model authority of an object reached along a path = write iff the root was opened by its
write-cap AND every link on the path stores a write-cap.  Without model write authority the real
node must have get_write_uri() None, is_readonly() (known kinds), no write key, a get_uri() that
parses as a read-only cap, and every mutating directory operation tried through it must fail
and leave the stored bytes unchanged - recursively for every descendant.  With model write
authority the original write-cap string is recovered exactly (non-vacuity + the "only the
write-cap holder" half).  The directory plaintext (what any read-key holder obtains), parsed by an
independent netstring parser, must contain no child's write-cap, no write key (raw, hex, base32 at
every 5-bit alignment); its ro_uri field must not hold a write-cap; and the rwcapdata field,
attacked with every key derivable from the parent's READ-cap (read key, storage index, fingerprint
halves, zero key, the salt; used directly and through mutable_rwcap_key_hash), must not decrypt
to anything containing a secret.
"""
import itertools
import re

from cryptography.hazmat.primitives.ciphers import Cipher, algorithms, modes

from .. import common
from ..lib_memdir import World, fire, listing, mkdir, mkdir_at, mkimmdir, parse_packed, raw_contents
from allmydata import uri
from allmydata.interfaces import IDirectoryNode, IMutableFileNode
from allmydata.util import base32, hashutil

LEVEL = "exploration"
ASSUMPTIONS = [
    "small scope: <= 2 children per directory in the flat part, one chain of depth 3 in the nested part; each entry is encrypted independently with a key derived from (parent write key, child write-cap)",
    "leak search looks for the exact secret (write-cap string, write key raw/hex/base32 at all 5-bit alignments) and for decryptions under a fixed list of read-cap-derived candidate keys; it is not a cryptographic argument about AES/SHA-256d",
    "the mutable-file layer (encryption of the file under the read key) is replaced by a dict that holds exactly the plaintext a read-key holder obtains",
    "metadata 'no-write' (a request to diminish on store) is not used",
]

B32 = "abcdefghijklmnopqrstuvwxyz234567"


def b32_alignments(secret):
    """base32 text that must appear if `secret` is embedded at any bit alignment in a longer
    base32-encoded string"""
    bits = "".join("{:08b}".format(b) for b in secret)
    out = set()
    for s in range(5):
        n = (len(bits) - s) // 5
        if n >= 8:
            sub = bits[s:s + 5 * n]
            out.add("".join(B32[int(sub[i:i + 5], 2)] for i in range(0, len(sub), 5)).encode("ascii"))
    return out


def needles_for(kind, secret):
    """byte strings none of which may be visible to a read-cap holder"""
    if kind == "key":
        n = {secret, secret.hex().encode("ascii"), secret.hex().upper().encode("ascii")}
        n |= b32_alignments(secret)
        n |= {x.upper() for x in b32_alignments(secret)}
        return n
    return {secret, base32.b2a(secret), secret.hex().encode("ascii")}


def aes_ctr(key, data):
    d = Cipher(algorithms.AES(key), modes.CTR(b"\x00" * 16)).decryptor()
    return d.update(data) + d.finalize()


class Cat(object):
    """catalogue of children for one world: entries [(label, rw, ro)], and the secrets"""

    def __init__(self, w, c):
        self.entries = []
        self.secrets = []   # (label, kind, bytes)
        S = lambda u: u.to_string()  # noqa: E731

        def mut(label, cap, with_ro=True):
            self.secrets.append((label, "key", cap.writekey))
            self.secrets.append((label, "str", S(cap)))
            return cap

        chk = w.new_chk_cap(1000)
        lit = uri.LiteralFileURI(b"literal")
        ssk = mut("SSK", w.new_mutable_cap())
        ssk2 = mut("SSK-rw-only", w.new_mutable_cap())
        ssk3 = w.new_mutable_cap()      # only its read-cap is ever stored
        mdmf = mut("MDMF", w.new_mutable_cap(mdmf=True))
        mdmf2 = w.new_mutable_cap(mdmf=True)
        # real sub-directories, each with a writeable file and a writeable sub-directory inside
        def real_dir(label, is_mdmf):
            inner_file = mut(label + "/f", w.new_mutable_cap())
            inner_dir_cap = mut(label + "/d", w.new_mutable_cap(mdmf=not is_mdmf))
            deep_file = mut(label + "/d/g", w.new_mutable_cap(mdmf=True))
            inner_dir = mkdir_at(c, inner_dir_cap, {"g": (c.create_from_cap(S(deep_file)), {})})
            cap = mut(label, w.new_mutable_cap(mdmf=is_mdmf))
            d = mkdir_at(c, cap, {"f": (c.create_from_cap(S(inner_file)), {}),
                                  "d": (inner_dir, {}),
                                  "u": (c.create_from_cap(b"x-tahoe-crazy://inner-rw-" + label.encode(), b"x-tahoe-crazy-ro://inner"), {})})
            self.secrets.append((label + "/u", "str", b"x-tahoe-crazy://inner-rw-" + label.encode()))
            return d
        d_sdmf = real_dir("DIR2", False)
        d_mdmf = real_dir("DIR2-MDMF", True)
        d_ro = real_dir("DIR2-RO", False)          # linked by read-cap only
        d_mro = real_dir("DIR2-MDMF-RO", True)
        immdir = mkimmdir(c, {"c": (c.create_from_cap(S(chk)), {}), "l": (c.create_from_cap(S(lit)), {}),
                              "pad": (c.create_from_cap(S(w.new_chk_cap(5))), {"padding": "x" * 40})})
        litdir = mkimmdir(c, {"l": (c.create_from_cap(S(lit)), {})})
        fut_rw = b"x-tahoe-crazy://I_am_from_the_future.rw"
        fut_rw2 = b"x-f:0:,1:a,9:rw-secret"
        self.secrets.append(("unknown-rw+ro", "str", fut_rw))
        self.secrets.append(("unknown-netstringish", "str", fut_rw2))
        tw = b"x-tahoe-future-test-writeable:secret"
        self.secrets.append(("test-writeable", "str", tw))
        E = self.entries.append
        E(("CHK", None, S(chk)))
        E(("LIT", None, S(lit)))
        E(("SSK", S(ssk), S(ssk.get_readonly())))
        E(("SSK-rw-only", S(ssk2), None))
        E(("SSK-RO", None, S(ssk3.get_readonly())))
        E(("SSK-Verifier", None, S(ssk3.get_verify_cap())))
        E(("MDMF", S(mdmf), S(mdmf.get_readonly())))
        E(("MDMF-RO", None, S(mdmf2.get_readonly())))
        E(("MDMF-Verifier", None, S(mdmf2.get_verify_cap())))
        E(("DIR2", d_sdmf.get_uri(), d_sdmf.get_readonly_uri()))
        E(("DIR2-RO", None, d_ro.get_readonly_uri()))
        E(("DIR2-Verifier", None, S(d_ro.get_verify_cap())))
        E(("DIR2-CHK", None, immdir.get_uri()))
        E(("DIR2-CHK-Verifier", None, S(immdir.get_verify_cap())))
        E(("DIR2-LIT", None, litdir.get_uri()))
        E(("DIR2-MDMF", d_mdmf.get_uri(), None))
        E(("DIR2-MDMF-RO", None, d_mro.get_readonly_uri()))
        E(("DIR2-MDMF-Verifier", None, S(d_mro.get_verify_cap())))
        E(("unknown-ro", None, b"x-tahoe-crazy-readonly://I_am_from_the_future."))
        E(("unknown-rw+ro", fut_rw, b"x-tahoe-crazy-readonly://I_am_from_the_future."))
        E(("unknown-ro.prefixed", None, b"ro.x-tahoe-crazy-readonly://prefixed"))
        E(("unknown-imm.prefixed", None, b"imm.x-tahoe-crazy-immutable://prefixed"))
        E(("unknown-netstringish", fut_rw2, "x-f-ro:3:abc,2:☺,".encode("utf-8")))
        E(("test-writeable", tw, b"x-tahoe-crazy-readonly://w"))
        # a future-format cap offered as a WRITE-cap only: it cannot be diminished, so a directory either
        # refuses to link it or must keep it away from read-cap holders like any other write-cap
        fut_rw3 = b"x-tahoe-crazy://rw-only.future-WRITE-secret"
        self.secrets.append(("unknown-rw-only", "str", fut_rw3))
        E(("unknown-rw-only", fut_rw3, None))
        # known WRITE caps that are only ALLEGED read-only / immutable, offered in the read slot: a directory either
        # refuses to link them or must keep them away from read-cap holders (probes, like unknown-rw-only)
        for plabel, pcap in (("SSK", w.new_mutable_cap()), ("MDMF", w.new_mutable_cap(mdmf=True)),
                             ("DIR2", uri.DirectoryURI(w.new_mutable_cap())), ("DIR2-MDMF", uri.MDMFDirectoryURI(w.new_mutable_cap(mdmf=True)))):
            inner = pcap.get_filenode_cap() if hasattr(pcap, "get_filenode_cap") else pcap
            for pfx in (b"ro.", b"imm."):
                lab = "probe:%s%s-writecap" % (pfx.decode(), plabel)
                self.secrets.append((lab, "key", inner.writekey))
                self.secrets.append((lab, "str", S(pcap)))
                E((lab, None, pfx + S(pcap)))
        pairs = []
        for label, kind, sec in self.secrets:
            for n in needles_for(kind, sec):
                pairs.append((label, n))
        self.needles = Needles(pairs)


class Ctx(object):
    def __init__(self, seed):
        self.seed = seed
        self.w = World(seed, b"c18")
        self.c = self.w.client()
        self.cat = Cat(self.w, self.c)


class Needles(object):
    """all forbidden byte strings of one catalogue, searched with one compiled alternation"""

    def __init__(self, pairs):
        self.pairs = pairs
        self.rx = re.compile(b"|".join(re.escape(n) for (_, n) in sorted(pairs, key=lambda x: -len(x[1]))))
        self.cache = {}     # directory plaintext -> findings (the catalogue's sub-directories recur in every case)


def leak_scan(blob, needles):
    if not needles.rx.search(blob):
        return []
    return [label for (label, n) in needles.pairs if n in blob]


def check_plaintext(w, dirnode, needles, out, where, stats):
    """everything a holder of dirnode's READ cap can learn from the stored bytes"""
    data = raw_contents(w, dirnode)
    fcap = dirnode.get_cap().get_filenode_cap()
    ckey = (fcap.get_storage_index(), data)
    if ckey in needles.cache:
        out.extend((sig, "%s: %s" % (where, msg)) for sig, msg in needles.cache[ckey])
        stats["plaintexts_cached"] = stats.get("plaintexts_cached", 0) + 1
        return
    found = []
    _check_plaintext(data, fcap, needles, found, stats)
    needles.cache[ckey] = found
    stats["plaintexts"] = stats.get("plaintexts", 0) + 1
    out.extend((sig, "%s: %s" % (where, msg)) for sig, msg in found)


def _check_plaintext(data, fcap, needles, out, stats):
    where = "directory %s" % fcap.get_readonly().abbrev().decode()
    hits = leak_scan(data, needles)
    if hits:
        out.append(("plaintext-reveals-write-cap", "%s: directory plaintext (readable with the read key) contains the secret of %r" % (where, sorted(set(hits)))))
        return
    try:
        entries = parse_packed(data)
    except Exception as e:  # noqa
        out.append(("plaintext-unparseable", "%s: %r" % (where, e)))
        return
    ro = fcap.get_readonly()
    cands = [ro.readkey, ro.storage_index, ro.fingerprint[:16], ro.fingerprint[16:], b"\x00" * 16]
    for (name, ro_uri, rwcapdata, md) in entries:
        if ro_uri.strip():
            u = uri.from_string(ro_uri.strip())
            if not isinstance(u, uri.UnknownURI) and not u.is_readonly():
                out.append(("ro-field-holds-write-cap", "%s: entry %r stores %r in the cleartext ro_uri field" % (where, name, ro_uri)))
        salt = rwcapdata[:16]
        bodies = [rwcapdata[16:-32], rwcapdata[16:], rwcapdata]
        keys = list(cands) + [salt]
        keys += [hashutil.mutable_rwcap_key_hash(salt, k) for k in cands]
        for key in keys:
            if len(key) != 16:
                continue
            for body in bodies:
                stats["attacks"] = stats.get("attacks", 0) + 1
                pt = aes_ctr(key, body)
                if leak_scan(pt, needles) or b"URI:" in pt:
                    out.append(("rwcap-decryptable-without-write-key", "%s: entry %r rwcapdata decrypts to %r with a key derivable from the READ cap" % (where, name, pt[:80])))
                    return
    check_keystream_reuse(entries, needles, out, where, stats)


def _xor(a, b):
    n = min(len(a), len(b))
    return bytes(x ^ y for x, y in zip(a[:n], b[:n]))


def check_keystream_reuse(entries, needles, out, where, stats):
    """a read-cap holder who ALSO knows one child's write-cap (he created that child, say) must not
    learn a sibling's: ct_i xor ct_j xor rw_i = rw_j whenever two entries were encrypted under the same
    keystream.  Tried for every ordered pair of entries with every known write-cap as the known plaintext."""
    bodies = [(name, rw[16:-32]) for (name, ro_uri, rw, md) in entries if len(rw) > 48]
    caps = [n for (label, n) in needles.pairs if n.startswith(b"URI:")]
    for i, (ni, ci) in enumerate(bodies):
        for j, (nj, cj) in enumerate(bodies):
            if i == j:
                continue
            x = _xor(ci, cj)
            for known in caps:
                if len(known) != len(ci):
                    continue
                stats["known_plaintext_attacks"] = stats.get("known_plaintext_attacks", 0) + 1
                cand = _xor(x, known)
                if len(cand) >= 12 and any(o != known and o[:len(cand)] == cand for o in caps):
                    out.append(("sibling-write-cap-recoverable-from-one-known-write-cap", "%s: entries %r and %r are encrypted under the same keystream: knowing the write-cap stored in %r, a read-cap holder computes %r from the stored bytes" % (where, ni, nj, ni, cand[:60])))
                    return


def try_fire(f, *a, **kw):
    try:
        return fire(f(*a, **kw))
    except Exception as e:  # noqa
        return ("err", e)


def check_view(w, node, may_write, expect_rw, needles, out, path, stats, depth=0, some_file=None):
    """node was reached along `path`; may_write = model authority; expect_rw = the write-cap string
    the model says is recoverable (or None)"""
    where = "/".join(path) or "<root>"
    if node.is_unknown():
        got_rw = node.get_write_uri()
        stats["nodes"] = stats.get("nodes", 0) + 1
        if not may_write:
            if got_rw is not None:
                out.append(("write-cap-through-read-only-path", "%s: unknown child has rw_uri %r although reached read-only" % (where, got_rw)))
            blob = b"|".join(x for x in (node.get_uri(), node.get_readonly_uri()) if x)
            if leak_scan(blob, needles):
                out.append(("write-cap-through-read-only-path", "%s: unknown child caps %r reveal a secret" % (where, blob)))
        elif got_rw != expect_rw:
            out.append(("write-cap-not-recovered", "%s: via write authority expected rw %r, got %r" % (where, expect_rw, got_rw)))
        return
    stats["nodes"] = stats.get("nodes", 0) + 1
    got_rw = node.get_write_uri()
    if not may_write or expect_rw is None:
        probs = []
        if got_rw is not None:
            probs.append("get_write_uri()=%r" % got_rw)
        if not node.is_readonly():
            probs.append("is_readonly() is False")
        u = uri.from_string(node.get_uri())
        if isinstance(u, uri.UnknownURI) or not u.is_readonly():
            probs.append("get_uri()=%r is not a read-only cap" % node.get_uri())
        inner = getattr(node, "_node", node)
        if IMutableFileNode.providedBy(inner) and inner.get_writekey() is not None:
            probs.append("backing mutable file node has a write key")
        blob = b"|".join(x for x in (node.get_uri(), node.get_readonly_uri(), repr(node).encode()) if x)
        if leak_scan(blob, needles):
            probs.append("caps/repr %r reveal a secret" % blob)
        if probs:
            out.append(("write-cap-through-read-only-path", "%s: %s" % (where, "; ".join(probs))))
            return
    else:
        if got_rw != expect_rw:
            out.append(("write-cap-not-recovered", "%s: via write authority expected %r, got %r" % (where, expect_rw, got_rw)))
            return
        stats["writable_nodes"] = stats.get("writable_nodes", 0) + 1
    if not IDirectoryNode.providedBy(node):
        return
    # is the directory readable in this world? (bare caps are not)
    fcap = node.get_cap().get_filenode_cap()
    if isinstance(fcap, uri.CHKFileURI) and fcap.to_string() not in w.chk:
        return
    if fcap.is_mutable() and fcap.get_storage_index() not in w.mutable:
        return
    effective = may_write and expect_rw is not None and node.is_mutable()
    if node.is_mutable():
        check_plaintext(w, node, needles, out, where, stats)
        if not effective and some_file is not None:
            before = w.mutable[fcap.get_storage_index()]
            kids = listing(node)
            attempts = [("set_node", lambda: node.set_node("zz", some_file)),
                        ("set_uri", lambda: node.set_uri("zz", None, some_file.get_uri())),
                        ("set_children", lambda: node.set_children({"zz": (None, some_file.get_uri())})),
                        ("create_subdirectory", lambda: node.create_subdirectory("zz"))]
            for n0 in sorted(kids)[:1]:
                attempts.append(("delete", lambda n0=n0: node.delete(n0)))
                attempts.append(("set_metadata_for", lambda n0=n0: node.set_metadata_for(n0, {"k": 1})))
                attempts.append(("move_child_to", lambda n0=n0: node.move_child_to(n0, node, "yy")))
            for opname, op in attempts:
                k, v = try_fire(op)
                stats["write_attempts"] = stats.get("write_attempts", 0) + 1
                if k == "ok" or w.mutable[fcap.get_storage_index()] != before:
                    out.append(("write-through-read-only-directory", "%s: %s on a directory reached read-only %s" % (where, opname, "succeeded" if k == "ok" else "changed the stored bytes")))
                    w.mutable[fcap.get_storage_index()] = before
                    return
    if depth >= 4:
        return
    # model of the children: parse the stored plaintext independently and decide per child
    for name, (child, md) in sorted(listing(node).items()):
        child_expect = None
        if effective:
            # the model: the child's write-cap is whatever was stored; recover it independently
            child_expect = stored_rw(w, node, name)
        check_view(w, child, effective, child_expect, needles, out, path + [name], stats, depth + 1, some_file)


def stored_rw(w, dirnode, name):
    """independent recovery of the stored write-cap with the directory's write key (spec:
    salt(16) | AES-CTR(H(salt, writekey), rw_uri) | mac(32))"""
    wk = dirnode.get_cap().get_filenode_cap().writekey
    for (n, ro_uri, rwcapdata, md) in parse_packed(raw_contents(w, dirnode)):
        if n.decode("utf-8") == name:
            pt = aes_ctr(hashutil.mutable_rwcap_key_hash(rwcapdata[:16], wk), rwcapdata[16:-32])
            return pt.rstrip(b" ") or None
    return None


def open_views(w, builder_client, root, mode):
    if mode == "rw":
        return w.client().create_from_cap(root.get_uri()), True
    if mode == "ro":
        return w.client().create_from_cap(root.get_readonly_uri()), False
    # same client: list through the write-cap first (warms the node cache), then open by read-cap
    c = w.client()
    c._c18_keepalive = listing(c.create_from_cap(root.get_uri()))   # keep the writable nodes alive in the (weak) node cache
    return c.create_from_cap(root.get_readonly_uri()), False


def check_case(case, ctx=None):
    if ctx is None or ctx.seed != case["seed"]:
        ctx = Ctx(case["seed"])
    w, c, cat = ctx.w, ctx.c, ctx.cat
    out = []
    stats = {}
    some_file = c.create_from_cap(w.new_chk_cap(10).to_string())
    if case["kind"] == "flat":
        kids = []
        for i, ci in enumerate(case["children"]):
            label, rw, ro = cat.entries[ci]
            node = c.create_from_cap(rw, ro)
            if label == "unknown-rw-only" or label.startswith("probe:"):
                probe = mkdir(c, mdmf=False)
                k0, v0 = try_fire(probe.set_node, "probe", node)
                sk = ("unknown_rw_only:" if label == "unknown-rw-only" else "alleged_writecap_probe:") + ("accepted" if k0 == "ok" else "refused")
                stats[sk] = stats.get(sk, 0) + 1
                if k0 != "ok":
                    continue        # refused: nothing is stored, nothing to leak
            kids.append(("k%d" % i, node, rw is not None))
        mdmf = case["parent"] == "mdmf"
        if case["build"] == "create":
            root = mkdir(c, {n: (node, {}) for (n, node, _) in kids}, mdmf=mdmf)
        else:
            root = mkdir(c, mdmf=mdmf)
            for (n, node, _) in kids:
                k, v = fire(root.set_node(n, node))
                if k != "ok":
                    raise RuntimeError("set_node failed in C18 builder: %r" % (v,))
        expect = {n: node.get_write_uri() for (n, node, _) in kids}
        for mode in case["modes"]:
            view, may_write = open_views(w, c, root, mode)
            vout = []
            if may_write:
                # top level: exact recovery against the builder's knowledge (not the parser)
                got = {n: ch.get_write_uri() for n, (ch, md) in listing(view).items()}
                if got != expect:
                    vout.append(("write-cap-not-recovered", "opened by write-cap: children write-caps %r, expected %r" % (got, expect)))
            check_view(w, view, may_write, root.get_uri() if may_write else None, cat.needles, vout, [], stats, 0, some_file)
            out.extend((sig, "[opened %s] %s" % (mode, msg)) for sig, msg in vout)
    else:
        # chain root -> d1 -> d2 -> leaf
        kinds, links, leaf_ci, mode = case["kinds"], case["links"], case["leaf"], case["mode"]
        label, rw, ro = cat.entries[leaf_ci]
        full = c.create_from_cap(rw, ro)
        leaf = full if links[2] else c.create_from_cap(None, full.get_readonly_uri())
        d2 = mkdir(c, {"leaf": (leaf, {})}, mdmf=kinds[2])
        l2 = d2 if links[1] else c.create_from_cap(d2.get_readonly_uri())
        d1 = mkdir(c, {"d2": (l2, {})}, mdmf=kinds[1])
        l1 = d1 if links[0] else c.create_from_cap(d1.get_readonly_uri())
        root = mkdir(c, {"d1": (l1, {})}, mdmf=kinds[0])
        view, may_write = open_views(w, c, root, mode)
        check_view(w, view, may_write, root.get_uri() if may_write else None, cat.needles, out, [], stats, 0, some_file)
        # explicit model verdict for the leaf (independent of the parser-based recursion)
        model_rw = may_write and all(links) and rw is not None
        k, v = fire(view.get_child_at_path(["d1", "d2", "leaf"]))
        if k != "ok":
            out.append(("nested-child-unreachable", "get_child_at_path failed: %r" % (v,)))
        else:
            got = v.get_write_uri()
            if model_rw and got != rw:
                out.append(("write-cap-not-recovered", "chain %r opened %s: leaf write-cap %r expected %r" % (links, mode, got, rw)))
            if not model_rw and got is not None:
                out.append(("write-cap-through-read-only-path", "chain links(rw?)=%r opened %s: leaf %s yields write-cap %r" % (links, mode, label, got)))
            stats["leaf_rw" if model_rw else "leaf_ro"] = 1
    return out, stats


def replay(case):
    return check_case(case)[0]


def _chunk(chunk, seed):
    res = common.Result()
    ctx = Ctx(seed)
    for i, case in enumerate(chunk):
        case = dict(case, seed=seed)
        bad, stats = check_case(case, ctx)
        res.count("evaluations")
        for k, v in stats.items():
            res.count(k, v)
        if case["kind"] == "nested" or len(case["children"]) == 2 or any(ctx.cat.entries[ci][1] for ci in case["children"]):
            res.count("nontrivial")
        desc = ([ctx.cat.entries[ci][0] for ci in case["children"]] if case["kind"] == "flat"
                else "leaf=%s" % ctx.cat.entries[case["leaf"]][0])
        for sig, msg in bad:
            res.violation(sig, case, "%s   [%s]" % (msg, desc))
        if i == 1:
            res.sample({"case": case, "children": desc, "stats": stats})
    return res


def gen_cases(tier):
    n = len(Ctx(0).cat.entries)
    cases = []
    modes = ["rw", "ro", "ro-after-rw-same-client"]
    for parent in ("sdmf", "mdmf"):
        for build in ("create", "add"):
            for a in range(n):
                cases.append({"kind": "flat", "parent": parent, "build": build, "children": [a], "modes": modes})
            for a in range(n):
                for b in range(n):
                    cases.append({"kind": "flat", "parent": parent, "build": build, "children": [a, b], "modes": modes})
    labels = [e[0] for e in Ctx(0).cat.entries]
    if tier == "thorough":
        sub = [labels.index(x) for x in ("CHK", "SSK", "SSK-rw-only", "SSK-RO", "MDMF", "DIR2", "DIR2-RO", "DIR2-MDMF", "DIR2-CHK", "unknown-ro", "unknown-rw+ro", "test-writeable")]
        for parent in ("sdmf", "mdmf"):
            for build in ("create", "add"):
                for tri in itertools.product(sub, repeat=3):
                    cases.append({"kind": "flat", "parent": parent, "build": build, "children": list(tri), "modes": modes})
    nflat = len(cases)
    leaves = [labels.index(x) for x in ("SSK", "MDMF", "DIR2", "DIR2-MDMF", "unknown-rw+ro", "CHK")]
    for kinds in itertools.product((False, True), repeat=3):
        for links in itertools.product((True, False), repeat=3):
            for leaf in leaves:
                for mode in modes:
                    cases.append({"kind": "nested", "kinds": list(kinds), "links": list(links), "leaf": leaf, "mode": mode})
    return cases, n, nflat


def run(tier, seed):
    cases, n, nflat = gen_cases(tier)
    res = common.pmap(_chunk, cases, (seed,), chunks=common.NWORKERS * 4)
    cov = {
        "evaluations": res.counts.get("evaluations", 0),
        "distinct_nontrivial": res.counts.get("nontrivial", 0),
        "exhaustive": True,
        "nodes_inspected": res.counts.get("nodes", 0),
        "nodes_with_write_authority": res.counts.get("writable_nodes", 0),
        "write_attempts_through_ro": res.counts.get("write_attempts", 0),
        "rwcap_decryption_attacks": res.counts.get("attacks", 0),
        "rule": "flat: {SDMF,MDMF parent} x {create, add} x every single child and every ordered pair of %d catalogue children (thorough: plus every ordered triple of 12 of them) (%d cases), each opened by write-cap / read-cap in fresh clients and by read-cap in a cache-warm client; nested: 2^3 dir kinds x 2^3 link kinds x 6 leaves x 3 open modes (%d cases). non-trivial = at least one write-capable child, or two children, or nested. Every directory reached (to depth 4 incl. the real sub-directories of the catalogue) is inspected recursively: %d nodes, %d of them legitimately writable, %d refused write attempts, %d decryption attempts with read-cap-derived keys." % (
            n, nflat, len(cases) - nflat, res.counts.get("nodes", 0), res.counts.get("writable_nodes", 0), res.counts.get("write_attempts", 0), res.counts.get("attacks", 0)),
    }
    return res, cov


MANIFEST = {
    "engine": "E",
    "technique": "exhaustive small-scope enumeration of (parent kind x child kind(s) x opening capability x link kinds along a depth-3 chain) on the real DirectoryNode/NodeMaker over memory-backed files, with an authority model and a leak search over the stored plaintext",
    "text": "Every single child and ordered pair of children from a catalogue of all capability kinds (with real nested sub-directories) is stored in SDMF and MDMF directories and read back through the write-cap and the read-cap; every chain root->d1->d2->leaf over directory kinds and rw/ro links is built. Along every path without write authority the real nodes must expose no write-cap, no write key and refuse all seven mutating operations; the stored directory bytes are searched for every child secret (raw, hex, base32 at all bit alignments) and the encrypted write-cap field is attacked with every key derivable from the read-cap. A read-cap holder who knows ONE child's write-cap mounts the known-plaintext attack ct_i xor ct_j xor rw_i on every pair of entries; a future-format cap offered as write-cap only is in the catalogue. Known write-caps that are only alleged read-only/immutable are offered in the read slot as probes.",
    "note": "Small scope and a fixed list of attack keys: this finds structural mistakes (wrong key, wrong slot, missing read-only context), it is not a cryptographic proof. The mutable-file encryption layer is replaced by a dict holding the plaintext.",
}
