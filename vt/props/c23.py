"""C23  Mutable share containers behave like byte arrays  (Engine H: BFS over operation histories).

System under test: a real StorageServer (slot_testv_and_readv_and_writev / slot_readv; the
FoolscapStorageServer remote_* wrapper in the `renew` roots) on tmpfs.  One slot.  Roots: share 0
pre-loaded with L in {0,1,4,5,6} leases (L >= 5 puts leases into the extra-lease area BEHIND the
data, which has to move whenever the container grows), with or without a bystander share 1
that carries the same leases and 3 bytes of data and is never addressed.

Operations on share 0 (each enabled one is tried from every reached state):
    writev(vectors, new_length) with a test vector that MATCHES the current data
    vectors   : none | one (offset in {0,1,3,6,9,40} x length in {1,2,5}) | an ordered pair of
                non-overlapping vectors (quick: from {(0,1),(3,2),(9,5),(40,1)}, thorough: from all 18;
                overlapping pairs are outside the API contract: interfaces.py says so)
    new_length: None | 0 (delete) | 2 | 5 | 50
    payload   : byte at absolute position p is A[p]; the alphabet A alternates between two
                disjoint non-zero alphabets with the parity of the history length, so a rewrite
                always changes every byte it touches and stale/zero/moved bytes are all
                distinguishable (VERIF_SEED shifts the alphabets)
Observations in every reached state (they must leave the slot byte-identical, which is checked):
    slot_readv of every (offset 0..12 + around the end) x (length 0,1,5,100) on all shares;
    requests whose test vector must FAIL: last byte off by one, a specimen extending one zero
    byte past the end (reads are clipped, so it must not match), for an absent share the
    specimen b"x" (a missing share reads as empty); each carries a write that would be visible.
    get_leases() and the raw lease bytes (4 header slots, extra-lease block) of every share.

Oracle: bytearray reference: a write beyond the end zero-fills the gap (also after a truncation:
stale bytes must not come back), new_length < length truncates, new_length 0 deletes, reads are
clipped, the returned read data is the PRE-state; new_length larger than the data: the interface
says ignored, the statement is silent -> both "ignored" and "zero-extended" are accepted and
counted.  Leases: identical before/after every data operation, through get_leases() AND as raw
bytes; the bystander share's file must stay byte-identical.  In the `renew` roots the request goes
through remote_slot_testv_and_readv_and_writev (renew_leases=True) with the secrets of lease 1:
the only legitimate lease change is one added record for that secret when absent (expected bytes
computed here with hashlib.blake2b).

State = the bytes of every file in the slot's bucket directory (canonical form: their SHA-256).
Why merged states have the same futures: the mutable-slot code keeps NO in-memory state
(every request builds MutableShareFile objects from the files; the clock is not advanced in
this check, and it only feeds lease expiry), so the future is a function of exactly these bytes.
For the same reason a worker may restore a frontier state by rewriting these bytes instead of
replaying the history for every operation; reported violations are re-executed from scratch by
replay(), and EVERY frontier state is re-derived by replaying its history before it is expanded;
lib_storage.level_bfs compares the canonical form of that replayed state with the one computed
when the state was first produced from restored bytes (a mismatch is a harness error).
"""
import hashlib
import os
import shutil
import struct

from .. import common, boot
from .. import lib_storage as L

LEVEL = "model_checking"
ASSUMPTIONS = [
    "one slot, offsets <= 45, at most 2 vectors per call, histories up to the length in coverage.max_depth; offsets >= 2^32 and 40-operation histories are outside; MAX_SIZE rejection is only counted",
    "the payload alphabet is chosen by the parity of the history length (each (range,new_length) is still tried from every state)",
    "no in-memory state in the mutable slot code (by inspection of storage/server.py and storage/mutable.py), which justifies restoring a state from its bytes",
    "overlapping write vectors inside one request are not issued (unspecified by interfaces.py)",
]

SI = b"\xcd\x10" + b"M" * 14
WE = b"W1" * 16
OFFS = [0, 1, 3, 6, 9, 40]
LENS = [1, 2, 5]
NEWLEN = [None, 0, 2, 5, 50]
SINGLES = [(o, l) for o in OFFS for l in LENS]
REDUCED = [(0, 1), (3, 2), (9, 5), (40, 1)]


def secret(i):
    return (b"rn%02d" % i) * 8, (b"cn%02d" % i) * 8


def blake(x):
    return hashlib.blake2b(x, digest_size=32).digest()


def alphabet(seed, parity):
    if parity == 0:
        return bytes(0x21 + (p + seed) % 0x5e for p in range(64))
    return bytes(0x80 + (p * 3 + seed) % 0x7f for p in range(64))


def overlap(a, b):
    return a[0] < b[0] + b[1] and b[0] < a[0] + a[1]


def vector_sets(alpha):
    """alpha: "narrow" (none + 4 single vectors), "reduced" (none + 18 singles + 12 pairs), "allpairs"."""
    if alpha == "narrow":
        return [[]] + [[v] for v in REDUCED]
    sets = [[]] + [[v] for v in SINGLES]
    base = REDUCED if alpha == "reduced" else SINGLES
    for a in base:
        for b in base:
            if a != b and not overlap(a, b):
                sets.append([a, b])
    return sets


def newlens(alpha):
    return [None, 0, 2, 50] if alpha == "narrow" else NEWLEN


# ------------------------------------------------------------------ slot on disk
class Slot(object):
    def __init__(self, cfg, box):
        self.cfg, self.box = cfg, box
        self.dir = box.bucket_dir(SI)
        self.seed = cfg.get("seed", 0)
        self.renew = bool(cfg.get("renew"))
        self.viols = []
        self.stats = {}

    def bad(self, sig, msg):
        self.viols.append((sig, msg))

    def note(self, k, n=1):
        self.stats[k] = self.stats.get(k, 0) + n

    def snap(self):
        out = {}
        if os.path.isdir(self.dir):
            for fn in sorted(os.listdir(self.dir)):
                with open(os.path.join(self.dir, fn), "rb") as f:
                    out[fn] = f.read()
            out["."] = b""
        return out

    def restore(self, snap):
        if os.path.isdir(self.dir):
            shutil.rmtree(self.dir)
        if "." in snap:
            os.makedirs(self.dir)
            for fn, raw in snap.items():
                if fn != ".":
                    with open(os.path.join(self.dir, fn), "wb") as f:
                        f.write(raw)

    def canon(self, snap):
        h = hashlib.sha256(self.cfg["name"].encode())
        for k in sorted(snap):
            h.update(b"%s:%d:" % (k.encode(), len(snap[k])) + snap[k])
        return h.digest()

    def request(self, tw, readv):
        secrets = (WE,) + secret(1)
        if self.renew:
            return self.box.fss.remote_slot_testv_and_readv_and_writev(SI, secrets, tw, readv)
        return self.box.ss.slot_testv_and_readv_and_writev(SI, secrets, tw, readv, renew_leases=False)

    # -------------------------------------------------------------- root
    def setup(self):
        shares = [0, 1] if self.cfg.get("bystander") else [0]
        tw = {sh: ([], [], None) for sh in shares}
        self.box.ss.slot_testv_and_readv_and_writev(SI, (WE,) + secret(1), tw, [], renew_leases=False)
        if self.cfg.get("bystander"):
            self.box.ss.slot_testv_and_readv_and_writev(SI, (WE,) + secret(1), {1: ([], [(0, b"\xee\xef\xf0")], None)}, [], renew_leases=False)
        for i in range(1, self.cfg["L"] + 1):
            r, c = secret(i)
            self.box.ss.add_lease(SI, r, c)


def model_of(snap):
    """Reference state of share 0 derived from a state that was verified equal to the model:
    {"data": bytes|None, "slots": [(idx, 92-byte record)]}"""
    raw = snap.get("0")
    if raw is None:
        return {"data": None, "slots": []}
    p = L.parse_mutable(raw)
    recs = p["slots"] + p["extra"]
    return {"data": p["data"], "slots": [(i, r) for i, r in enumerate(recs) if L.mut_lease_fields(r)["owner"] != 0 or L.mut_lease_fields(r)["short"]]}


def apply_model(m, vectors, new_length):
    """-> list of acceptable (data|None) results"""
    data = m["data"]
    if new_length == 0:
        return [None]
    d = bytearray(data or b"")
    for off, payload in vectors:
        if off > len(d):
            d.extend(b"\x00" * (off - len(d)))
        d[off:off + len(payload)] = payload
    if new_length is not None and new_length < len(d):
        del d[new_length:]
        return [bytes(d)]
    if new_length is not None and new_length > len(d):
        return [bytes(d), bytes(d) + b"\x00" * (new_length - len(d))]
    return [bytes(d)]


def clip(data, off, ln):
    return (data or b"")[off:off + ln]


def describe(op):
    return "writev(%r, new_length=%r)" % ([(o, bytes(d)) for o, d in op[1]], op[2])


def do_op(slot, op, m, pre_snap, check):
    """Apply ["w", [[off, data]...], new_length] to the real slot; if check, compare with the model.
    Returns the new model (or None when the state is not trustworthy)."""
    vectors = [(o, bytes(d)) for o, d in op[1]]
    new_length = op[2]
    pre = m["data"]
    testv = [(0, 100, b"eq", pre or b"")]
    try:
        ok, reads = slot.request({0: (testv, vectors, new_length)}, [(0, 1000)])
    except Exception as e:  # noqa
        if check:
            slot.bad("writev-raised:" + L.exc_name(e), "%s on data=%r raised %r" % (describe(op), pre, e))
        return None
    if not check:
        return model_of(slot.snap())
    pre_present = sorted(int(k) for k in pre_snap if k != ".")
    where = "%s on data=%r (leases in slots %r)" % (describe(op), pre, [i for i, r in m["slots"]])
    if ok is not True:
        slot.bad("matching-testv-refused", "%s: the test vector (0,100,eq,<current data>) did not pass: result %r" % (where, ok))
        return None
    want_reads = {}
    for sh in pre_present:
        want_reads[sh] = [clip(L.parse_mutable(pre_snap[str(sh)])["data"], 0, 1000)] if sh != 0 else [pre or b""]
    if dict(reads) != want_reads:
        slot.bad("read-data-not-prestate", "%s returned read data %r, the data before the request was %r" % (where, reads, want_reads))
    post = slot.snap()
    accept = apply_model(m, vectors, new_length)
    raw = post.get("0")
    if raw is None:
        got = None
    else:
        try:
            rd = slot.box.ss.slot_readv(SI, [0], [(0, 100000)])
            got = rd.get(0, [None])[0]
        except Exception as e:  # noqa
            slot.bad("readv-raised:" + L.exc_name(e), "%s then slot_readv raised %r" % (where, e))
            return None
    if got not in accept:
        want = accept[0]
        sig = "wrong-data"
        if want is None:
            sig = "not-deleted"
        elif got is None:
            sig = "share-vanished"
        elif len(got) != len(want):
            sig = "wrong-length"
        else:
            diff = [i for i in range(len(want)) if got[i] != want[i]]
            if all(want[i] == 0 for i in diff):
                sig = "gap-not-zero-filled"
            elif all(got[i] == 0 for i in diff):
                sig = "data-zeroed"
        slot.bad(sig, "%s: share 0 now reads %r, expected %r" % (where, got, want))
        return None
    if len(accept) > 1:
        slot.note("larger-new_length-ignored" if got == accept[0] else "larger-new_length-zero-extends")
    # ---- leases
    if got is not None:
        p = L.parse_mutable(raw)
        recs = p["slots"] + p["extra"]
        now_slots = [(i, r) for i, r in enumerate(recs) if L.mut_lease_fields(r)["owner"] != 0 or L.mut_lease_fields(r)["short"]]
        if any(L.mut_lease_fields(r)["short"] for r in recs) or p["nextra"] is None:
            slot.bad("lease-area-truncated", "%s: the container's extra-lease area is cut short by the end of the file (extra_lease_offset=%d, count=%r, file size %d)"
                     % (where, p["extra_lease_offset"], p["nextra"], len(raw)))
        if pre is None:
            want_slots = []          # re-created container starts without leases
        else:
            want_slots = list(m["slots"])
        if slot.renew:
            r1, c1 = secret(1)
            if not any(L.mut_lease_fields(r)["renew"] == blake(r1) for i, r in want_slots):
                used = set(i for i, r in want_slots)
                idx = min(i for i in range(len(want_slots) + 1) if i not in used)
                rec = struct.pack(">LL32s32s20s", 1, int(L.T0 + L.LEASE_PERIOD), blake(r1), blake(c1), L.NODEID)
                want_slots = sorted(want_slots + [(idx, rec)])
        if now_slots != want_slots:
            slot.bad("leases-changed-by-data-write:raw", "%s: lease records before %s, after %s" % (where, show_slots(want_slots), show_slots(now_slots)))
        try:
            from allmydata.storage.mutable import MutableShareFile
            api = [L.lease_tuple(li) for li in MutableShareFile(os.path.join(slot.dir, "0")).get_leases()]
        except Exception as e:  # noqa
            slot.bad("get_leases-raised:" + L.exc_name(e), "%s then get_leases() raised %r" % (where, e))
            api = None
        if api is not None:
            want_api = []
            for i, r in want_slots:
                want_api.append(L.expected_lease_tuple(L.mut_lease_fields(r), hashed=True))
            if api != want_api:
                slot.bad("leases-changed-by-data-write:get_leases", "%s: get_leases() = %s, expected %s" % (where, show_api(api), show_api(want_api)))
        if pre is not None:
            pp = L.parse_mutable(pre_snap["0"])
            if (p["magic"], p["nodeid"], p["write_enabler"]) != (pp["magic"], pp["nodeid"], pp["write_enabler"]):
                slot.bad("container-header-changed", "%s: magic/nodeid/write-enabler changed" % where)
        if p["tail"]:
            slot.note("bytes-after-extra-leases")
    for k in pre_snap:
        if k not in ("0", ".") and post.get(k) != pre_snap[k]:
            slot.bad("bystander-share-changed", "%s: share %s (not addressed) changed on disk" % (where, k))
    if got is None and "." in post and len(post) == 1:
        slot.note("empty-bucket-dir-left")
    return {"data": got, "slots": want_slots if got is not None else []}


def show_slots(slots):
    return "[" + ", ".join("%d:%s/exp%d" % (i, L.mut_lease_fields(r)["renew"][:3].hex(), L.mut_lease_fields(r)["expiry"]) for i, r in slots) + "]"


def show_api(api):
    return "[" + ", ".join("%s/exp%d" % (t[1][:11], t[3]) for t in api) + "]"


READV = [(o, l) for o in range(13) for l in (0, 1, 5, 100)]


def observe(slot, m):
    """Non-mutating observations of the current state (already equal to the model m)."""
    snap = slot.snap()
    data = m["data"]
    n = len(data or b"")
    readv = READV + [(o, l) for o in (max(0, n - 1), n, n + 1, 44) for l in (1, 5, 100)]
    try:
        rd = slot.box.ss.slot_readv(SI, [], readv)
    except Exception as e:  # noqa
        slot.bad("readv-raised:" + L.exc_name(e), "slot_readv raised %r on data=%r" % (e, data))
        return
    present = sorted(int(k) for k in snap if k != ".")
    if sorted(rd) != present:
        slot.bad("readv-wrong-shares", "slot_readv lists shares %r, on disk %r" % (sorted(rd), present))
    for sh in present:
        d = data if sh == 0 else L.parse_mutable(snap[str(sh)])["data"]
        got = rd.get(sh)
        if got is None:
            continue
        for (o, l), g in zip(readv, got):
            slot.note("reads")
            if g != clip(d, o, l):
                sig = "read-not-clipped" if len(g) > len(clip(d, o, l)) else "read-wrong"
                slot.bad(sig, "slot_readv share %d (offset=%d,length=%d) = %r, data is %r (expected %r)" % (sh, o, l, g, d, clip(d, o, l)))
                break
    # requests that must be refused
    marker = (0, b"\xfe\xfd")
    tests = []
    if data is None:
        tests.append(("absent-share-not-empty", [(0, 1, b"eq", b"x")]))
    else:
        if n:
            tests.append(("off-by-one-specimen-passed", [(0, n, b"eq", data[:-1] + bytes([data[-1] ^ 1]))]))
            tests.append(("off-by-one-window-passed", [(1, n, b"eq", data)]))
        tests.append(("testv-read-not-clipped", [(0, n + 1, b"eq", data + b"\x00")]))
        tests.append(("testv-read-not-clipped", [(n, 1, b"eq", b"\x00")]))
        if n:
            # several vectors for one share: ALL must hold (a failing one first, in the middle, last)
            good, bad_ = (0, n, b"eq", data), (0, n, b"eq", data[:-1] + bytes([data[-1] ^ 1]))
            tests.append(("failing-vector-before-passing-one", [bad_, good]))
            tests.append(("failing-vector-between-passing-ones", [good, bad_, good]))
            tests.append(("failing-vector-after-passing-one", [good, bad_]))
    for sig, tv in tests:
        slot.note("failing-testv-requests")
        try:
            ok, reads = slot.request({0: (tv, [marker], None)}, [])
        except Exception as e:  # noqa
            slot.bad("testv-raised:" + L.exc_name(e), "request with testv %r raised %r" % (tv, e))
            continue
        if ok is not False:
            slot.bad("testv:" + sig, "test vector %r passed against data %r" % (tv, data))
        after = slot.snap()
        if after != snap:
            slot.bad("refused-request-changed-disk", "request with failing testv %r (result %r) changed the slot on disk; data was %r" % (tv, ok, data))
            slot.restore(snap)


def ops_for(hist_len, alpha, seed):
    A = alphabet(seed, hist_len % 2)
    ops = []
    for vs in vector_sets(alpha):
        for nl in newlens(alpha):
            ops.append(["w", [[o, A[o:o + l]] for (o, l) in vs], nl])
    return ops


def rebuild(slot, hist):
    """Replay hist (hist[0] is the cfg) on the box; returns (model, snapshot) or None if a step
    could not be executed."""
    slot.restore({})
    slot.setup()
    m = model_of(slot.snap())
    for op in hist[1:]:
        m = do_op(slot, op, m, None, check=False)
        if m is None:
            return None
    return m


def expand(chunk):
    res = common.Result()
    succ, selfs = [], []
    box = L.Box()
    try:
        for hist in chunk:
            cfg = hist[0][1]
            slot = Slot(cfg, box)
            try:
                m = rebuild(slot, hist)
            except Exception as e:  # noqa  (code under test failed while building the root / replaying the prefix)
                res.violation("rebuild-raised:" + L.exc_name(e), {"history": hist}, "building the state of history %r raised %r" % (hist[1:], e))
                selfs.append(hashlib.sha256(repr(hist).encode()).digest())
                continue
            snap = slot.snap()
            selfs.append(slot.canon(snap))
            if len(hist) == 1:
                observe(slot, m)
                if cfg["L"] != len(m["slots"]):
                    raise RuntimeError("root has %d leases, wanted %d" % (len(m["slots"]), cfg["L"]))
                for sig, msg in slot.viols:
                    res.violation(sig, {"history": hist}, msg)
                slot.viols = []
            for op in ops_for(len(hist) - 1, cfg["alpha"], cfg.get("seed", 0)):
                slot.restore(snap)
                m2 = do_op(slot, op, m, snap, check=True)
                if m2 is not None:
                    observe(slot, m2)
                post = slot.snap()
                h2 = hist + [op]
                bad = bool(slot.viols)
                for sig, msg in slot.viols:
                    res.violation(sig, {"history": h2}, msg)
                slot.viols = []
                succ.append((slot.canon(post), h2, bad))
                if m2 is not None and m2["data"] is not None:
                    res.distinct.add(len(m2["data"]))
            for k, v in slot.stats.items():
                res.count("outcome:" + k, v)
        res.notes["succ"] = succ
        res.notes["self"] = selfs
    finally:
        box.close()
    return res


def replay(case):
    """Re-execute the whole history on a fresh server, checking the last operation."""
    hist = case["history"]
    box = L.Box()
    try:
        slot = Slot(hist[0][1], box)
        try:
            m = rebuild(slot, hist if len(hist) == 1 else hist[:-1])
        except Exception as e:  # noqa
            return [("rebuild-raised:" + L.exc_name(e), repr(e))]
        if len(hist) == 1:
            observe(slot, m)
            return slot.viols
        snap = slot.snap()
        m2 = do_op(slot, hist[-1], m, snap, check=True)
        if m2 is not None:
            observe(slot, m2)
        return slot.viols
    finally:
        box.close()


def roots_for(alpha, seed, small):
    out = []
    if alpha == "allpairs":     # 1345 operations per state: three representative roots only
        return [{"name": "%s:L%d" % (alpha, Ln), "alpha": alpha, "L": Ln, "bystander": False, "renew": False, "seed": seed} for Ln in (0, 5, 6)]
    for Ln in (0, 1, 4, 5, 6):
        for by in (False, True):
            if small and by and Ln not in (0, 5):
                continue
            out.append({"name": "%s:L%d%s" % (alpha, Ln, "+bystander" if by else ""), "alpha": alpha, "L": Ln, "bystander": by, "renew": False, "seed": seed})
    for Ln in (0, 5):
        out.append({"name": "%s:L%d+renew" % (alpha, Ln), "alpha": alpha, "L": Ln, "bystander": False, "renew": True, "seed": seed})
    return out


PLANS = {
    "quick": [("reduced", 2, True), ("narrow", 4, True)],
    "thorough": [("reduced", 3, False), ("allpairs", 2, False), ("narrow", 6, False)],
}


def oversize_probe(res):
    """MAX_SIZE rejection, counted only (the statement is silent)."""
    from allmydata.mutable.layout import MAX_MUTABLE_SHARE_SIZE
    box = L.Box()
    try:
        slot = Slot({"name": "oversize", "L": 1, "seed": 0}, box)
        slot.setup()
        before = slot.snap()
        try:
            r = slot.request({0: ([], [(MAX_MUTABLE_SHARE_SIZE, b"x")], None)}, [])
            res.count("outcome:oversize-write-accepted:%r" % (r[0],))
        except Exception as e:  # noqa
            res.count("outcome:oversize-write-raised:" + L.exc_name(e))
        res.count("outcome:oversize-write-left-disk-%s" % ("unchanged" if slot.snap() == before else "changed"))
    finally:
        box.close()


def run(tier, seed):
    plan = PLANS[tier]
    if os.environ.get("VERIF_C23_PLAN"):    # e.g. "narrow:3,reduced:1"
        plan = [(a, int(d), tier == "quick") for a, d in (x.split(":") for x in os.environ["VERIF_C23_PLAN"].split(","))]
    res = common.Result()
    per = []
    nroots = 0
    for alpha, depth, small in plan:
        roots = [[["cfg", cfg]] for cfg in roots_for(alpha, seed, small)]
        nroots += len(roots)
        r = L.level_bfs(expand, roots, depth)
        per.append({"alphabet": alpha, "operations_per_state": len(ops_for(0, alpha, seed)), "roots": len(roots), "history_length": r.notes.get("max_depth", 0),
                    "states": r.counts.get("states", 0), "transitions": r.counts.get("transitions", 0), "closed": bool(r.notes.get("closed"))})
        st = res.counts.get("states", 0) + r.counts.get("states", 0)
        res.merge(r)
        res.counts["states"] = st
    oversize_probe(res)
    cov = {
        "states": res.counts.get("states", 0),
        "transitions": res.counts.get("transitions", 0),
        "traces_validated_against_impl": res.counts.get("transitions", 0),
        "max_depth": max(p["history_length"] for p in per),
        "explorations": per,
        "distinct_data_lengths": len(res.distinct),
        "reads_compared": res.counts.get("outcome:reads", 0),
        "refused_requests_checked": res.counts.get("outcome:failing-testv-requests", 0),
        "states_rederived_by_replay": res.counts.get("states_rederived_by_replay", 0),
        "rule": "BFS from root containers (leases 0/1/4/5/6, with/without bystander share, with/without lease renewal) over ALL writev operations of the alphabet per state "
                "(vectors x new_length, matching test vector) to the history length given per exploration in coverage.explorations; every transition runs the real StorageServer and is "
                "compared with a bytearray + lease-record reference; each reached state is then read exhaustively and probed with must-fail test vectors",
    }
    return res, cov


MANIFEST = {
    "engine": "H",
    "technique": "explicit-state BFS over writev/truncate/delete histories on real mutable share containers pre-loaded with 0/1/4/5/6 leases, bytearray + lease-record reference stepped alongside, exhaustive reads and must-fail test vectors in every reached state",
    "text": "From each root container every operation of the alphabet (0-2 non-overlapping write vectors at offsets {0,1,3,6,9,40} x lengths {1,2,5}, new_length None/0/2/5/50, matching test vector) is applied in every reached state up to the stated history length; data must equal the bytearray reference (zero-filled gaps also after truncation, truncation, deletion, clipped reads, pre-state read data), lease records must be byte-identical and equal through get_leases(), and a bystander share must not change.",
    "note": "Depth-bounded per alphabet (see evidence explorations). Payload alphabet alternates with history parity. States restored from bytes inside a worker; every frontier state re-derived by replay and compared. new_length larger than the data: both documented behaviours accepted.",
}
