"""C25  Lease semantics  (Engine H: BFS over operation histories, real StorageServer on tmpfs).

Containers (one share, number 0, per root): immutable v1 / v2 and mutable v1 / v2.  v2 containers
are what the server creates today; v1 ones are built with the `schema=` constructor argument of
ShareFile / MutableShareFile (as the project's own tests do) and then only touched through the
server API, which recognises the version from the header.  Mutable roots exist with 0 and with 3
pre-loaded "filler" leases (never addressed): with fillers the leases of the 3 active secrets
spill into the extra-lease area behind the data, which moves when the container grows.

Operations (all enabled ones from every reached state), secrets s1..s3 (distinct renew and cancel
secrets, as clients derive them):
    add(i)      StorageServer.add_lease(si, renew_i, cancel_i)
    renew(i)    StorageServer.renew_lease(si, renew_i)
    alloc(i)    (immutable) allocate_buckets(si, renew_i, cancel_i, [0], size): share exists -> renew/add
    wrenew(i)   (mutable) remote_slot_testv_and_readv_and_writev with secrets i and a 1-byte write
    write(k)    (mutable, renew_leases=False) k: "in" overwrite inside, "grow" write at offset 40
                (container grows, extra leases move), "trunc" new_length 1
    cancel(i)   container.cancel_lease(cancel_i): no server API; used as a STATE GENERATOR only
                (creates holes in mutable lease slots / repacks immutable leases / deletes the share
                with its last lease).  The statement says nothing about cancellation: the model
                re-reads the lease list after it and requires nothing.
    clock(dt)   dt in {+1 s, +31 d, -1 d}: the virtual reactor clock, which the server uses for
                expiry times, moves; -1 d is a clock set back.
Oracle (reference list [(secret id, expiry)]):
    add/alloc/wrenew with a known secret: same number of leases, that lease's expiry becomes
        max(old, now + 31 d) (renewed, never shortened), every other lease unchanged;
        unknown secret: exactly one lease more, expiry now + 31 d.
    renew known: as above, no error.  renew unknown (also: no share): an exception (IndexError is
        what the docstring promises; the type is counted) AND the whole storage directory is
        byte-identical.
    write(k): the lease records are unchanged (raw bytes per slot and through get_leases()).
    after EVERY operation on a v2 container: the raw file contains none of the 6 secrets (nor the
        filler secrets) as a substring; v1 containers are expected to contain them (counted).
Both views are compared after each step: the raw records (parsed here from the layout comments)
and container.get_leases() (is_renew_secret / get_expiration_time).

Immutable data writes (outside the BFS): the uploader's lease sits behind the data area from allocation on; for a
grid of in-range writes and of writes ending past the allocated size (1 byte .. more than a lease record) on shares
of 4 and 100 bytes, the share is completed and closed and must then show exactly that one intact lease.

State = (share file bytes, clock offset).  Canonical form = SHA-256 of both.  Merged states have
the same futures because lease and slot code keeps no in-memory state (every call re-opens the
file) and depends on time only through clock.seconds(); no BucketWriter is ever created here
(allocate names only the existing share; that no writer is returned is checked).
As in C23 a worker rebuilds each frontier state by replaying its history and tries every
operation from a byte-exact restore (file + clock); level_bfs cross-checks the two.
"""
import hashlib
import os
import struct

from .. import common, boot
from .. import lib_storage as L

from allmydata.storage.immutable import ShareFile
from allmydata.storage.mutable import MutableShareFile
from allmydata.storage import immutable_schema, mutable_schema

LEVEL = "model_checking"
ASSUMPTIONS = [
    "one share per container kind, 3 active secrets (+3 filler leases in the mutable extra-lease roots), histories up to the length in coverage.max_depth",
    "cancel_lease is only a state generator (no requirement attached); lease secrets have distinct cancel secrets",
    "lease and slot code keeps no in-memory state (by inspection), so a state can be restored from its bytes + clock value (cross-checked against replay for every frontier state)",
    "expiry times are integers (clock steps are whole seconds)",
]

SI = b"\xc5\x25" + b"L" * 14
WE = b"WE25" * 8
IMM_DATA = b"immutable-data"
MUT_DATA = b"mutdata!"
DAY = 86400
PERIOD = 31 * DAY
CLOCK_STEPS = [1, 31 * DAY, -DAY]


def secret(i):
    return (b"Rs%02d" % i) * 8, (b"Cs%02d" % i) * 8


def filler(j):
    return (b"Rf%02d" % j) * 8, (b"Cf%02d" % j) * 8


def blake(x):
    return hashlib.blake2b(x, digest_size=32).digest()


ALL_SECRETS = [x for i in (1, 2, 3) for x in secret(i)] + [x for j in (1, 2, 3) for x in filler(j)]


class Cont(object):
    def __init__(self, cfg, box):
        self.cfg, self.box = cfg, box
        self.kind = cfg["kind"]          # "imm" | "mut"
        self.v = cfg["version"]
        self.path = box.final_path(SI, 0)
        self.sd = L.SlotDir(box, SI)
        self.viols = []
        self.stats = {}

    def bad(self, sig, msg):
        self.viols.append((sig, msg))

    def note(self, k, n=1):
        self.stats[k] = self.stats.get(k, 0) + n

    # ---------------------------------------------------------------- root
    def setup(self):
        os.makedirs(os.path.dirname(self.path))
        if self.kind == "imm":
            sf = ShareFile(self.path, max_size=len(IMM_DATA), create=True, schema=immutable_schema.schema_from_version(self.v))
            sf.write_share_data(0, IMM_DATA)
        else:
            schema = [s for s in mutable_schema.ALL_SCHEMAS if s.version == self.v][0]
            MutableShareFile(self.path, self.box.ss, schema=schema).create(L.NODEID, WE)
            ok, _ = self.box.ss.slot_testv_and_readv_and_writev(SI, (WE,) + secret(1), {0: ([], [(0, MUT_DATA)], None)}, [], renew_leases=False)
            assert ok
        for j in range(1, self.cfg.get("fillers", 0) + 1):
            r, c = filler(j)
            self.box.ss.add_lease(SI, r, c)

    # ---------------------------------------------------------------- state
    def snap(self):
        return (self.sd.snap(), L.now() - L.T0)

    def restore(self, st):
        self.sd.restore(st[0])
        boot.R.rightNow = L.T0 + st[1]

    def canon(self, st):
        return L.SlotDir.canon(st[0], salt=(self.cfg["name"] + ":%r" % (st[1],)).encode())

    # ---------------------------------------------------------------- views of the leases
    def ident(self, renew_field):
        for i in (1, 2, 3):
            r = secret(i)[0]
            if renew_field == (r if self.v == 1 else blake(r)):
                return "s%d" % i
        for j in (1, 2, 3):
            r = filler(j)[0]
            if renew_field == (r if self.v == 1 else blake(r)):
                return "f%d" % j
        return "?" + renew_field[:4].hex()

    def raw_leases(self, raw):
        """[(slot, id, expiry, record)] from the bytes"""
        out = []
        if self.kind == "imm":
            p = L.parse_immutable(raw)
            for k, rec in enumerate(p["leases"]):
                f = L.imm_lease_fields(rec)
                out.append((k, self.ident(f["renew"]), f["expiry"], rec))
        else:
            p = L.parse_mutable(raw)
            for k, rec in enumerate(p["slots"] + p["extra"]):
                f = L.mut_lease_fields(rec)
                if f["owner"] != 0:
                    out.append((k, self.ident(f["renew"]), f["expiry"], rec))
        return out

    def api_leases(self):
        sf = ShareFile(self.path) if self.kind == "imm" else MutableShareFile(self.path)
        out = []
        for li in sf.get_leases():
            who = "?"
            for i in (1, 2, 3):
                if li.is_renew_secret(secret(i)[0]):
                    who = "s%d" % i
            for j in (1, 2, 3):
                if li.is_renew_secret(filler(j)[0]):
                    who = "f%d" % j
            out.append((who, int(li.get_expiration_time())))
        return out

    def data_of(self, raw):
        return L.parse_immutable(raw)["data"] if self.kind == "imm" else L.parse_mutable(raw)["data"]

    def model(self):
        """{"present": bool, "leases": [(id, expiry)] sorted, "raw": [(slot, rec)]} from disk."""
        raw = self.sd.snap().get("0")
        if raw is None:
            return {"present": False, "leases": [], "raw": [], "data": None}
        rl = self.raw_leases(raw)
        return {"present": True, "leases": sorted((i, e) for (k, i, e, r) in rl), "raw": [(k, r) for (k, i, e, r) in rl], "data": self.data_of(raw)}

    # ---------------------------------------------------------------- operations
    def enabled(self):
        ops = []
        present = os.path.exists(self.path)
        for i in (1, 2, 3):
            ops.append(["add", i])
            ops.append(["renew", i])
            if present:   # on an absent share these would (legitimately) create a new upload / container
                ops.append(["alloc", i] if self.kind == "imm" else ["wrenew", i])
        if self.kind == "mut" and present:
            for k in ("in", "grow", "trunc"):
                ops.append(["write", k])
        for i in (1, 2, 3):
            ops.append(["cancel", i])
        for dt in CLOCK_STEPS:
            ops.append(["clock", dt])
        return ops

    def execute(self, op):
        """Run op on the real server.  Returns the exception or None."""
        kind = op[0]
        ss = self.box.ss
        try:
            if kind == "add":
                r, c = secret(op[1])
                ss.add_lease(SI, r, c)
            elif kind == "renew":
                ss.renew_lease(SI, secret(op[1])[0])
            elif kind == "alloc":
                r, c = secret(op[1])
                already, writers = ss.allocate_buckets(SI, r, c, [0], len(IMM_DATA))
                if writers:
                    for bw in writers.values():
                        bw.abort()
                    return ("writers", sorted(writers))
            elif kind == "wrenew":
                r, c = secret(op[1])
                res = self.box.fss.remote_slot_testv_and_readv_and_writev(SI, (WE, r, c), {0: ([], [(0, b"w")], None)}, [])
                if res[0] is not True:
                    return ("refused", res)
            elif kind == "write":
                tw = {"in": ([], [(1, b"IN")], None), "grow": ([], [(40, b"G")], None), "trunc": ([], [], 1)}[op[1]]
                res = ss.slot_testv_and_readv_and_writev(SI, (WE,) + secret(1), {0: tw}, [], renew_leases=False)
                if res[0] is not True:
                    return ("refused", res)
            elif kind == "cancel":
                sf = ShareFile(self.path) if self.kind == "imm" else MutableShareFile(self.path, ss)
                sf.cancel_lease(secret(op[1])[1])
            elif kind == "clock":
                if op[1] >= 0:
                    boot.R.advance(op[1])
                else:
                    L.set_back(-op[1])
        except Exception as e:  # noqa
            return e
        return None

    def step_checked(self, op, m):
        """Execute op from the state described by model m; append violations."""
        kind = op[0]
        pre_tree = self.box.tree() if kind in ("renew", "clock") else None
        exc = self.execute(op)
        now = L.now()
        new_exp = int(now + PERIOD)
        where = "%r on %s-v%d leases=%r at T0%+d" % (op, self.kind, self.v, m["leases"], now - L.T0)
        post = self.model()
        if kind == "cancel":
            self.note("cancel:" + ("raised:" + L.exc_name(exc) if isinstance(exc, Exception) else "ok") + (":share-deleted" if m["present"] and not post["present"] else ""))
            self.cleartext(where)
            return
        if kind == "clock":
            if self.box.tree() != pre_tree:
                self.bad("clock-step-changed-disk", where)
            return
        if isinstance(exc, tuple):
            if exc[0] == "writers":
                self.bad("allocate-returned-writer-for-existing-share", "%s returned writers for %r" % (where, exc[1]))
            else:
                self.bad("write-refused", "%s -> %r" % (where, exc[1]))
            return
        who = "s%d" % op[1] if kind in ("add", "renew", "alloc", "wrenew") else None
        known = any(i == who for i, e in m["leases"])
        if kind == "renew" and not known:
            # unknown secret (or no share at all): error and nothing changes
            if exc is None:
                self.bad("renew-unknown-secret-no-error", "%s: no lease has this renew secret, but renew_lease returned normally" % where)
            else:
                self.note("renew-unknown:" + L.exc_name(exc))
                if not isinstance(exc, IndexError):
                    self.note("renew-unknown-error-is-not-IndexError")
            if self.box.tree() != pre_tree:
                self.bad("renew-unknown-secret-changed-disk", "%s: storage directory changed; leases now %r" % (where, post["leases"]))
            return
        if exc is not None:
            self.bad("%s-raised:%s" % (kind, L.exc_name(exc)), "%s raised %r" % (where, exc))
            return
        if not m["present"]:
            if post["present"]:
                self.bad("lease-op-created-share", where)
            return
        if kind == "write":
            if post["raw"] != m["raw"]:
                self.bad("leases-changed-by-data-write:raw", "%s: lease records (slot, id, expiry) before %r after %r"
                         % (where, self.raw_leases_of(m), [(k, i, e) for (k, i, e, r) in self.raw_leases(self.sd.snap()["0"])]))
            want = list(m["leases"])
        else:
            if known:
                want = sorted((i, max(e, new_exp) if i == who else e) for i, e in m["leases"])
            else:
                want = sorted(m["leases"] + [(who, new_exp)])
            if post["leases"] != want:
                old = dict(m["leases"]).get(who)
                got = [e for i, e in post["leases"] if i == who]
                if known and len(post["leases"]) > len(m["leases"]):
                    sig = "duplicate-lease-added"
                elif known and got and old is not None and got[0] < old:
                    sig = "expiry-shortened"
                elif known and got and got[0] != max(old, new_exp):
                    sig = "not-renewed"
                elif not known and len(post["leases"]) == len(m["leases"]):
                    sig = "lease-not-added"
                else:
                    sig = "wrong-leases"
                self.bad(sig + ":" + kind, "%s: leases now %r, expected %r (now+31d = %d)" % (where, post["leases"], want, new_exp))
            if post["data"] != m["data"] and kind != "wrenew":
                self.note("lease-op-changed-share-data")
        # API view
        try:
            api = sorted(self.api_leases())
        except Exception as e:  # noqa
            self.bad("get_leases-raised:" + L.exc_name(e), "%s then get_leases() raised %r" % (where, e))
            api = None
        if api is not None and api != post["leases"]:
            self.bad("get_leases-disagrees-with-raw", "%s: get_leases() shows %r, raw records show %r" % (where, api, post["leases"]))
        elif api is not None and api != want and not self.viols:
            self.bad("wrong-leases:get_leases", "%s: get_leases() shows %r, expected %r" % (where, api, want))
        self.cleartext(where)

    def raw_leases_of(self, m):
        return [(k, self.ident(L.imm_lease_fields(r)["renew"] if self.kind == "imm" else L.mut_lease_fields(r)["renew"])) for k, r in m["raw"]]

    def cleartext(self, where):
        raw = self.sd.snap().get("0")
        if raw is None:
            return
        found = [s[:4].decode() for s in ALL_SECRETS if s in raw]
        if self.v == 2:
            if found:
                self.bad("cleartext-secret-in-v2-container", "%s: the container file contains secret(s) %r in cleartext" % (where, found))
            else:
                self.note("v2-no-cleartext-checks")
        else:
            self.note("v1-cleartext-present" if found else "v1-no-cleartext")


def rebuild(cont, hist):
    cont.sd.restore({})
    boot.R.rightNow = L.T0
    cont.setup()
    for op in hist[1:]:
        cont.execute(op)


def expand(chunk):
    res = common.Result()
    succ, selfs = [], []
    box = L.Box()
    try:
        for hist in chunk:
            cfg = hist[0][1]
            cont = Cont(cfg, box)
            try:
                rebuild(cont, hist)
                st = cont.snap()
                m = cont.model()
                api = sorted(cont.api_leases()) if m["present"] else []
            except Exception as e:  # noqa  (code under test failed while building the state)
                res.violation("rebuild-raised:" + L.exc_name(e), {"history": hist}, "building the state of history %r raised %r" % (hist[1:], e))
                selfs.append(hashlib.sha256(repr(hist).encode()).digest())
                continue
            selfs.append(cont.canon(st))
            if len(hist) == 1:
                cont.cleartext("root %s" % cfg["name"])
                want = sorted(("f%d" % j, int(L.T0 + PERIOD)) for j in range(1, cfg.get("fillers", 0) + 1))
                if api != want or m["leases"] != want:
                    cont.bad("root-leases-wrong", "root %s: after adding %d leases through add_lease the raw records show %r and get_leases() shows %r, expected %r"
                             % (cfg["name"], cfg.get("fillers", 0), m["leases"], api, want))
                if cont.viols:
                    for sig, msg in cont.viols:
                        res.violation(sig, {"history": hist}, msg)
                    continue
            for op in cont.enabled():
                cont.restore(st)
                cont.viols = []
                cont.step_checked(op, m)
                h2 = hist + [op]
                for sig, msg in cont.viols:
                    res.violation(sig, {"history": h2}, msg)
                post = cont.snap()
                succ.append((cont.canon(post), h2, bool(cont.viols)))
                res.distinct.add((cfg["name"], tuple(i for i, e in cont.model()["leases"])))
            for k, v in cont.stats.items():
                res.count("outcome:" + k, v)
        res.notes["succ"] = succ
        res.notes["self"] = selfs
    finally:
        box.close()
    return res


def replay(case):
    if "imm_write" in case:
        r = _imm_write_chunk([case["imm_write"]])
        return [(v["sig"], v["msg"]) for v in r.violations]
    hist = case["history"]
    box = L.Box()
    try:
        cont = Cont(hist[0][1], box)
        try:
            rebuild(cont, hist if len(hist) == 1 else hist[:-1])
            m = cont.model()
            api = sorted(cont.api_leases()) if m["present"] else []
        except Exception as e:  # noqa
            return [("rebuild-raised:" + L.exc_name(e), repr(e))]
        if len(hist) == 1:
            cfg = hist[0][1]
            cont.cleartext("root %s" % cfg["name"])
            want = sorted(("f%d" % j, int(L.T0 + PERIOD)) for j in range(1, cfg.get("fillers", 0) + 1))
            if api != want or m["leases"] != want:
                cont.bad("root-leases-wrong", "root %s: raw %r, get_leases() %r, expected %r" % (cfg["name"], m["leases"], api, want))
            return cont.viols
        cont.step_checked(hist[-1], m)
        return cont.viols
    finally:
        box.close()


def roots_for(tier, seed):
    out = []
    for kind in ("imm", "mut"):
        for v in (1, 2):
            fl = (0, 3) if kind == "mut" else ((0,) if tier == "quick" else (0, 3))
            for f in fl:
                out.append({"name": "%s-v%d-f%d" % (kind, v, f), "kind": kind, "version": v, "fillers": f})
    return out


def _imm_write_chunk(chunk):
    """leases of an immutable share in progress (the uploader's lease is in the file from allocation on) must
    survive every data write, also one that ends past the allocated size whether refused or accepted
    (probe shared with C22: vt/props/c22.py overflow_probe)"""
    from . import c22
    res = common.Result()
    for case in chunk:
        obs = c22.overflow_probe(case)
        res.count("transitions")
        res.count("imm_write_probes")
        if obs.get("read_len") is not None and not obs.get("lease_ok"):
            res.violation("lease-damaged-by-immutable-data-write", {"imm_write": case},
                          "share of %d bytes, first %d written, then write(offset=%d, %d bytes) [accepted: %r], completed and closed: the uploader's lease is no longer intact (leases seen: %r)"
                          % (case[0], case[1], case[2], case[3], obs["accepted"], obs.get("leases")))
    return res


def imm_write_cases():
    from . import c22
    out = list(c22.overflow_cases())
    for size in (4, 100):
        for off in (0, 1, size // 2, size - 1):
            for ln in (1, size // 2, size):
                if off + ln <= size:
                    out.append([size, 0, off, ln])
    return out


def run(tier, seed):
    depth = 5 if tier == "quick" else 6
    depth = int(os.environ.get("VERIF_C25_DEPTH", depth))
    roots = [[["cfg", cfg]] for cfg in roots_for(tier, seed)]
    res = L.level_bfs(expand, roots, depth)
    res.merge(common.pmap(_imm_write_chunk, imm_write_cases()))
    cov = {
        "states": res.counts.get("states", 0),
        "transitions": res.counts.get("transitions", 0),
        "traces_validated_against_impl": res.counts.get("transitions", 0),
        "max_depth": res.notes.get("max_depth", 0),
        "roots": [r[0][1]["name"] for r in roots],
        "distinct_lease_sets": len(res.distinct),
        "cleartext_checks_v2": res.counts.get("outcome:v2-no-cleartext-checks", 0),
        "states_rederived_by_replay": res.counts.get("states_rederived_by_replay", 0),
        "rule": "BFS from %d root containers (immutable/mutable x schema v1/v2 x filler leases) over all add/renew/alloc|wrenew/write/cancel/clock operations per state "
                "(15 immutable, 18 mutable) to history length %d; every transition runs the real StorageServer/containers and is compared with a reference lease list, through raw records and get_leases()"
                % (len(roots), res.notes.get("max_depth", 0)),
    }
    return res, cov


MANIFEST = {
    "engine": "H",
    "technique": "explicit-state BFS over add/renew/allocate/write/cancel/clock-step histories on real immutable and mutable containers (schema v1 and v2) behind a real StorageServer, reference lease list stepped alongside",
    "text": "For each container kind every history up to the stated length of lease additions, renewals, re-allocations, data writes (in place, growing, truncating), cancellations (state generator) and clock steps (+1 s, +31 d, clock set back 1 d) with 3 secrets is executed; after every step the lease records (raw bytes and get_leases()) must equal the reference: known secret renews to max(old, now+31d) without a duplicate, unknown secret on renew raises and leaves the directory byte-identical, data writes keep every record, and v2 container files never contain a secret as a substring. Immutable data writes (in range and ending past the allocated size) must leave the uploader's lease intact.",
    "note": "Depth-bounded (history length in the evidence). States are restored from bytes + clock inside a worker; every frontier state is re-derived by replay and compared. cancel_lease carries no requirement. Assumes the lease code keeps no in-memory state (inspected).",
}
