"""C34  Introducer announcements are authentic and fresh  (Engine H, reachable-state closure).

Real code: allmydata.introducer.client.IntroducerClient (built without a Tub, as in
test_introducer.py), fed through remote_announce_v2 / got_announcements with batches signed by
allmydata.introducer.common.sign_to_foolscap; a subscriber records what is delivered.

Alphabet (see alphabet()):
  good        key in {K1,K2} x seqnum in {1,2,3,absent,"2"} x payload in {p,q}  (service "storage")
              + one announcement for a service nobody subscribed to
              (thorough: + one K1 announcement for a second subscribed service)
  forged/bad  for each base announcement (thorough: all 20; quick: 2 per key): claimed key != signer,
              one byte of msg changed, one byte of the signature changed, signature not base32,
              key not base32, signature without "v0-", key without "v0-", unsigned (None, None),
              key of 31 bytes, signature of 63 bytes, NON-CANONICAL base32 spelling of the right key;
              per key: correctly signed bytes that are not JSON, correctly signed JSON without
              "service-name"
Batches: every single announcement and every ordered pair with at least one good member
(thorough: + every ordered pair of the 48 core bad announcements).

Search: breadth-first closure over the client's internal state _inbound_announcements
({(service, key_s): announcement}); from EVERY reachable state EVERY batch is applied to a fresh
real client rebuilt by replaying the shortest history (so all streams of any length over the
alphabet are covered up to state equivalence; futures depend only on that dict - the
subscriber table is constant, counters and the cache file are write-only).

Oracle per transition (reference rules from the statement, run in sequence over the batch):
  bad announcement      no effect, and the rest of the batch is still processed
  good, nothing stored  stored and delivered once with key_s == the signer's key
  good, int seqnums     new > old: stored+delivered;  new <= old: no effect
  good, otherwise       (old or new seqnum absent / not an int; exact duplicate; unsubscribed
                        service) either outcome accepted and counted
  non-canonical key     (a second base32 spelling of the signer's key, which the decoder admits)
                        ignored, or treated as the canonical key, or filed under the other spelling
                        (tolerated, counted, not expanded) - but never so that an announcement whose
                        seqnum is <= one already stored for the same signing key gets accepted
The observed (state, deliveries) must equal one of the outcomes the reference allows.  An
exception from got_announcements is accepted for a lone bad announcement (statement silent) but
not when it makes a later good announcement of the same batch disappear.
A late subscriber must be handed exactly the stored announcements, each under its signer's key.
"""
import gc
import json
import traceback

from allmydata.introducer.client import IntroducerClient
from allmydata.introducer.common import sign_to_foolscap
from allmydata.util import base32
from .. import boot, common
from ..lib_gridkeys import key, flip_byte

LEVEL = "model_checking"
ASSUMPTIONS = [
    "2 signing keys, seqnums {0,1,2,-1,absent,'2'}, 2 payloads, batches of <= 2 announcements; the client's decisions compare seqnums and whole dicts only, no magnitude-dependent branch",
    "state = _inbound_announcements (announcement per (service, key string)); merged states have equal futures because nothing else is read by got_announcements/_process_announcement",
    "an accepted strictly newer (or first) correctly signed announcement must be stored and delivered: this is what 'processed' is taken to mean in the statement's last clause",
    "cache file replaced by an in-memory object with setContent/open; the cache is write-only here: real yamlutil.safe_dump runs in the transition under test, a cheap serialiser while the history prefix is replayed",
]

SEQS = [0, 1, 2, -1, None, "2"]   # 0 and -1: falsy / negative values must obey the same ordering rule
PAYS = ["p", "q"]
KEYS = ["K1", "K2"]
FORGE_KINDS = ["wrong-key", "msg-flip", "sig-flip", "sig-not-base32", "key-not-base32", "sig-no-prefix",
               "key-no-prefix", "unsigned", "key-31-bytes", "sig-63-bytes", "key-alias"]
BODY_KINDS = ["signed-not-json", "signed-no-service-name"]
MAIN = "storage"
UNSUB = "stub_client"
SVC2 = "svc2"


class MemCache(object):
    def __init__(self):
        self.content = None

    def setContent(self, b):
        self.content = b

    def open(self):
        raise EnvironmentError("no cache")


def other(k):
    return "K2" if k == "K1" else "K1"


def alias_of(v0):
    """another base32 spelling that decodes to the same 32 bytes, if the decoder admits one"""
    raw = base32.a2b(v0[3:])
    for c in b"abcdefghijklmnopqrstuvwxyz234567":
        alt = v0[:-1] + bytes([c])
        if alt == v0:
            continue
        try:
            if base32.a2b(alt[3:]) == raw:
                return alt
        except Exception:  # noqa
            pass
    return None


def ann_dict(svc, seq, pay):
    d = {"service-name": svc}
    if seq is not None:
        d["seqnum"] = seq
    d["payload"] = pay
    return d


_BUILT = {}


def build(seed, desc):
    """desc = [key, seq, payload, kind, service] -> (ann_t, meta)
    meta: good(bool), key_s (signer, canonical), ann (dict), would_be (key_s, ann) an accepted forgery would show"""
    tk = (seed, json.dumps(desc))
    if tk in _BUILT:
        return _BUILT[tk]
    kname, seq, pay, kind, svc = desc
    k = key(seed, kname)
    ann = ann_dict(svc, seq, pay)
    msg, sig, ks = sign_to_foolscap(ann, k.sk)
    if ks != k.v0:
        raise RuntimeError("harness: sign_to_foolscap key %r != %r" % (ks, k.v0))
    meta = {"good": kind == "good", "kind": kind, "key_s": k.v0, "ann": ann, "svc": svc, "would_be": (k.v0, ann), "alias": False}
    if kind == "good":
        t = (msg, sig, ks)
    elif kind == "wrong-key":
        o = key(seed, other(kname))
        t = (msg, sig, o.v0)
        meta["would_be"] = (o.v0, ann)
    elif kind == "msg-flip":
        i = msg.index(b'"payload": "') + len(b'"payload": "')
        m2 = flip_byte(msg, i, 0x02)
        t = (m2, sig, ks)
        meta["would_be"] = (k.v0, json.loads(m2.decode("utf-8")))
    elif kind == "sig-flip":
        raw = base32.a2b(sig[3:])
        t = (msg, b"v0-" + base32.b2a(flip_byte(raw, 5 + seed)), ks)
    elif kind == "sig-not-base32":
        t = (msg, b"v0-!!!notbase32", ks)
    elif kind == "key-not-base32":
        t = (msg, sig, b"v0-!!!notbase32")
        meta["would_be"] = (b"v0-!!!notbase32", ann)
    elif kind == "sig-no-prefix":
        t = (msg, sig[3:], ks)
    elif kind == "key-no-prefix":
        t = (msg, sig, ks[3:])
        meta["would_be"] = (ks[3:], ann)
    elif kind == "unsigned":
        t = (msg, None, None)
        meta["would_be"] = (None, ann)
    elif kind == "key-31-bytes":
        bad = b"v0-" + base32.b2a(k.raw_pub[:31])
        t = (msg, sig, bad)
        meta["would_be"] = (bad, ann)
    elif kind == "sig-63-bytes":
        t = (msg, b"v0-" + base32.b2a(base32.a2b(sig[3:])[:63]), ks)
    elif kind == "key-alias":
        al = alias_of(ks)
        if al is None:
            t = None          # this decoder has no second spelling: the kind does not exist
        else:
            t = (msg, sig, al)
            meta["alias"] = True
            meta["alias_key"] = al
    elif kind == "signed-not-json":
        m2 = b"\xffthis is not json"
        t = (m2, b"v0-" + base32.b2a(k.sign(m2)), ks)
        meta["would_be"] = (k.v0, None)
    elif kind == "signed-no-service-name":
        m2 = json.dumps({"seqnum": 9, "payload": "x"}).encode("utf-8")
        t = (m2, b"v0-" + base32.b2a(k.sign(m2)), ks)
        meta["would_be"] = (k.v0, {"seqnum": 9, "payload": "x"})
    else:
        raise RuntimeError("harness: unknown kind %r" % (kind,))
    _BUILT[tk] = (t, meta)
    return t, meta


def alphabet(seed, tier):
    good = [[k, s, p, "good", MAIN] for k in KEYS for s in SEQS for p in PAYS]
    extra = [["K1", 1, "p", "good", UNSUB]]
    if tier == "thorough":
        extra += [["K1", 1, "p", "good", SVC2]]
        bases = [(k, s, p) for k in KEYS for s in SEQS for p in PAYS]
    else:
        bases = [(k, s, p) for k in KEYS for (s, p) in QUICK_BASES]
    forged = [[k, s, p, kind, MAIN] for (k, s, p) in bases for kind in FORGE_KINDS]
    forged = [d for d in forged if build(seed, d)[0] is not None]
    body = [[k, None, "p", kind, MAIN] for k in KEYS for kind in BODY_KINDS]
    return good + extra + forged + body


def services(tier):
    return [MAIN, SVC2] if tier == "thorough" else [MAIN]


# ------------------------------------------------------------------ the real client
import allmydata.introducer.client as _icmod   # noqa: E402
from allmydata.util import yamlutil as _real_yaml   # noqa: E402


class _YamlProxy(object):
    """IntroducerClient._save_announcements re-serialises the whole cache with PyYAML after every
    accepted announcement (half of the run time).  While a HISTORY PREFIX is replayed (those
    transitions were checked, with the real serialiser, when they were generated) a cheap
    serialiser is used; the transition under test always runs the real yamlutil.safe_dump."""
    fast = False

    def safe_dump(self, obj):
        if self.fast:
            return json.dumps(obj)
        return _real_yaml.safe_dump(obj)

    def safe_load(self, f):
        return _real_yaml.safe_load(f)


_YAML = _YamlProxy()
_icmod.yamlutil = _YAML

def new_client(svcs):
    ic = IntroducerClient(None, "introducer.furl", u"vt_nick", "vt_version", "vt_oldest",
                          lambda: (1, "nonce"), MemCache())
    delivered = []
    for s in svcs:
        ic.subscribe_to(s, lambda key_s, ann, s=s: delivered.append((key_s, json.loads(json.dumps(ann)))))
    return ic, delivered


def state_of(ic):
    out = {}
    for (svc, key_s), (ann, key_s2, _when) in ic._inbound_announcements.items():
        out[(svc, key_s)] = (json.loads(json.dumps(ann)), key_s2)
    return out


def canon(st):
    return tuple(sorted((svc, repr(k), json.dumps(a, sort_keys=True)) for (svc, k), (a, _k2) in st.items()))


def where_raised(tb):
    names = [f.name for f in traceback.extract_tb(tb)]
    if "_process_announcement" in names:
        return "process"
    if "unsign_from_foolscap" in names:
        return "unsign"
    return "other"


def apply_batch(ic, batch_t, final):
    try:
        if final:
            ic.remote_announce_v2(batch_t)
        else:
            ic.got_announcements(batch_t)
        exc = None
    except Exception as e:  # noqa
        exc = (type(e).__name__, where_raised(e.__traceback__), repr(e)[:160])
    boot.R.pump_until_idle()
    return exc


# ------------------------------------------------------------------ reference
def is_int(x):
    return isinstance(x, int) and not isinstance(x, bool)


def verdict(old, new, subscribed):
    if not subscribed:
        return "either"
    if old is None:
        return "accept"
    if old == new:
        return "dup"
    if is_int(old.get("seqnum")) and is_int(new.get("seqnum")):
        return "accept" if new["seqnum"] > old["seqnum"] else "reject"
    return "either"


def allowed_outcomes(pre, metas, svcs):
    """pre: {(svc,key): ann}; -> list of (state dict, deliveries list) the statement allows"""
    outs = [(dict(pre), [])]
    for m in metas:
        if m["good"] or m["alias"]:
            idx = (m["svc"], m["key_s"])
            nxt = []
            for st, dl in outs:
                v = verdict(st.get(idx), m["ann"], m["svc"] in svcs)
                acc = dict(st)
                acc[idx] = m["ann"]
                if m["alias"]:
                    # ignoring it is fine; so is treating it exactly like the canonical key
                    nxt.append((st, dl))
                    if v in ("accept", "either"):
                        nxt.append((acc, dl + [(m["key_s"], m["ann"])]))
                    elif v == "dup":
                        nxt.append((st, dl + [(m["key_s"], m["ann"])]))
                    # filing it under the other spelling is tolerated (counted) UNLESS that lets an
                    # announcement in whose seqnum is not above one already stored for the same signing key
                    aidx = (m["svc"], m["alias_key"])
                    olds = [st.get(idx), st.get(aidx)]
                    ns = m["ann"].get("seqnum")
                    stale = any(o is not None and is_int(o.get("seqnum")) and is_int(ns) and ns <= o["seqnum"] for o in olds)
                    if not stale and st.get(aidx) != m["ann"]:
                        acc2 = dict(st)
                        acc2[aidx] = m["ann"]
                        nxt.append((acc2, dl + [(m["alias_key"], m["ann"])]))
                elif v == "accept":
                    nxt.append((acc, dl + [(m["key_s"], m["ann"])]))
                elif v == "reject":
                    nxt.append((st, dl))
                elif v == "dup":
                    nxt.append((st, dl))
                    nxt.append((st, dl + [(m["key_s"], m["ann"])]))
                else:
                    nxt.append((st, dl))
                    if m["svc"] in svcs:
                        nxt.append((acc, dl + [(m["key_s"], m["ann"])]))
                    else:
                        nxt.append((acc, dl))
            outs = nxt
    return outs


def explain(pre, metas, svcs, post, delivered, exc):
    """name the class of a disallowed outcome"""
    st = dict(pre)
    goods = [(m["svc"], m["key_s"], m["ann"]) for m in metas if m["good"]]
    # anything stored or delivered under a key string that is no signer's canonical key / not justified by a good announcement
    for (svc, k), a in post.items():
        if pre.get((svc, k)) == a or (svc, k, a) in goods:
            continue
        for m in metas:
            if m.get("alias") and k == m["alias_key"]:
                return "replay-accepted:non-canonical-key-spelling"
            if not m["good"] and m["would_be"] == (k, a):
                return "forged-accepted:" + m["kind"]
        return "unjustified-state-change"
    for (k, a) in delivered:
        if any(g[1] == k and g[2] == a for g in goods):
            continue
        for m in metas:
            if m.get("alias") and k == m["alias_key"]:
                return "replay-accepted:non-canonical-key-spelling"
            if not m["good"] and m["would_be"] == (k, a):
                return "forged-accepted:" + m["kind"]
            if m["good"] and m["ann"] == a:
                return "wrong-attribution"
        return "unjustified-delivery"
    for m in metas:
        if not m["good"]:
            continue
        idx = (m["svc"], m["key_s"])
        v = verdict(st.get(idx), m["ann"], m["svc"] in svcs)
        was_delivered = (m["key_s"], m["ann"]) in delivered
        if v == "reject" and (was_delivered or (post.get(idx) == m["ann"] and st.get(idx) != m["ann"])):
            return "stale-accepted:" + ("equal-seqnum" if m["ann"]["seqnum"] == st[idx]["seqnum"] else "lower-seqnum")
        if v == "accept":
            if not was_delivered and post.get(idx) != m["ann"]:
                if exc is not None:
                    return "batch-aborted:%s:%s" % (exc[1], exc[0])
                return "good-announcement-dropped"
            if not was_delivered:
                return "stored-but-not-delivered"
            if post.get(idx) != m["ann"]:
                later = [x for x in metas if x is not m and x["good"] and (x["svc"], x["key_s"]) == idx]
                if not later:
                    return "delivered-but-not-stored"
            st[idx] = m["ann"]
        elif v == "either" and (was_delivered or post.get(idx) == m["ann"]):
            st[idx] = m["ann"]
    if exc is not None:
        return "batch-aborted:%s:%s" % (exc[1], exc[0])
    return "unexpected-outcome"


def transition(seed, tier, hist, batch):
    """run hist then batch on a fresh real client -> (pre_canon, post_canon or None, [(sig,msg)], info)"""
    svcs = services(tier)
    ic, delivered = new_client(svcs)
    _YAML.fast = True
    for b in hist:
        apply_batch(ic, [build(seed, d)[0] for d in b], False)
    _YAML.fast = False
    pre_full = state_of(ic)
    pre = {i: a for i, (a, _k) in pre_full.items()}
    del delivered[:]
    built = [build(seed, d) for d in batch]
    metas = [m for _t, m in built]
    exc = apply_batch(ic, [t for t, _m in built], True)
    post_full = state_of(ic)
    post = {i: a for i, (a, _k) in post_full.items()}
    viols = []
    info = {"exc": exc, "changed": post != pre, "delivered": len(delivered)}
    ok = any(post == st and delivered == dl for st, dl in allowed_outcomes(pre, metas, svcs))
    desc = "history=%s batch=%s" % (json.dumps(hist), json.dumps(batch))
    if not ok:
        sig = explain(pre, metas, svcs, post, delivered, exc)
        viols.append((sig, "%s: stored before=%s; after=%s; delivered=%s; exception=%s; not among the outcomes the rules allow"
                      % (desc, _show(pre), _show(post), [(k, a) for k, a in delivered], exc)))
    else:
        # index key, recorded key and (for our good announcements) signer must agree
        for (svc, k), (a, k2) in post_full.items():
            if k != k2:
                viols.append(("index-key-mismatch", "%s: stored under %r but recorded key %r" % (desc, k, k2)))
        # late subscriber gets exactly the backlog
        late = []
        for s in svcs:
            ic.subscribe_to(s, lambda key_s, ann: late.append((key_s, json.loads(json.dumps(ann)))))
        boot.R.pump_until_idle()
        want = sorted(((k, a) for (svc, k), a in post.items() if svc in svcs), key=repr)
        if sorted(late, key=repr) != want:
            viols.append(("late-subscriber-backlog", "%s: a late subscriber received %r, stored announcements are %r" % (desc, late, want)))
    alias_keys = set(m["alias_key"] for m in metas if m["alias"])
    if any(k in alias_keys for (_svc, k) in post):
        info["second_identity"] = True      # tolerated, counted, not expanded (outside the modelled state space)
        return canon(pre_full), None, viols, info
    return canon(pre_full), (canon(post_full) if not viols else None), viols, info


def _show(st):
    def short(k):
        k = (k or b"?").decode("ascii", "replace")
        return k if len(k) < 16 else k[:8] + ".." + k[-4:]
    return {"%s/%s" % (svc, short(k)): a for (svc, k), a in st.items()}


# ------------------------------------------------------------------ search
QUICK_BASES = ((3, "q"), (1, "p"))


def batches_of(alpha, tier="thorough"):
    """singles, then ordered pairs.  Pairs with at least one good member: all of them.  Pairs in which
    BOTH announcements are bad: none in quick; in thorough those built from the core bad set
    (forgeries of the 2 base announcements per key that quick uses + the malformed bodies)."""
    n = len(alpha)
    good = [d[3] == "good" for d in alpha]
    core = [(not good[i]) and (alpha[i][3] in BODY_KINDS or (alpha[i][1], alpha[i][2]) in QUICK_BASES) for i in range(n)]
    return [(i,) for i in range(n)] + [(i, j) for i in range(n) for j in range(n)
                                        if good[i] or good[j] or (tier == "thorough" and core[i] and core[j])]


def _bfs_chunk(chunk, seed, tier):
    res = common.Result()
    alpha = alphabet(seed, tier)
    allb = batches_of(alpha, tier)
    new = {}
    for (hist, want_pre, lo, hi) in chunk:
        for bi in range(lo, hi):
            batch = [alpha[i] for i in allb[bi]]
            pre_c, post_c, viols, info = transition(seed, tier, hist, batch)
            if pre_c != want_pre:
                raise RuntimeError("harness: replaying %r gave state %r, expected %r" % (hist, pre_c, want_pre))
            res.count("transitions")
            kinds = [d[3] for d in batch]
            nbad = sum(1 for k in kinds if k != "good")
            res.count("batches_with_bad_and_good" if (0 < nbad < len(kinds)) else ("batches_all_bad" if nbad else "batches_all_good"))
            if info["changed"]:
                res.count("state_changing_transitions")
            if info.get("second_identity") and not viols:
                res.count("second_identity_tolerated")
            if info["exc"]:
                res.count("exception:%s:%s" % (info["exc"][1], info["exc"][0]))
                for k in kinds:
                    if k != "good":
                        res.count("raised_with:" + k)
            for sig, msg in viols:
                res.violation(sig, {"seed": seed, "tier": tier, "history": hist, "batch": batch}, msg)
                res.count("viol_kinds:%s:%s" % (sig, "+".join(kinds)))
            if post_c is not None and post_c != pre_c and post_c not in new:
                new[post_c] = hist + [batch]
    res.notes["new"] = [(c, h) for c, h in new.items()]
    return res


def _hist_key(h):
    return (len(h), sum(1 for b in h for d in b if d[3] != "good"), sum(len(b) for b in h), json.dumps(h))


def replay(case):
    _pre, _post, viols, _info = transition(case["seed"], case["tier"], case["history"], case["batch"])
    return viols


def run(tier, seed):
    gc.collect()
    gc.freeze()     # keep forked workers from copying the whole (read-only) heap on their first collection
    alpha = alphabet(seed, tier)
    allb = batches_of(alpha, tier)
    nb = len(allb)
    step = max(1, nb // 48)
    ranges = [(lo, min(nb, lo + step)) for lo in range(0, nb, step)]
    empty = ()
    seen = {empty: []}
    frontier = [empty]
    total = common.Result()
    depth = 0
    while frontier:
        items = [(seen[c], c, lo, hi) for c in frontier for (lo, hi) in ranges]
        r = common.pmap(_bfs_chunk, items, (seed, tier))
        new = r.notes.pop("new", [])
        total.merge(r)
        cand = {}
        for c, h in new:
            if c in seen:
                continue
            if c not in cand or _hist_key(h) < _hist_key(cand[c]):
                cand[c] = h
        frontier = []
        for c in sorted(cand, key=lambda c: _hist_key(cand[c])):
            seen[c] = cand[c]
            frontier.append(c)
        depth += 1
    states = sorted(seen, key=lambda c: _hist_key(seen[c]))
    total.samples = []
    for c in (states[len(states) // 3], states[-1]):
        total.sample({"state": [list(x) for x in c], "shortest_history": seen[c]})
    tr = total.counts.get("transitions", 0)
    cov = {
        "states": len(seen),
        "transitions": tr,
        "traces_validated_against_impl": tr,
        "exhaustive": True,
        "alphabet": len(alpha),
        "batches_per_state": nb,
        "bfs_levels": depth,
        "longest_shortest_history": max(len(h) for h in seen.values()),
        "state_changing_transitions": total.counts.get("state_changing_transitions", 0),
        "second_identity_tolerated": total.counts.get("second_identity_tolerated", 0),
        "batches_mixing_good_and_bad": total.counts.get("batches_with_bad_and_good", 0),
        "exceptions_seen": {k: v for k, v in total.counts.items() if k.startswith("exception:")},
        "bad_kinds_in_raising_batches": {k[len("raised_with:"):]: v for k, v in total.counts.items() if k.startswith("raised_with:")},
        "rule": "closure of the real IntroducerClient's _inbound_announcements under every batch of 1 or 2 announcements from an alphabet of %d (good: 2 keys x 5 seqnums x 2 payloads + other services; "
                "bad: %d forged kinds per base announcement + 2 signed-but-malformed bodies per key); every transition = fresh real client, shortest history replayed, batch delivered through "
                "remote_announce_v2, state/deliveries compared with the outcomes allowed by the reference rules" % (len(alpha), len(FORGE_KINDS)),
    }
    return total, cov


MANIFEST = {
    "engine": "H",
    "technique": "explicit-state reachability closure on the real IntroducerClient: every batch of 1-2 announcements from a closed alphabet applied in every reachable state, reference rules stepped alongside",
    "text": "All states of the real client's announcement table reachable over 2 keys x 5 seqnums x 2 payloads are enumerated to closure (121 states; thorough 242 with a second service); in each, every single announcement and every ordered pair containing a good one (good, replayed, reordered, and 11 forged/malformed kinds, plus correctly signed garbage) is delivered through remote_announce_v2 to a fresh client rebuilt by replaying the shortest history, and the resulting table and the announcements handed to a subscriber are compared with the outcomes the stated rules allow.",
    "note": "State equivalence = the _inbound_announcements dict (nothing else is read by the code path). Silent cases (absent/non-integer seqnums, duplicates, unsubscribed service) are counted, not judged. Every transition is an implementation run, so traces_validated_against_impl = transitions.",
}
