"""C42  Backup database reuses caps only for unchanged content  (Engine H, BFS over histories).

The real allmydata.scripts.backupdb (get_backupdb -> BackupDB_v2, FileResult, DirectoryResult) on an
sqlite file under /dev/shm/c42-<pid>/<worker pid>/, with os.stat, time.time and random.random rebound INSIDE the
module (backupdb.os / backupdb.time / backupdb.random) so that file attributes, the clock and the
"should I re-check" coin are driven by the check.

Three families of histories are explored by level-synchronous BFS (vt.lib_bfs), all histories up to
depth 5 (quick; 4 for dirs and mixed) / 6 (thorough; 5 for dirs):
  files   2 paths (differing only in letter case) whose (size, mtime, ctime) each take 2 values (os.stat answers from the model).
          ops: flip one attribute of one path (6); swap = rename a<->b (1);
          check_file(path, use_timestamps in {T,F}) followed by one of {nothing, did_upload(cap1),
          did_upload(cap2), did_check_healthy (if a cap was returned)} (16);
          forget: DELETE the caps row / the last_upload row of cap1 / cap2 ("we somehow forgot
          where we put the file") (4);  clock += 45 days (1).
  dirs    9 directory contents (name->cap maps incl. {}, two maps whose naive concatenation
          collides: {"ab": "c"} / {"a": "bc"}, a map with one child renamed, the same map listed in another order); ops: check_directory(contents) followed by one of
          {nothing, did_create(dircap1), did_create(dircap2), did_check_healthy} (36); clock (1).
  mixed   files ops + dirs ops over a reduced menu (interaction of the two on one connection).
State = full dump of the five tables + model attributes + clock + reference.  Every transition is a
run of the real code: the first child of each state replays the whole history on ONE connection,
its siblings restore the parent's database file byte-for-byte and re-open it with get_backupdb
(as a new backup run would) before applying the last operation.

Oracle (the statement is an "only when"): whenever check_file returns a cap, use_timestamps must
have been True and the path's MOST RECENT did_upload must have recorded exactly the current size,
mtime and ctime, and the cap must be that upload's cap; whenever check_directory returns a dircap,
the most recent did_create for EXACTLY this name->cap map must have recorded that dircap.  Results
that are merely less economical than the statement allows (no reuse although the record matches
and nothing was forgotten/invalidated) and should_check() verdicts that differ from the documented
1-month/2-month rule are counted as observations, not violations.
"""
import copy
import hashlib
import os
import shutil

from .. import boot  # noqa: F401
from .. import common
from .. import lib_bfs

from allmydata.scripts import backupdb

LEVEL = "model_checking"
ASSUMPTIONS = [
    "2 local paths that differ only in letter case, each of size/mtime/ctime from 2 values, 2 file caps, 2 dir caps, 9 directory contents; histories up to depth 5/4 (quick) / 6/5 (thorough); the code has no value-dependent branch besides equality tests and the age thresholds (by inspection)",
    "os.stat / time.time / random.random are the module-level names of allmydata.scripts.backupdb rebound by the check; random.random returns a per-root constant (quick 0.0; thorough 0.0 and 0.99)",
    "files and directories are explored separately to full depth and together over a reduced menu (the two share only the connection, the clock and the coin)",
    "sibling transitions re-open a byte-identical copy of the parent's database (a new backup run); the first child of each state runs its whole history on one connection",
    "states merged on (all table rows, model attributes, clock, reference records): everything the code or the oracle reads later",
]

DAY = 24 * 60 * 60
T0 = 1000000000
PATHS = [u"/c42fs/Report.txt", u"/c42fs/report.txt"]     # two different files whose paths differ only in letter case
VALS = [(10, 11), (1000, 1001), (2000, 2001)]       # size, mtime, ctime
FIELD = ["size", "mtime", "ctime"]
CAPS = [b"URI:CHK:cap1", b"URI:CHK:cap2"]
DIRCAPS = [b"URI:DIR2-CHK:dir1", b"URI:DIR2-CHK:dir2"]
CONTENTS = [
    {},
    {u"x": CAPS[0]},
    {u"x": CAPS[1]},
    {u"y": CAPS[0]},
    {u"x": CAPS[0], u"y": CAPS[1]},
    {u"ab": b"c"},
    {u"a": b"bc"},
    {u"w": CAPS[0], u"y": CAPS[1]},          # a sibling of {x, y}: one name differs, same caps in the same order, same last name
    {u"y": CAPS[1], u"x": CAPS[0]},          # the SAME map as {x, y}, listed in another order
]

_BASE = None
_TEMPLATE = None
_RUN_DIR = None        # set by run()/replay() in the parent before workers are forked; removed at the end


def base_dir():
    global _BASE, _TEMPLATE
    want = "%s/%d" % (_RUN_DIR, os.getpid())
    if _BASE != want:
        _BASE = want
        _TEMPLATE = None
        os.makedirs(_BASE, exist_ok=True)
    return _BASE


class Quiet(object):
    def write(self, s):
        pass


def template_bytes():
    """a pristine database, created once per process by the real get_backupdb"""
    global _TEMPLATE
    d = base_dir()
    if _TEMPLATE is None:
        p = os.path.join(d, "template.sqlite")
        if os.path.exists(p):
            os.unlink(p)
        bdb = backupdb.get_backupdb(p, stderr=Quiet())
        bdb.connection.close()
        _TEMPLATE = open(p, "rb").read()
        os.unlink(p)
    return _TEMPLATE


class FakeOS(object):
    """stands in for the name `os` inside allmydata.scripts.backupdb (only os.stat is used there)"""
    path = os.path

    def __init__(self, world):
        self.world = world

    def stat(self, path):
        a = self.world.m["attrs"].get(path)
        self.world.stat_calls.append(path)
        if a is None:
            raise FileNotFoundError(2, "No such file or directory", path)
        size, mtime, ctime = a
        return os.stat_result((0o100644, 1, 1, 1, 0, 0, size, mtime, mtime, ctime))


class FakeTime(object):
    def __init__(self, world):
        self.world = world

    def time(self):
        return self.world.m["now"]


class FakeRandom(object):
    def __init__(self, world):
        self.world = world

    def random(self):
        return self.world.cfg["rnd"]


class World(object):
    def __init__(self, cfg, model=None, dbbytes=None):
        self.cfg = cfg
        self.viols = []
        self.obs = []
        self.stat_calls = []
        self.dbfile = os.path.join(base_dir(), "db.sqlite")
        for suffix in ("", "-journal"):
            if os.path.exists(self.dbfile + suffix):
                os.unlink(self.dbfile + suffix)
        with open(self.dbfile, "wb") as f:
            f.write(template_bytes() if dbbytes is None else dbbytes)
        if model is None:
            model = {
                "attrs": {p: (VALS[0][0], VALS[1][0], VALS[2][0]) for p in PATHS},
                "now": T0,
                # reference: most recent upload record per path, most recent dircap per contents
                "rec": {},            # path -> [size, mtime, ctime, cap, capid, invalidated]
                "capid": {},          # cap -> id of its current caps row
                "nextid": 1,
                "lastup": {},         # capid -> last_checked
                "dirs": {},           # contents-key -> [dircap, last_checked]
            }
        self.m = model
        self.saved = (backupdb.os, backupdb.time, backupdb.random)
        backupdb.os, backupdb.time, backupdb.random = FakeOS(self), FakeTime(self), FakeRandom(self)
        self.bdb = backupdb.get_backupdb(self.dbfile, stderr=Quiet())
        if self.bdb is None:
            raise RuntimeError("get_backupdb failed on %s" % self.dbfile)

    def close(self):
        try:
            self.bdb.connection.close()
        finally:
            backupdb.os, backupdb.time, backupdb.random = self.saved

    def dbbytes(self):
        self.bdb.connection.commit()
        return open(self.dbfile, "rb").read()

    def bad(self, sig, msg):
        self.viols.append((sig, msg))

    # ---------------------------------------------------------------- reference helpers
    def expected_should_check(self, last_checked):
        age = self.m["now"] - last_checked
        p = (age - 30 * DAY) / float(30 * DAY)
        p = min(max(p, 0.0), 1.0)
        return self.cfg["rnd"] < p

    # ---------------------------------------------------------------- operations
    def apply(self, op):
        try:
            getattr(self, "op_" + op[0])(*op[1:])
        except Exception as e:  # noqa
            self.bad("exception:%s:%s" % (op[0], type(e).__name__), "%r raised %r" % (op, e))

    def op_flip(self, pi, fi):
        p = PATHS[pi]
        a = list(self.m["attrs"][p])
        a[fi] = VALS[fi][1] if a[fi] == VALS[fi][0] else VALS[fi][0]
        self.m["attrs"][p] = tuple(a)

    def op_swap(self):
        at = self.m["attrs"]
        at[PATHS[0]], at[PATHS[1]] = at[PATHS[1]], at[PATHS[0]]

    def op_clock(self):
        self.m["now"] += 45 * DAY

    def op_forget(self, table, ci):
        cap = CAPS[ci]
        c = self.bdb.connection.cursor()
        if table == "caps":
            c.execute("DELETE FROM caps WHERE filecap=?", (cap,))
            self.m["capid"].pop(cap, None)
        else:
            c.execute("DELETE FROM last_upload WHERE fileid IN (SELECT fileid FROM caps WHERE filecap=?)", (cap,))
            if cap in self.m["capid"]:
                self.m["lastup"].pop(self.m["capid"][cap], None)
        self.bdb.connection.commit()

    def op_check(self, pi, ts, then):
        m = self.m
        p = PATHS[pi]
        cur = m["attrs"][p]
        self.stat_calls = []
        r = self.bdb.check_file(p, use_timestamps=bool(ts))
        got = r.was_uploaded()
        rec = m["rec"].get(p)
        what = "check_file(%s, use_timestamps=%s) with stat (size,mtime,ctime)=%r" % (p, bool(ts), cur)
        strong = bool(ts and rec and tuple(rec[:3]) == cur and not rec[5]
                      and m["capid"].get(rec[3]) == rec[4] and rec[4] in m["lastup"])
        if got:
            reason = None
            if not ts:
                reason = "timestamps-untrusted"
            elif rec is None:
                reason = "never-uploaded"
            else:
                for i in range(3):
                    if rec[i] != cur[i]:
                        reason = FIELD[i] + "-differs"
                        break
                if reason is None and got != rec[3]:
                    reason = "wrong-cap"
            if reason:
                self.bad("reuse-without-match:" + reason,
                         "%s returned %r; most recent upload record of that path: %s" % (
                             what, got, "none" if rec is None else "(size,mtime,ctime)=%r cap=%r" % (tuple(rec[:3]), rec[3])))
            elif not isinstance(got, bytes):
                self.bad("cap-not-bytes", "%s returned %r" % (what, got))
            else:
                self.obs.append("file-reuse")
                if strong:
                    exp = self.expected_should_check(m["lastup"][rec[4]])
                    if bool(r.should_check()) != exp:
                        self.obs.append("observation:should_check differs from the documented age rule")
        else:
            if got is not False:
                self.bad("was_uploaded-not-false", "%s returned %r" % (what, got))
            if strong:
                self.obs.append("observation:no reuse although the record matches and nothing was forgotten")
            else:
                self.obs.append("file-no-reuse")
            if rec is not None:
                rec[5] = True       # the implementation drops a record it found stale; a later match needs a new upload
        if then == "chg-up1":
            # the file changes (mtime) while its upload is under way; the upload that then completes was started from
            # the contents check_file saw: the record must carry THOSE attributes
            self.op_flip(pi, 1)
        if then in ("up1", "up2", "chg-up1"):
            cap = CAPS[1] if then == "up2" else CAPS[0]
            r.did_upload(cap)
            if cap not in m["capid"]:
                m["capid"][cap] = m["nextid"]
                m["nextid"] += 1
            cid = m["capid"][cap]
            m["lastup"][cid] = m["now"]
            m["rec"][p] = [cur[0], cur[1], cur[2], cap, cid, False]
        elif then == "healthy" and got:
            r.did_check_healthy({"results": {"healthy": True}})
            cid = m["capid"].get(got)
            if cid is not None and cid in m["lastup"]:
                m["lastup"][cid] = m["now"]

    def op_dcheck(self, ci, then):
        m = self.m
        contents = CONTENTS[ci]
        key = repr(sorted(contents.items()))
        r = self.bdb.check_directory(dict(contents))
        got = r.was_created()
        rec = m["dirs"].get(key)
        what = "check_directory(%r)" % (contents,)
        if got:
            if rec is None:
                other = [k for k, v in m["dirs"].items() if v[0] == got]
                self.bad("dir-reuse-without-match:never-created", "%s returned %r but no directory with exactly these contents was ever created (that dircap was recorded for %s)"
                         % (what, got, other))
            elif got != rec[0]:
                self.bad("dir-reuse-without-match:wrong-cap", "%s returned %r, the most recent did_create for these contents recorded %r" % (what, got, rec[0]))
            else:
                self.obs.append("dir-reuse")
                if bool(r.should_check()) != self.expected_should_check(rec[1]):
                    self.obs.append("observation:directory should_check differs from the documented age rule")
        else:
            if got is not False:
                self.bad("was_created-not-false", "%s returned %r" % (what, got))
            if rec is not None:
                self.obs.append("observation:no directory reuse although these contents were recorded")
            else:
                self.obs.append("dir-no-reuse")
        if then in ("mk1", "mk2"):
            dc = DIRCAPS[0] if then == "mk1" else DIRCAPS[1]
            r.did_create(dc)
            m["dirs"][key] = [dc, m["now"]]
        elif then == "healthy" and got:
            r.did_check_healthy({"results": {"healthy": True}})
            for v in m["dirs"].values():
                if v[0] == got:
                    v[1] = m["now"]

    # ---------------------------------------------------------------- state
    def dump(self):
        c = self.bdb.connection.cursor()
        out = []
        for table, order in (("version", "version"), ("local_files", "path"), ("caps", "fileid"), ("last_upload", "fileid"), ("directories", "dirhash")):
            c.execute("SELECT * FROM %s ORDER BY %s" % (table, order))
            out.append((table, tuple(c.fetchall())))
        c.execute("SELECT seq FROM sqlite_sequence WHERE name='caps'")
        out.append(("autoincrement", tuple(c.fetchall())))
        return tuple(out)

    def canon(self):
        m = self.m
        return (self.dump(), tuple(sorted(m["attrs"].items())), m["now"],
                tuple(sorted((k, tuple(v)) for k, v in m["rec"].items())), tuple(sorted(m["capid"].items())), m["nextid"],
                tuple(sorted(m["lastup"].items())), tuple(sorted((k, tuple(v)) for k, v in m["dirs"].items())))


def menu(cfg):
    fam = cfg["family"]
    ops = []
    if fam in ("files", "mixed"):
        paths = (0, 1)
        for pi in paths:
            for fi in range(3):
                ops.append(["flip", pi, fi])
        ops.append(["swap"])
        thens = ("none", "up1", "up2", "healthy") if fam == "files" else ("none", "up1")
        for pi in paths:
            for ts in ((1, 0) if fam == "files" else (1,)):
                for th in thens:
                    ops.append(["check", pi, ts, th])
            if fam == "files":
                ops.append(["check", pi, 1, "chg-up1"])
        for table in ("caps", "last_upload"):
            for ci in ((0, 1) if fam == "files" else (0,)):
                ops.append(["forget", table, ci])
    if fam in ("dirs", "mixed"):
        cis = range(len(CONTENTS)) if fam == "dirs" else (1, 4)
        thens = ("none", "mk1", "mk2", "healthy") if fam == "dirs" else ("none", "mk1")
        for ci in cis:
            for th in thens:
                ops.append(["dcheck", ci, th])
    ops.append(["clock"])
    return ops


# one-entry cache: the state reached by the previous call's parent history (siblings arrive consecutively)
_CACHE = {"key": None, "db": None, "model": None}


def run_history(hist):
    """hist = [cfg, op, op, ...] -> (world-summary dict)"""
    cfg = hist[0]
    ops = hist[1:]
    key = repr(hist[:-1]) if ops else None
    w = None
    try:
        if ops and _CACHE["key"] == key and _CACHE["pid"] == os.getpid():
            w = World(cfg, copy.deepcopy(_CACHE["model"]), _CACHE["db"])
            mode = "reopened"
        else:
            w = World(cfg)
            for op in ops[:-1]:
                w.apply(op)
            w.viols = []       # prefixes were judged when they were generated
            w.obs = []
            if ops:
                _CACHE.update(key=key, db=w.dbbytes(), model=copy.deepcopy(w.m), pid=os.getpid())
            mode = "one-connection"
        if ops:
            w.apply(ops[-1])
        canon = w.canon()
        return {"canon": canon, "viols": list(w.viols), "obs": list(w.obs), "mode": mode}
    finally:
        if w is not None:
            w.close()


def _replay(hist):
    out = run_history(hist)
    digest = hashlib.blake2b(repr((hist[0]["name"], out["canon"])).encode("utf-8", "backslashreplace"), digest_size=16).digest()
    viols = list(out["viols"])
    counts = {"mode:" + out["mode"]: 1}
    for o in out["obs"]:
        counts[o] = counts.get(o, 0) + 1
    return digest, viols, ([] if viols else menu(hist[0])), counts


def replay(case):
    global _RUN_DIR
    hist = case["history"]
    hist = [hist[0]] + [list(o) for o in hist[1:]]
    _CACHE["key"] = None
    _RUN_DIR = "/dev/shm/c42-%d" % os.getpid()
    try:
        return run_history(hist)["viols"]
    finally:
        shutil.rmtree(_RUN_DIR, ignore_errors=True)


def roots(tier, seed):
    q = tier == "quick"
    rs = [{"name": "files/rnd0", "family": "files", "rnd": 0.0, "depth": 5 if q else 6},
          {"name": "dirs/rnd0", "family": "dirs", "rnd": 0.0, "depth": 4 if q else 5},
          {"name": "mixed/rnd0", "family": "mixed", "rnd": 0.0, "depth": 4 if q else 6}]
    if not q:
        rs.append({"name": "files/rnd0.99", "family": "files", "rnd": 0.99, "depth": 6})
        rs.append({"name": "dirs/rnd0.99", "family": "dirs", "rnd": 0.99, "depth": 5})
    return rs


def run(tier, seed):
    global _RUN_DIR
    _RUN_DIR = "/dev/shm/c42-%d" % os.getpid()
    try:
        return _run(tier, seed)
    finally:
        lib_bfs.shutdown()
        shutil.rmtree(_RUN_DIR, ignore_errors=True)


def _run(tier, seed):
    res = common.Result()
    per_root = {}
    only = os.environ.get("C42_ONLY")
    obs_total = {}
    for r in roots(tier, seed):
        if only and only not in r["name"]:
            continue
        t0 = common.perf()
        part = lib_bfs.explore(_replay, r["depth"], [r])
        per_root[r["name"]] = {"states": part.counts.get("states", 0), "transitions": part.counts.get("transitions", 0),
                               "depth": r["depth"], "menu": len(menu(r)), "wall_s": round(common.perf() - t0, 1)}
        st = part.counts.pop("states", 0)
        part.notes.pop("max_depth", None)
        res.merge(part)
        res.count("states", st)
    cov = {
        "states": res.counts.get("states", 0),
        "transitions": res.counts.get("transitions", 0),
        "traces_validated_against_impl": res.counts.get("transitions", 0),
        "per_root": per_root,
        "exhaustive": True,
        "outcomes": {k: v for k, v in sorted(res.counts.items()) if k.startswith(("file-", "dir-", "observation:", "mode:"))},
        "rule": "per root: BFS over ALL histories of the root's operation menu up to the root's depth (per_root.menu operations per state, per_root.depth); "
                "a state = (dump of all five tables + autoincrement counter, model file attributes, clock, reference records), "
                "compared by a 128-bit digest; every transition runs the real backupdb code on an sqlite file under /dev/shm",
    }
    return res, cov


MANIFEST = {
    "engine": "H",
    "technique": "BFS over all operation histories of the real backupdb on an sqlite file, with a most-recent-upload reference stepped alongside",
    "text": "All histories up to depth 5 (thorough 6) of: attribute changes of two local files (os.stat answered by the check), rename, check_file with/without trusted timestamps followed by nothing / did_upload / did_check_healthy, forgotten caps/last_upload rows, clock jumps, and check_directory / did_create over nine directory contents, run on the real BackupDB_v2; states are merged on the full table dump + model. A returned file cap must be the cap of the path's most recent upload recorded with exactly the current size, mtime, ctime and trusted timestamps; a returned dircap must be the one most recently recorded for exactly the same name-to-cap map. A step 'the file's mtime changes, then did_upload' separates the time of check from the time of record; directory contents include a renamed-child sibling and the same map in another order.",
    "note": "os/time/random are rebound inside allmydata.scripts.backupdb. Files and directories are explored separately to full depth and jointly over a reduced menu. Sibling transitions re-open a byte copy of the parent database. Missing reuse and should_check deviations are only counted (the statement is an 'only when'). Every transition is an implementation run.",
}
