"""C39  SFTP writes are never lost to the background download  (Engine H, explicit-state BFS).

Two layers of the real allmydata.frontends.sftpd are explored by level-synchronous BFS over operation
histories (vt.lib_bfs: the algorithm of vt.hbfs plus counters); every transition replays its history
on fresh real objects.

A. OverwriteableFileConsumer alone ("consumer/..." roots).  Original file of L distinct bytes.  Events:
     download   dl(n): the next n original bytes go to consumer.write, n in {1,2,3,rest} (every chunking);
                fin: download_done(b"download finished") after the last byte; fail: download_done(Failure)
                at any point (roots marked +fail);
     client     ow(off,n): overwrite, every off in 0..L+1, n in 1..3;  size(m): set_current_size,
                m in {0,2,L,L+2};  rd(off,n): read, every off in 0..L+1 and n in {1,2,L+2} that does not
                answer at once;  close.
   In EVERY state without an outstanding read all 3(L+2) reads of the menu are issued (each as if alone)
   and those that answer at once are compared with the reference; so explicit rd events are only needed
   for reads that must wait for the download.  ALL interleavings with at most K client events are
   explored.  The documented caller contract of read() ("no more overwrites until the Deferred has
   fired") is respected: with a read outstanding only download events and (roots marked +cr) further
   concurrent reads are enabled.  Roots marked "w" take only writes/truncates/close as client events.
B. GeneralSFTPFile on top of it ("sftpfile/..." roots): a handle opened FXF_READ|FXF_WRITE on a stub
   IFileNode whose version.read(consumer, 0, None) is driven by the same dl/fin/fail events, plus `ver`,
   the moment get_best_readable_version resolves (requests issued before it are queued).  Client events
   writeChunk / setAttrs({size}) / readChunk / close.  The parent directory / mutable node are stubs
   that read, through the uploadable's own interface, exactly what add_file / overwrite would upload.
   "sequential": the client waits for the answer to a read before its next request.  "pipelined": the
   client may send writes/truncates while a read is unanswered.  The statement fixes no linearisation
   point for such an overtaken read (and OverwriteableFileConsumer.read's contract forbids overwrites
   until its Deferred fires), so its answer is accepted if it equals the reference after SOME prefix
   of the client events issued while it was unanswered (an error answer: if some prefix makes the
   range empty or shorter; a data answer may also be a prefix of such a reference whose length is
   that of another candidate: length clipped at issue time, bytes taken later); accepted answers that differ from the issue-time reference are counted
   (coverage key pipelined_overtakes_counted).  Bytes matching NO linearisation point are a violation
   ("pipelined:...-no-linearisation").

Roots   quick:    consumer/L4/K3w, consumer/L6/K2+fail+cr, sftpfile/immutable/sequential/K2+fail+cr,
                  sftpfile/mutable/sequential/K2+cr, sftpfile/immutable/pipelined/K2+cr
        thorough: consumer/L6/K3+fail+cr, consumer/L8/K3w, consumer/L4/K4w, sftpfile/immutable/sequential/K3w,
                  sftpfile/mutable/sequential/K2+fail+cr, sftpfile/immutable/pipelined/K2+fail+cr

The temporary file is an in-memory object with the contract of EncryptedTemporaryFile
(seek/tell/read/write/truncate/close) in which holes -- cells never written, which the real encrypted
temp file returns as keystream garbage -- are tracked exactly and read back as 0xFE, so that any
dependence on undownloaded data is detected deterministically.

Oracle: reference byte array = original contents with the client's writes and size changes applied in
order.  Every answered read returns exactly the reference slice (EOF error iff offset >= size); a read
may fail only if the download failed; no read is left unanswered once the download has finished;
get_current_size() equals the reference length; whenever the consumer reports the download complete
(when_done fired with success) the whole temp file -- what close would upload -- equals the reference;
what GeneralSFTPFile.close hands to add_file/overwrite equals the reference, and close succeeds unless
the download failed.  After a download failure nothing is demanded except "no wrong data".
"""
import hashlib
import os

from .. import boot
from .. import common
from .. import lib_bfs

from twisted.internet import defer
from twisted.python.failure import Failure
from zope.interface import implementer

from allmydata.frontends import sftpd
from allmydata.frontends.sftpd import OverwriteableFileConsumer, GeneralSFTPFile
from allmydata.interfaces import IFileNode
from twisted.conch.ssh.filetransfer import FXF_READ, FXF_WRITE, SFTPError, FX_EOF

LEVEL = "model_checking"
ASSUMPTIONS = [
    "original file of 4, 6 or 8 distinct bytes, client writes of 1..3 bytes at offsets 0..L+1, sizes {0,2,L,L+2}: the code only compares/subtracts offsets, no magnitude-dependent branch (by inspection)",
    "bound = number of client events per history (root name: K2/K3/K4); any number of download events; every chunking into pieces of 1, 2, 3 or 'all the rest'; roots marked w explore reads only through the per-state probe",
    "temp file = in-memory object honouring the documented EncryptedTemporaryFile contract, holes poisoned (0xFE) instead of keystream garbage; 0xFE is not used as data",
    "consumer layer: the documented caller contract of read() is respected (no overwrite/truncate while a read is outstanding); the pipelining client is explored only at the GeneralSFTPFile layer with 2 client events",
    "a read overtaken by later client writes/truncates has no fixed linearisation point: any answer equal to the reference after some prefix of those events is accepted and counted (pipelined_overtakes_counted); an error answer is accepted if some prefix empties or shortens its range",
    "the per-state probe issues each menu read on the state's own objects and removes the probe's milestone again (the objects are discarded afterwards), so probes do not interact",
    "sftpd.noisy (a module-level debug switch that only guards log calls) is set to False for speed",
    "states merged on (all consumer fields, temp-file cells incl. holes, outstanding reads and what they must return, download position/status, reference bytes, client events used, queued pre-open requests): everything the code or the oracle reads later; compared by 128-bit digest",
]

POISON = 0xFE
HOLE = 256

# debug-trace switch of the module under test: only guards self.log(...) calls (60% of the run time)
sftpd.noisy = False


# ------------------------------------------------------------------ temp file with tracked holes
class PoisonFile(object):
    def __init__(self):
        self.buf = []
        self.pos = 0
        self.closed = False

    def _chk(self):
        if self.closed:
            raise ValueError("I/O operation on closed file.")

    def seek(self, offset, whence=0):
        self._chk()
        if whence == 0:
            self.pos = offset
        elif whence == 1:
            self.pos += offset
        else:
            self.pos = len(self.buf) + offset
        if self.pos < 0:
            raise OSError(22, "Invalid argument")

    def tell(self):
        self._chk()
        return self.pos

    def write(self, data):
        self._chk()
        if not isinstance(data, (bytes, bytearray)):
            raise TypeError("a bytes-like object is required, not %r" % type(data).__name__)
        if not data:
            return
        if self.pos > len(self.buf):
            self.buf.extend([HOLE] * (self.pos - len(self.buf)))
        self.buf[self.pos:self.pos + len(data)] = list(data)
        self.pos += len(data)

    def read(self, size=-1):
        self._chk()
        if size is None or size < 0:
            size = max(0, len(self.buf) - self.pos)
        cells = self.buf[self.pos:self.pos + size]
        self.pos += len(cells)
        return bytes(POISON if c == HOLE else c for c in cells)

    def truncate(self, newsize):
        self._chk()
        if newsize < len(self.buf):
            del self.buf[newsize:]
        else:
            self.buf.extend([HOLE] * (newsize - len(self.buf)))

    def flush(self):
        self._chk()

    def close(self):
        self.closed = True

    def snapshot(self):
        return bytes(POISON if c == HOLE else c for c in self.buf)


def original(L, seed):
    return bytes(0x61 + (i + 5 * seed) % 26 for i in range(L))


def client_bytes(k, n):
    """payload of the k-th client event (0-based), n bytes: 'ABC', 'DEF', ..."""
    return bytes(0x41 + (3 * k + j) % 26 for j in range(n))


class Boom(Exception):
    pass


HEAP_TIE = "concurrent-reads-milestone-heap-tie"


def is_heap_tie(e):
    """heapq comparing (index, Deferred) tuples with equal index: one defect, many call sites"""
    return isinstance(e, TypeError) and "Deferred" in str(e) and "not supported between" in str(e)


def diff_kind(got, want, orig):
    """classify a wrong byte string against the reference"""
    if len(got) != len(want):
        return "wrong-length"
    for i, (g, w) in enumerate(zip(got, want)):
        if g != w:
            if g == POISON:
                return "undownloaded-garbage"
            if 0x61 <= g <= 0x7a and (0x41 <= w <= 0x5a or w == 0):
                return "download-clobbers-client-write"
            if (0x41 <= g <= 0x5a or g == 0) and 0x61 <= w <= 0x7a:
                return "client-write-misplaced"
            return "wrong-bytes"
    return "same"


# ------------------------------------------------------------------ reference model
class Ref(object):
    def __init__(self, orig):
        self.data = bytearray(orig)

    def overwrite(self, off, data):
        if off > len(self.data):
            self.data.extend(b"\x00" * (off - len(self.data)))
        self.data[off:off + len(data)] = data

    def set_size(self, n):
        if n < len(self.data):
            del self.data[n:]
        else:
            self.data.extend(b"\x00" * (n - len(self.data)))

    def read(self, off, n):
        if off >= len(self.data):
            return None          # EOF
        return bytes(self.data[off:off + n])


# ------------------------------------------------------------------ read records
class Rd(object):
    __slots__ = ("off", "n", "want", "state", "value", "stale", "judged", "alts")

    def __init__(self, off, n, want):
        self.off, self.n, self.want = off, n, want
        self.state = "pending"      # pending / ok / err
        self.value = None
        self.stale = False          # (pipelining client only) a later write/truncate was issued while unanswered
        self.alts = []              # reference answers after each client write/truncate issued while unanswered
        self.judged = False

    def attach(self, d):
        def ok(v):
            self.state, self.value = "ok", v

        def err(f):
            self.state, self.value = "err", f
        d.addCallbacks(ok, err)


# ------------------------------------------------------------------ layer A: the consumer alone
class ConsumerWorld(object):
    layer = "A"

    def __init__(self, cfg):
        self.cfg = cfg
        self.L = cfg["L"]
        self.orig = original(self.L, cfg.get("seed", 0))
        self.ref = Ref(self.orig)
        self.viols = []
        self.obs = []
        self.dlpos = 0
        self.nclient = 0
        self.closed = False
        self.reads = []
        self.njudged = 0
        self.novertakes = 0
        self.done_checked = False
        self.setup()

    def setup(self):
        self.dl = "running"
        self.file = PoisonFile()
        self.c = OverwriteableFileConsumer(self.L, lambda: self.file)
        self.done = []           # result of when_done()
        self.c.when_done().addBoth(self.done.append)
        self.c.registerProducer(self, True)

    def teardown(self):
        pass

    # IPushProducer
    def resumeProducing(self):
        pass

    def pauseProducing(self):
        pass

    def stopProducing(self):
        pass

    def bad(self, sig, msg):
        self.viols.append((sig, msg))

    def guarded(self, what, f, *a):
        try:
            return f(*a)
        except Exception as e:  # noqa
            sig = HEAP_TIE if is_heap_tie(e) else "exception:%s:%s" % (what, type(e).__name__)
            self.bad(sig, "%s%r raised %r" % (what, a if what != "write" else (len(a[0]),), e))
            return None

    def the_consumer(self):
        return self.c

    def start_read(self, off, n):
        return self.c.read(off, n)

    def is_eof_error(self, f):
        return f.check(EOFError)

    def issue_read(self, off, n, pump=True):
        rec = Rd(off, n, self.ref.read(off, n))
        try:
            d = self.start_read(off, n)
        except Exception as e:  # noqa
            self.bad(HEAP_TIE if is_heap_tie(e) else "exception:read:%s" % type(e).__name__, "read(%d,%d) raised %r" % (off, n, e))
            return None
        rec.attach(d)
        if pump:
            boot.R.pump_until_idle()
        return rec

    def judge_read(self, rec):
        if rec.state == "pending" or rec.judged:
            return
        rec.judged = True
        self.njudged += 1
        if rec.stale:
            return self.judge_overtaken_read(rec)
        what = "read(%d,%d)" % (rec.off, rec.n)
        want, val = rec.want, rec.value
        if rec.state == "err":
            if want is None and self.is_eof_error(val):
                return
            if self.dl == "failed":
                return           # download failed: the statement does not apply, a failing read is fine
            detail = getattr(val.value, "message", None) or val.value
            if want is None:
                self.bad("read-at-eof-wrong-error", "%s at/after EOF (size %d) failed with %r instead of the EOF error" % (what, len(self.ref.data), detail))
            else:
                self.bad("read-fails:%s" % type(val.value).__name__, "%s failed with %r although the download did not fail; expected %r" % (what, detail, want))
            return
        if want is None:
            self.bad("read-past-eof-returns-data", "%s returned %r, reference size is %d (EOF expected)" % (what, val, len(self.ref.data)))
        elif val != want:
            self.bad("read:" + diff_kind(val, want, self.orig), "%s returned %r, reference %r" % (what, val, want))

    def judge_overtaken_read(self, rec):
        """A read that was still unanswered when the client issued later writes/truncates: the statement fixes
        no linearisation point for it (and the consumer's read() contract forbids such overwrites), so every
        answer that equals the reference after SOME prefix of those later events is accepted and only counted.
        An error answer is accepted when some prefix makes the range empty or shorter (EOF / rejected overlap).
        Bytes that match NO linearisation point are still a violation."""
        cands = [rec.want] + rec.alts
        what = "read(%d,%d) [unanswered while %d later write/truncate event(s) were issued]" % (rec.off, rec.n, len(rec.alts))
        val = rec.value
        if rec.state == "err":
            if self.dl == "failed":
                return
            longest = max(len(c) for c in cands if c is not None) if any(c is not None for c in cands) else 0
            shrunk = any(c is None or len(c) < longest for c in cands)
            if shrunk:
                self.novertakes += 1
                return
            detail = getattr(val.value, "message", None) or val.value
            self.bad("pipelined:read-fails:%s" % type(val.value).__name__,
                     "%s failed with %r although no linearisation point makes its range empty or shorter; candidates %r" % (what, detail, cands))
            return
        real = [c for c in cands if c is not None]
        if val in real:
            if val != rec.want:
                self.novertakes += 1
            return
        # the length of the answer may have been fixed (clipped to the then current size) at one point and the
        # bytes taken at a later one: a short read of a later linearisation point -- legal for an overtaken read
        if val and len(val) in [len(c) for c in real] and any(c[:len(val)] == val for c in real):
            self.novertakes += 1
            return
        ref = next((c for c in cands if c is not None), b"")
        self.bad("pipelined:read:" + diff_kind(val, ref, self.orig) + "-no-linearisation",
                 "%s returned %r, which equals the reference at NO point between its issue and its answer; candidates in order: %r" % (what, val, cands))

    def mark_stale(self):
        for r in self.reads:
            if r.state == "pending":
                r.stale = True

    def note_alternatives(self):
        # called right after the reference absorbed a client write/truncate
        for r in self.reads:
            if r.state == "pending":
                r.alts.append(self.ref.read(r.off, r.n))

    # -------- events
    def apply(self, ev):
        k = ev[0]
        if k in ("ow", "size", "rd", "close"):
            self.nclient += 1
        getattr(self, "ev_" + k)(*ev[1:])
        boot.R.pump_until_idle()

    def ev_dl(self, n):
        chunk = self.orig[self.dlpos:self.dlpos + n]
        self.dlpos += len(chunk)
        self.guarded("write", self.the_consumer().write, chunk)

    def ev_fin(self):
        self.dl = "finished"
        self.guarded("unregisterProducer", self.c.unregisterProducer)
        self.guarded("download_done", self.c.download_done, b"download finished")

    def ev_fail(self):
        self.dl = "failed"
        self.guarded("unregisterProducer", self.c.unregisterProducer)
        self.guarded("download_done", self.c.download_done, Failure(Boom("download failed")))

    def ev_ow(self, off, n):
        data = client_bytes(self.nclient - 1, n)
        self.mark_stale()
        self.ref.overwrite(off, data)
        self.note_alternatives()
        self.guarded("overwrite", self.c.overwrite, off, data)

    def ev_size(self, m):
        self.mark_stale()
        self.ref.set_size(m)
        self.note_alternatives()
        self.guarded("set_current_size", self.c.set_current_size, m)

    def ev_rd(self, off, n):
        rec = self.issue_read(off, n)
        if rec is not None:
            self.reads.append(rec)

    def ev_close(self):
        self.closed = True
        self.guarded("close", self.c.close)

    # -------- checks
    def pending(self):
        return [r for r in self.reads if r.state == "pending"]

    def check(self):
        c = self.c
        for rec in self.reads:
            self.judge_read(rec)
        pend = self.pending()
        if pend and self.dl == "finished":
            self.bad("read-never-answered", "download finished but read(%d,%d) is still unanswered" % (pend[0].off, pend[0].n))
        if not self.closed:
            cs = self.guarded("get_current_size", c.get_current_size)
            if cs is not None and cs != len(self.ref.data):
                self.bad("wrong-current-size", "get_current_size()=%r, reference size %d" % (cs, len(self.ref.data)))
        if self.dl == "finished" and not self.done:
            self.bad("never-done", "download finished but when_done() has not fired")
        if self.done and not isinstance(self.done[0], Failure) and not self.closed:
            got = self.file.snapshot()
            want = bytes(self.ref.data)
            self.done_checked = True
            if got != want:
                self.bad("final-contents:" + diff_kind(got, want, self.orig),
                         "download complete (when_done -> %r): temp file (= what close uploads) is %r, reference %r" % (self.done[0], got, want))

    def cons_canon(self, c):
        if c is None:
            return None
        ds = c.done_status
        return (c.downloaded, c.download_size, c.current_size, tuple(sorted(c.overwrites)), tuple(c.f.buf), c.f.closed,
                tuple(sorted(m[0] for m in c.milestones)), None if ds is None else ("fail" if isinstance(ds, Failure) else "ok"), c.is_closed)

    def canon(self):
        return (self.layer, self.L, self.cons_canon(self.the_consumer()), self.dlpos, self.dl, self.nclient, bytes(self.ref.data), self.closed,
                tuple(sorted((r.off, r.n, r.want, r.stale, tuple(r.alts)) for r in self.pending()))) + self.extra_canon()

    def extra_canon(self):
        return ()

    # -------- menus
    def read_menu(self):
        L = self.L
        return [(off, n) for off in range(L + 2) for n in (1, 2, L + 2)]

    def download_ops(self):
        ops = []
        if self.dl == "running":
            rest = self.L - self.dlpos
            if rest > 0:
                for n in sorted(set([1, 2, 3, rest])):
                    if n <= rest:
                        ops.append(["dl", n])
            else:
                ops.append(["fin"])
            if self.cfg.get("fail", True):
                ops.append(["fail"])
        return ops

    pipelined = False

    def enabled(self):
        ops = self.download_ops()
        L = self.L
        if self.closed:
            return ops
        pend = bool(self.pending())
        budget = self.nclient < self.cfg["K"]
        # probe: with no read outstanding every read of the menu is issued in this state; the ones that answer
        # at once are judged now, the others become explicit `rd` events
        pending_menu = []
        probes = []
        for (off, n) in ([] if pend else self.read_menu()):
            cons = self.the_consumer()
            saved = list(cons.milestones) if cons is not None else None
            rec = self.issue_read(off, n, pump=False)
            if cons is not None:
                # this world is discarded after the probe; dropping the probe's milestone keeps the probes
                # independent of each other (each behaves as if it were the only read issued in this state)
                cons.milestones[:] = saved
            if rec is not None:
                probes.append(rec)
        boot.R.pump_until_idle()
        for rec in probes:
            if rec.state == "pending":
                pending_menu.append((rec.off, rec.n))
            else:
                self.judge_read(rec)
        if budget:
            if self.pipelined or not pend:
                for off in range(L + 2):
                    for n in (1, 2, 3):
                        ops.append(["ow", off, n])
                for m in sorted(set([0, 2, L, L + 2])):
                    ops.append(["size", m])
            if not pend:
                ops.append(["close"])
            # with a read outstanding nothing is probed (a probe would be a concurrent read): every read of
            # the menu is offered as an explicit (concurrent) read event instead
            if self.cfg.get("explicit_reads", True):
                for (off, n) in ((self.read_menu() if self.cfg.get("concurrent", True) else []) if pend else pending_menu):
                    ops.append(["rd", off, n])
        return ops


# ------------------------------------------------------------------ layer B: GeneralSFTPFile
@implementer(IFileNode)
class StubFileNode(object):
    def __init__(self, world, mutable):
        self.world = world
        self.mutable = mutable

    def is_mutable(self):
        return self.mutable

    def is_readonly(self):
        return False

    def get_best_readable_version(self):
        self.world.version_d = defer.Deferred()
        return self.world.version_d

    # the "version"
    def get_size(self):
        return self.world.L

    def read(self, consumer, offset=0, size=None):
        w = self.world
        w.consumer = consumer
        w.read_d = defer.Deferred()
        consumer.registerProducer(w, True)
        return w.read_d

    def overwrite(self, uploadable):
        return self.world.take_upload(uploadable, "overwrite")


class StubParent(object):
    def __init__(self, world):
        self.world = world

    def add_file(self, childname, uploadable, metadata=None):
        return self.world.take_upload(uploadable, "add_file")

    def set_metadata_for(self, childname, metadata):
        return defer.succeed(None)

    def get_write_uri(self):
        return b"URI:DIR2:stub"


class SftpWorld(ConsumerWorld):
    """Same event vocabulary, driven through GeneralSFTPFile (readChunk / writeChunk / setAttrs / close)."""
    layer = "B"

    def setup(self):
        cfg = self.cfg
        self.dl = "unresolved"       # unresolved -> running -> finished/failed
        self.files = []
        self.uploads = []
        self.close_result = []
        self.consumer = None
        self.version_d = None
        self.read_d = None
        self.prever = []             # client requests queued before get_best_readable_version resolved
        self.pipelined = bool(cfg.get("pipelined"))
        self.node = StubFileNode(self, bool(cfg.get("mutable")))
        self.parent = StubParent(self)
        self._saved = sftpd.EncryptedTemporaryFile
        sftpd.EncryptedTemporaryFile = self.make_file
        self.h = None
        try:
            self.h = GeneralSFTPFile(b"/f", FXF_READ | FXF_WRITE, None, b"convergence")
            self.h.open(parent=self.parent, childname=u"f", filenode=self.node, metadata={})
            boot.R.pump_until_idle()
        except Exception as e:  # noqa
            self.bad("exception:open:%s" % type(e).__name__, "open raised %r" % (e,))

    def teardown(self):
        sftpd.EncryptedTemporaryFile = self._saved
        if self.h is not None:
            self.h.async_.addErrback(lambda f: None)     # this world is discarded: no "Unhandled error in Deferred" noise

    def the_consumer(self):
        return self.h.consumer

    def make_file(self):
        f = PoisonFile()
        self.files.append(f)
        return f

    def take_upload(self, uploadable, how):
        # read everything the uploader would read, through the uploadable's own interface
        # (FileHandle: Deferreds; MutableFileHandle: plain values; both synchronous over a file)
        try:
            if how == "add_file":
                got = []
                uploadable.get_size().addCallback(got.append)
                size = got[0]
                got = []
                uploadable.read(size).addCallback(got.append)
                data = b"".join(got[0])
            else:
                size = uploadable.get_size()
                data = b"".join(uploadable.read(size))
        except Exception as e:  # noqa
            self.bad("exception:upload:%s" % type(e).__name__, "reading the temp file for upload raised %r" % (e,))
            return defer.fail(Failure(e))
        self.uploads.append((how, data))
        return defer.succeed(self.node)

    def start_read(self, off, n):
        return self.h.readChunk(off, n)

    def is_eof_error(self, f):
        return isinstance(f.value, SFTPError) and f.value.code == FX_EOF

    def apply(self, ev):
        if self.dl == "unresolved" and ev[0] not in ("ver", "fail"):
            self.prever.append(tuple(ev))
        ConsumerWorld.apply(self, ev)

    def ev_ver(self):
        self.dl = "running"
        self.version_d.callback(self.node)

    def ev_fin(self):
        self.dl = "finished"
        self.guarded("unregisterProducer", self.consumer.unregisterProducer)
        self.read_d.callback(self.consumer)

    def ev_fail(self):
        self.dl = "failed"
        if self.read_d is not None:
            self.guarded("unregisterProducer", self.consumer.unregisterProducer)
            self.read_d.errback(Failure(Boom("download failed")))
        else:
            self.version_d.errback(Failure(Boom("no recoverable version")))

    def ev_dl(self, n):
        chunk = self.orig[self.dlpos:self.dlpos + n]
        self.dlpos += len(chunk)
        self.guarded("write", self.consumer.write, chunk)

    def ev_ow(self, off, n):
        data = client_bytes(self.nclient - 1, n)
        self.mark_stale()
        self.ref.overwrite(off, data)
        self.note_alternatives()
        self.call_client("writeChunk", self.h.writeChunk, off, data)

    def ev_size(self, m):
        self.mark_stale()
        self.ref.set_size(m)
        self.note_alternatives()
        self.call_client("setAttrs", self.h.setAttrs, {"size": m})

    def ev_close(self):
        self.closed = True
        try:
            self.h.close().addBoth(self.close_result.append)
        except Exception as e:  # noqa
            self.bad("exception:close:%s" % type(e).__name__, "close raised %r" % (e,))

    def call_client(self, what, f, *a):
        try:
            d = f(*a)
        except Exception as e:  # noqa
            self.bad("exception:%s:%s" % (what, type(e).__name__), "%s raised %r" % (what, e))
            return
        out = []
        d.addBoth(out.append)
        boot.R.pump_until_idle()
        if out and isinstance(out[0], Failure) and self.dl != "failed":
            self.bad("%s-fails:%s" % (what, type(out[0].value).__name__), "%s%r failed with %r" % (what, a[:1], getattr(out[0].value, "message", out[0].value)))

    def stuck(self):
        why = getattr(self.h.async_, "result", None)
        return why if isinstance(why, Failure) else None

    def check(self):
        for rec in self.reads:
            self.judge_read(rec)
        pend = self.pending()
        if pend and self.dl == "finished":
            why = self.stuck()
            pre = "pipelined:" if pend[0].stale else ""
            self.bad(HEAP_TIE if (why and is_heap_tie(why.value)) else pre + "read-never-answered" + (":" + type(why.value).__name__ if why else ""),
                     "download finished but readChunk(%d,%d) is still unanswered%s" % (
                         pend[0].off, pend[0].n, "; the handle's request queue holds the failure %r" % (why.value,) if why else ""))
        if self.closed and self.dl == "finished" and not self.close_result:
            self.bad("close-never-answered", "download finished but close() is still unanswered")
        if self.close_result:
            r = self.close_result[0]
            want = bytes(self.ref.data)
            if isinstance(r, Failure):
                if self.dl != "failed":
                    self.bad("close-fails:%s" % type(r.value).__name__, "close failed with %r although the download did not fail" % (getattr(r.value, "message", r.value),))
                if self.uploads:
                    self.bad("upload-despite-failure", "close failed (%r) but %r was uploaded" % (r.value, self.uploads))
            elif self.h.has_changed:
                if len(self.uploads) != 1:
                    self.bad("upload-count", "handle was written to; close succeeded with %d uploads" % len(self.uploads))
                else:
                    got = self.uploads[0][1]
                    if got != want:
                        self.bad("uploaded-contents:" + diff_kind(got, want, self.orig),
                                 "close uploaded (%s) %r, reference %r" % (self.uploads[0][0], got, want))
            elif self.uploads:
                self.bad("upload-without-change", "nothing was written but close uploaded %r" % (self.uploads,))

    def extra_canon(self):
        return (bool(self.h.has_changed), tuple(self.uploads), len(self.close_result),
                tuple(self.prever) if self.h.consumer is None else (), self.stuck() is not None)

    def download_ops(self):
        if self.dl == "unresolved":
            return [["ver"]] + ([["fail"]] if self.cfg.get("fail", True) else [])
        return ConsumerWorld.download_ops(self)


# ------------------------------------------------------------------ hbfs glue
def build_and_run(hist):
    """history = [root_cfg_dict, ev, ev, ...]  ->  (world, canon, enabled ops)"""
    cfg = hist[0]
    w = (ConsumerWorld if cfg["layer"] == "consumer" else SftpWorld)(cfg)
    try:
        boot.R.pump_until_idle()
        for ev in hist[1:]:
            if w.viols:
                break
            w.apply(ev)
        if not w.viols:
            w.check()
        canon = w.canon()
        ops = w.enabled() if not w.viols else []
    finally:
        w.teardown()
    return w, canon, ops


def _replay(hist):
    w, canon, ops = build_and_run(hist)
    digest = hashlib.blake2b(repr((hist[0]["name"], canon)).encode("utf-8", "backslashreplace"), digest_size=16).digest()
    counts = {"reads_compared": w.njudged}
    if w.novertakes:
        counts["pipelined_overtakes_counted"] = w.novertakes
    if getattr(w, "uploads", None):
        counts["uploads_compared"] = 1
    if w.done_checked:
        counts["final_contents_compared"] = 1
    return digest, w.viols, ops, counts


def replay(case):
    hist = case["history"]
    hist = [hist[0]] + [list(e) for e in hist[1:]]
    w, canon, ops = build_and_run(hist)
    return w.viols


def roots(tier, seed):
    def cons(name, L, K, fail=False, concurrent=False, explicit_reads=True):
        return {"name": "consumer/" + name, "layer": "consumer", "L": L, "K": K, "seed": seed, "fail": fail, "concurrent": concurrent,
                "explicit_reads": explicit_reads}

    def sftp(name, K, fail=False, mutable=False, pipelined=False, concurrent=True, explicit_reads=True):
        return {"name": "sftpfile/" + name, "layer": "sftpfile", "L": 6, "K": K, "seed": seed, "fail": fail, "mutable": mutable,
                "pipelined": pipelined, "concurrent": concurrent, "explicit_reads": explicit_reads}
    # root name = layer / original length / max client events, then
    #   +fail  download failures are explored too          +cr  concurrent (several outstanding) reads are explored too
    #   w      client events are writes/truncates/close only (reads: only the probe of all menu reads in every state)
    if tier == "quick":
        return [cons("L4/K3w", 4, 3, explicit_reads=False), cons("L6/K2+fail+cr", 6, 2, fail=True, concurrent=True),
                sftp("immutable/sequential/K2+fail+cr", 2, fail=True), sftp("mutable/sequential/K2+cr", 2, mutable=True),
                sftp("immutable/pipelined/K2+cr", 2, pipelined=True)]
    return [cons("L6/K3+fail+cr", 6, 3, fail=True, concurrent=True), cons("L8/K3w", 8, 3, explicit_reads=False), cons("L4/K4w", 4, 4, explicit_reads=False),
            sftp("immutable/sequential/K3w", 3, explicit_reads=False), sftp("mutable/sequential/K2+fail+cr", 2, fail=True, mutable=True),
            sftp("immutable/pipelined/K2+fail+cr", 2, fail=True, pipelined=True)]


def run(tier, seed):
    try:
        return _run(tier, seed)
    finally:
        lib_bfs.shutdown()


def _quiet_twisted_log():
    # Failures deliberately injected by the `fail` event end up in Deferreds of discarded worlds; without an
    # observer twisted prints "Unhandled error in Deferred" for each of them on stderr
    from twisted.logger import globalLogBeginner
    try:
        globalLogBeginner.beginLoggingTo([lambda event: None], redirectStandardIO=False, discardBuffer=True)
    except Exception:  # noqa
        pass


def _run(tier, seed):
    _quiet_twisted_log()
    rs = roots(tier, seed)
    res = common.Result()
    per_root = {}
    only = os.environ.get("C39_ONLY")
    for r in rs:
        if only and only not in r["name"]:
            continue
        t0 = common.perf()
        part = lib_bfs.explore(_replay, 64, [r], sample_every=49999)
        per_root[r["name"]] = {"states": part.counts.get("states", 0), "transitions": part.counts.get("transitions", 0),
                               "depth": part.notes.get("max_depth"), "wall_s": round(common.perf() - t0, 1)}
        st = part.counts.pop("states", 0)
        part.notes.pop("max_depth", None)
        res.merge(part)
        res.count("states", st)
    cov = {
        "states": res.counts.get("states", 0),
        "transitions": res.counts.get("transitions", 0),
        "traces_validated_against_impl": res.counts.get("transitions", 0),
        "per_root": per_root,
        "exhaustive": True,
        "reads_compared": res.counts.get("reads_compared", 0),
        "final_contents_compared": res.counts.get("final_contents_compared", 0),
        "uploads_compared": res.counts.get("uploads_compared", 0),
        "pipelined_overtakes_counted": res.counts.get("pipelined_overtakes_counted", 0),
        "rule": "per root: BFS over ALL interleavings of download events (every chunking into 1/2/3/rest, finish, failure where the root says +fail) with client events "
                "(overwrite off 0..L+1 len 1..3, set size {0,2,L,L+2}, every read (off 0..L+1, len 1/2/L+2) that does not answer at once, close) "
                "with at most K client events (root name: layer/L/K); a state = canonical tuple of all consumer fields + temp-file cells incl. holes + outstanding reads + "
                "download position/status + reference bytes + client events used (compared by a 128-bit digest); every transition replays its history on fresh real objects; "
                "in every state without an outstanding read all 3(L+2) reads of the menu are issued and those that answer at once are compared as well",
    }
    return res, cov


MANIFEST = {
    "engine": "H",
    "technique": "explicit-state BFS over all interleavings of download chunks with client requests on the real OverwriteableFileConsumer and GeneralSFTPFile, with a reference byte array stepped alongside",
    "text": "Every interleaving of the background download (every chunking, finish, failure) with up to K client overwrites / truncations / extensions / reads / close is executed on fresh real objects (K = 3 at the consumer, 2 through GeneralSFTPFile in quick; 3-4 and 3 in thorough); states are merged on the full consumer state + temp-file cells + outstanding reads + reference. In every state all reads that can answer are issued and compared; when the download is complete the temp file, and after close the uploaded bytes, must equal the reference. Complete for the stated bounds; nothing is sampled.",
    "note": "Temp file is an in-memory stand-in that poisons holes (what EncryptedTemporaryFile leaves unspecified). File nodes / parent directory are stubs; no SSH transport. Reads overtaken by a later write/truncate of a pipelining client are accepted at any linearisation point and only counted; 'pipelined:' verdicts are answers matching none. sftpd.noisy is switched off. Every transition is an implementation run (traces = transitions).",
}
