"""C46  Immutable reads always terminate  (Engine G, stateless model checking).

File: 2-of-3, 3 segments, on 3 real storage servers.  Space:
 (a) ciphertext-hash failures: the ciphertext hash tree leaf of segment j in {0,1,2} is wrong
     (shares self-consistent and matching the cap: every per-share check passes, the decoded
     segment then fails its hash) x EVERY sequence of three reads from {segment 0, segment 1,
     segment 2, whole file} issued one after another on ONE node object, and every ordered pair
     of those reads issued concurrently;
 (b) share/server damage (missing, corrupt block, corrupt hashes, erroring or disconnecting
     servers, all servers failing) and placements with the SAME share number on two or three servers
     (fewer / exactly / more than k distinct numbers obtainable), followed by two further reads on
     the same node;
 each under every schedule with <= d deviations (incl. firing timers early) and <= f injected
 faults (error before the call / connection loss, on any remote call).
Oracle: once nothing is pending and all timers have fired, every read() Deferred has fired
exactly once; delivered bytes are always a prefix of the right slice; a read that does not touch
a bad segment succeeds whenever >= k intact shares sit on servers that answered every call.
"""
import itertools

from .. import boot, common, grid, lib_imm

LEVEL = "model_checking"
ASSUMPTIONS = [
    "2-of-3 file of 61 bytes in 3 segments; one share per server (placements are C03's subject)",
    "calls on one connection are delivered in issue order (foolscap); deviations reorder across connections and fire timers early",
    "decode failure inside zfec cannot be provoked with well-formed blocks; the ciphertext-hash failure exercises the same error path (process_blocks failure branch)",
]

BASE = dict(k=2, n=3, seg=21, size=61, S=3, placement={"0": [0], "1": [1], "2": [2]})
RANGES = [[0, 10], [22, 10], [44, 10], [0, None]]   # segment 0, 1, 2, whole file


def cases_ct(tier):
    seq, conc = [], []
    for bad in ([0], [1], [2]):
        for trio in itertools.product(range(4), repeat=3):
            seq.append(dict(BASE, bad_ct=bad, groups=[[RANGES[i]] for i in trio]))
        for a, b in itertools.product(range(4), repeat=2):
            conc.append(dict(BASE, bad_ct=bad, groups=[[RANGES[a], RANGES[b]], [RANGES[0]]]))
    return seq, conc


def cases_duplicates():
    """the same share number on two servers, with fewer / exactly / more than k distinct numbers
    obtainable: the fetcher's give-up logic must count share NUMBERS, not copies"""
    out = []
    for pl in ({"0": [0, 1]}, {"0": [0, 1, 2]}, {"0": [0, 1], "1": [2]}, {"0": [0, 1], "1": [1, 2]}, {"0": [0], "1": [0], "2": [1]}):
        for d in ({}, {"0:0": "corrupt-block0"}, {"1:0": "missing"}):
            d = {c: k for c, k in d.items() if c.split(":")[1] in pl and int(c.split(":")[0]) in pl[c.split(":")[1]]}
            out.append(dict(BASE, placement=pl, damage=d, groups=[[RANGES[3]], [RANGES[0]], [RANGES[2]]]))
            out.append(dict(BASE, placement=pl, damage=d, groups=[[RANGES[1], RANGES[2]], [RANGES[0]]]))
    return out


def cases_damage():
    out = []
    dmgs = [
        {}, {"0:0": "missing"}, {"0:0": "corrupt-block0"}, {"0:0": "corrupt-sharehash", "1:1": "corrupt-blockhash"},
        {"0:0": "missing", "1:1": "missing"}, {"0:0": "corrupt-block0", "1:1": "corrupt-blocklast", "2:2": "corrupt-ueb"},
    ]
    sks = [{}, {"0": "errors-on-read"}, {"0": "disconnects-on-first-read"}, {"0": "errors-on-everything", "1": "errors-on-everything", "2": "errors-on-everything"},
           {"0": "errors-on-read", "1": "disconnects-on-first-read"}]
    for d in dmgs:
        for sk in sks:
            out.append(dict(BASE, damage=d, server_kind=sk, groups=[[RANGES[3]], [RANGES[0]], [RANGES[2]]]))
    return out


def replay(case):
    trace, viol, obs = lib_imm.run_reads(case["case"], case["prefix"], boot.SEED)
    return viol


def run(tier, seed):
    seq, conc = cases_ct(tier)
    dmg = cases_damage() + cases_duplicates()
    faults = ["error", "disconnect"]
    # default schedule for everything
    res = common.pmap(lib_imm.explore_chunk, seq + conc + dmg, (seed, 0, 0, None, "C46"))
    n0 = res.counts.get("executions", 0)
    # schedule and fault exploration
    if tier == "quick":
        plan = [(seq[::7] + conc[::3] + dmg[::2], 1, 0), (seq[3::11] + conc[1::5] + dmg[1::3], 0, 1)]
    else:
        plan = [(seq + conc + dmg, 2, 0), (seq[::2] + conc + dmg, 1, 1)]
    bt = lambda cs: [dict(c, batch=True) for c in cs]     # several answers per reactor turn (grid.Sched.batch)
    plan += [(bt(seq[1::2] + conc[::2] + dmg), 0, 0), (bt(seq[2::9] + conc[2::4] + dmg[::3]), 1, 0)] if tier == "quick" else [(bt(seq + conc + dmg), 1, 0), (bt(seq[::3] + conc[::2] + dmg), 0, 1)]
    desc = []
    for (sel, d, f) in plan:
        sel = [dict(c, fault_kinds=faults if f else []) for c in sel]
        res.merge(common.pmap(lib_imm.explore_chunk, sel, (seed, d, f, 6000, "C46"), chunks=len(sel)))
        desc.append("%d cases at d<=%d,f<=%d%s" % (len(sel), d, f, " (several answers per reactor turn)" if sel and sel[0].get("batch") else ""))
    d = max(p[1] for p in plan)
    f = max(p[2] for p in plan)
    cov = lib_imm.coverage_from(res, "every read sequence / concurrent pair x bad segment and every damage case at the default schedule (%d executions); then every schedule within the bounds for: %s (d = deviations incl. early timers, f = injected faults of kinds %r)" % (n0, "; ".join(desc), faults),
                                {"deviation_bound_completed": d, "fault_bound_completed": f})
    return res, cov


MANIFEST = {
    "engine": "G",
    "technique": "stateless model checking of the real downloader: all read sequences on one node x bad-segment position, all delivery orders / early timers / injected faults within a deviation bound; termination checked at quiescence",
    "text": "Reads are issued on one real ImmutableFileNode over real storage servers; the scheduler enumerates every delivery order, early timer and fault placement within the bounds, runs each execution until nothing is enabled and all timers have fired, and checks that every read Deferred fired exactly once and later reads still complete.",
    "note": "Ciphertext-hash failures are produced by uploading with a doctored per-segment hasher (harness side only). Bounds (d, f) reported in evidence; large files and >3 servers are outside.",
}
