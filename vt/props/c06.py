"""C06  A successful immutable upload meets servers-of-happiness  (Engine G, model checking).

File: 61 bytes, k=2, N=4.  Space:
 (a) default schedule: happy in {1..4} x EVERY assignment of a kind in {normal, full, read-only,
     holds share 0, holds shares {0,1}, holds all} to each of S servers, S in {1..4} (quick) /
     {1..5} (thorough);
 (a') 3 servers, every assignment of {holds all shares and is full, holds share 0 and is full, holds {0,1} and is
     full, normal} x happy in {1..4} (duplicate pre-existing shares that cannot be complemented);
 (b) representative grids: every schedule with <= d deviations (reordered answers, the 15 s
     query timeouts fired early) and <= f injected faults (error before the call, error after it
     took effect, connection loss) on ANY get_buckets / allocate_buckets / write / close / abort.
Oracle (from ground truth = the share files on disk, compared with an independently prepared
reference encoding): on success every (share, server) pair of UploadResults.get_sharemap() is a
complete, byte-correct share in that server's final directory, the maximum matching of the shares
really on disk is >= happy, and the file downloads.  On failure the error is
UploadUnhappinessError / NoServersError and, once everything pending has been delivered, every
share visible through get_buckets is complete and correct, incoming/ is empty and no space stays
reserved.
"""
import itertools
import os

from .. import boot, common, grid, lib_imm
from allmydata import uri as tahoe_uri
from allmydata.storage.server import storage_index_to_dir

LEVEL = "model_checking"
ASSUMPTIONS = [
    "one small file (61 bytes, 2-of-4, single segment); server kinds as listed",
    "a share is 'correct' when its data region equals the reference encoding of the same plaintext/parameters (encoding is deterministic under a convergence secret)",
    "calls on one connection are FIFO",
    "an upload that fails with an unhappiness error although a happy layout was reachable is counted, not judged (the statement constrains reported successes and the manner of failing, it promises no success); seen on the unchanged tree with 5 servers of which some are full",
]
K, N, SIZE, SEG = 2, 4, 61, 61
KINDS = ["normal", "full", "readonly", "has0", "has01", "hasall"]
HELD = {"has0": [0], "has01": [0, 1], "hasall": [0, 1, 2, 3]}


def ref_matching(pairs):
    """pairs: set of (server, shnum) -> size of maximum matching"""
    by_sh = {}
    for sv, sh in pairs:
        by_sh.setdefault(sh, []).append(sv)
    match = {}

    def aug(sh, seen):
        for sv in by_sh[sh]:
            if sv in seen:
                continue
            seen.add(sv)
            if sv not in match or aug(match[sv], seen):
                match[sv] = sh
                return True
        return False
    return sum(1 for sh in by_sh if aug(sh, set()))


def data_region(blob):
    n = int.from_bytes(blob[8:12], "big")
    return blob[0xc:len(blob) - 72 * n]


def execute(case, prefix, seed):
    prep = lib_imm.prepare(K, N, SEG, SIZE, seed)
    ref = {sh: data_region(b) for sh, b in prep["shares"].items()}
    kinds = case["kinds"]
    S = len(kinds)
    ch = grid.Chooser(prefix)
    server_kw = {i: {"readonly_storage": True} for i, kd in enumerate(kinds) if kd == "readonly"}
    g = grid.Grid(S, nclients=2, chooser=ch, fault_kinds=tuple(case.get("fault_kinds", ())), server_kw=server_kw,
                  client_kw=dict(k=K, n=N, happy=case["happy"], max_segment_size=SEG))
    g.sched.batch = bool(case.get("batch"))     # turn granularity, see grid.Sched.batch
    if case.get("cpu"):
        g.sched.cpu_events()     # thread-pool work completes as a scheduled event, see grid.Sched.cpu_events
    viol, obs = [], {}
    try:
        for i, kd in enumerate(kinds):
            if kd == "full" or kd.endswith("+full"):
                g.servers[i].get_available_space = lambda: 0
            for sh in HELD.get(kd.split("+")[0], []):
                lib_imm.place(g, prep, {sh: [i]})
        before = set(lib_imm.ground_truth_shares(g, prep["si"]))
        b = lib_imm.upload(g, prep["data"], explore=True)
        g.quiesce()
        if not b:
            viol.append(("upload-hangs", "upload Deferred never fired; log tail=%r" % (g.sched.log[-5:],)))
            return ch.trace, viol, obs
        truth = lib_imm.ground_truth_shares(g, prep["si"])
        faulted = any(kd.startswith("fault") for (kd, lbl, o) in g.sched.log)
        timer_early = any(m[p][0] == "timer" for (n_, p, m) in ch.trace)
        # every visible share must be complete and correct, whatever the outcome
        for (sv, sh), blob in truth.items():
            if data_region(blob) != ref[sh]:
                viol.append(("visible-share-incomplete-or-wrong", "after the upload %s share %d on server %d is visible to readers but differs from the reference encoding (%d vs %d bytes)" % ("succeeded" if b[0][0] == "ok" else "failed", sh, sv, len(data_region(blob)), len(ref[sh]))))
        rel = storage_index_to_dir(prep["si"])
        for (sv, path) in g.share_files():
            if path.startswith("incoming"):
                viol.append(("incoming-left-behind", "server %d still has %s after the upload finished and everything pending was delivered" % (sv, path)))
        for i, ss in enumerate(g.servers):
            if ss.allocated_size() != 0:
                viol.append(("space-still-reserved", "server %d still reserves %d bytes" % (i, ss.allocated_size())))
        if b[0][0] == "ok":
            obs["outcome"] = "ok"
            ur = b[0][1]
            claimed = set()
            ids = {g.ids[i]: i for i in range(S)}
            for sh, servers in ur.get_sharemap().items():
                for s in servers:
                    claimed.add((ids[s.get_serverid()], sh))
            for (sv, sh) in sorted(claimed):
                if (sv, sh) not in truth:
                    viol.append(("reported-share-not-on-disk", "UploadResults says share %d is on server %d but no complete share file exists there" % (sh, sv)))
            real = set(truth)
            hap = ref_matching(real)
            obs["happiness"] = hap
            if hap < case["happy"]:
                viol.append(("success-below-happiness", "upload reported success with happy=%d but the shares really on disk %r have a maximum matching of %d" % (case["happy"], sorted(real), hap)))
            # read back through a second client: the uploader's connections may have been cut by injected faults
            node = g.clients[1].create_node_from_uri(ur.get_uri())
            b2, cons = lib_imm.read(g, node)
            if not b2 or b2[0][0] != "ok" or cons.data() != prep["data"]:
                if len(set(sh for sv, sh in real)) >= K:
                    viol.append(("uploaded-file-unreadable", "download after successful upload: %r" % (b2 and (b2[0][0], b2[0][0] != "ok" and lib_imm.failure_name(b2[0][1])),)))
        else:
            name = lib_imm.failure_name(b[0][1])
            obs["outcome"] = "err:" + name
            if name not in ("UploadUnhappinessError", "NoServersError"):
                viol.append(("wrong-upload-error:" + name, b[0][1].getErrorMessage()[:300]))
            if not faulted and not timer_early:
                # no fault: was a happy layout reachable?  writable normal servers can take anything
                writable = [i for i, kd in enumerate(kinds) if kd not in ("full", "readonly") and not kd.endswith("+full")]
                pairs = set(before)
                for sv in writable:
                    for sh in range(N):
                        pairs.add((sv, sh))
                if writable and ref_matching(pairs) >= case["happy"]:
                    # The statement only says when an upload may REPORT SUCCESS and how it must fail; it does not promise
                    # success whenever a happy layout exists.  Observed on the unchanged tree with 5 servers of which
                    # some are full (the selector plans a share for a full server and gives up after the refusal):
                    # counted, not judged.
                    obs["note"] = "unhappy-although-reachable"
                    obs["outcome"] = obs["outcome"] + ":although-happy-layout-reachable"
        obs["events"] = len(g.sched.log)
        for e in boot.R.take_errors():
            viol.append(("exception-in-timer:" + type(e.value).__name__, e.getTraceback()[-400:]))
        boot.take_logged()
    finally:
        g.close()
    return ch.trace, viol, obs


def chunk(tasks, seed, d_bound, f_bound, max_exec, collect=None):
    res = common.Result()
    for task in tasks:
        case, root = task if isinstance(task, tuple) else (task, [])
        gate = {}

        def ex(prefix):
            trace, viol, obs = execute(case, prefix, seed)
            return trace, (viol, obs)

        def on_exec(prefix, trace, info):
            viol, obs = info
            res.count("executions")
            res.count("transitions", obs.get("events", 0))
            res.count("outcome:" + obs.get("outcome", "?"))
            res.distinct.add((obs.get("outcome"), obs.get("happiness")))
            for sig, msg in viol:
                res.violation(sig, {"case": case, "prefix": prefix}, msg + " | case=%r schedule=%r" % (case, prefix))
            if collect and not prefix:
                res.notes.setdefault("children", []).extend((case, p) for p in grid.children([], trace, collect[0], collect[1]))
            if any(prefix) and not gate:
                gate["x"] = 1
                t2, v2, o2 = execute(case, prefix, seed)
                if o2 != obs:
                    raise grid.HarnessError("nondeterministic replay %r %r: %r vs %r" % (case, prefix, obs, o2))
                res.sample({"case": case, "schedule": prefix, "outcome": obs.get("outcome"), "happiness_on_disk": obs.get("happiness")})
        n, capped = grid.explore_subtree(ex, root, d_bound, f_bound, on_exec, max_exec=max_exec)
        res.count("trees")
        if capped:
            res.count("capped_trees")
    return res


def all_cases(tier):
    out = []
    smax = 4 if tier == "quick" else 5
    kinds = KINDS if tier != "quick" else ["normal", "full", "readonly", "has0", "hasall"]
    for S in range(1, smax + 1):
        ks = kinds if S <= 3 else ["normal", "full", "readonly", "has01"]
        for assign in itertools.combinations_with_replacement(ks, S):
            for perm in sorted(set(itertools.permutations(assign))) if S <= 2 else [assign, tuple(reversed(assign))]:
                for happy in range(1, N + 1):
                    out.append({"kinds": list(perm), "happy": happy})
    return out


def held_and_full_cases():
    """servers that already hold shares AND accept nothing more (full): the same share number on several servers,
    one server holding many - every assignment of {holds all+full, holds 0+full, holds {0,1}+full, normal} to 3
    servers (every order: which server is enumerated first matters to a matching computation)"""
    out = []
    ks = ["hasall+full", "has0+full", "has01+full", "normal"]
    for assign in itertools.product(ks, repeat=3):
        if all(a == "normal" for a in assign):
            continue
        for happy in range(1, N + 1):
            out.append({"kinds": list(assign), "happy": happy})
    return out


def rep_cases():
    out = []
    for kinds in (["normal"] * 4, ["normal", "normal", "readonly", "has01"], ["normal", "full", "has0", "normal"], ["normal", "normal"], ["hasall", "normal", "normal"]):
        for happy in (2, len(kinds)):
            out.append({"kinds": kinds, "happy": happy})
    # more servers than shares: a failure during allocation forces a second placement round that moves shares
    out.append({"kinds": ["normal"] * 5, "happy": 4})
    out.append({"kinds": ["normal"] * 4 + ["has0"], "happy": 4})
    out.append({"kinds": ["normal"] * 6, "happy": 4})
    return out


def replay(case):
    trace, viol, obs = execute(case["case"], case["prefix"], boot.SEED)
    return viol


def run(tier, seed):
    cases = all_cases(tier) + held_and_full_cases()
    res = common.pmap(chunk, cases, (seed, 0, 0, None))
    n0 = res.counts.get("executions", 0)
    faults = ["error", "error-after", "disconnect"]
    reps = rep_cases()
    plan = [(reps[:10], 1, 0), (reps[:10:3] + reps[-3:], 0, 1), (reps[1:10:5], 1, 1)] if tier == "quick" else [(reps, 2, 0), (reps, 1, 1), (reps[:10], 0, 2)]
    # the same with every answer that is deliverable at the start of a reactor turn delivered in that turn
    bt = lambda cs: [dict(c, batch=True) for c in cs]
    plan += [(bt(reps[:10]), 1, 0), (bt(reps[:10:3] + reps[-3:]), 0, 1)] if tier == "quick" else [(bt(reps), 1, 0), (bt(reps), 0, 1), (bt(reps[:10]), 1, 1)]
    # encoding in the thread pool completes as a scheduled event: answers can overtake it (grid.Sched.cpu_events)
    cp = lambda cs: [dict(c, cpu=True) for c in cs]
    plan += [(cp(reps[:10:2]), 1, 0)] if tier == "quick" else [(cp(reps), 2, 0), (cp(reps[:10]), 1, 1)]
    desc = []
    for sel, d, f in plan:
        sel = [dict(c, fault_kinds=faults if f else []) for c in sel]
        res.merge(grid.split_tasks(common.pmap, chunk, sel, (seed,), d, f))
        desc.append("%d grids at d<=%d,f<=%d%s" % (len(sel), d, f, " (several answers per reactor turn)" if sel and sel[0].get("batch") else " (thread-pool completions scheduled)" if sel and sel[0].get("cpu") else ""))
    cov = {
        "states": res.counts.get("executions", 0),
        "transitions": res.counts.get("transitions", 0),
        "traces_validated_against_impl": res.counts.get("executions", 0),
        "grids_at_default_schedule": n0,
        "capped_trees": res.counts.get("capped_trees", 0),
        "distinct_outcomes": len(res.distinct),
        "outcomes": {k[8:]: v for k, v in res.counts.items() if k.startswith("outcome:")},
        "rule": "every (server-kind assignment, happy) grid at the default schedule; then %s; d = deviations (reordered answers, early 15 s timeouts), f = injected faults %r" % ("; ".join(desc), faults),
    }
    return res, cov


MANIFEST = {
    "engine": "G",
    "technique": "stateless model checking of the real uploader against ground truth on disk: exhaustive server-kind grid at the default schedule, all delivery orders / early timeouts / injected faults within bounds on representative grids",
    "text": "Uploads run through the real Uploader/Encoder onto real storage servers of every kind mix; after each execution the share files on disk are compared with a reference encoding and the reported share map, a brute-force maximum matching is compared with the happiness threshold, and leftovers (incoming files, reservations) are checked. Also every assignment of servers that hold shares AND are full (duplicate pre-existing shares that cannot be complemented) on 3 servers.",
    "note": "Single small file; bounds (d, f) in evidence; correctness of a share = equality of its data region with an independently prepared encoding.",
}
