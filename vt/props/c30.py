"""C30  HTTP storage API authorisation  (Engine H: explicit-state BFS over adversary requests).

Real StorageServer + real HTTPServer (Klein resource) reached through treq.testing.StubTreq
(vt/lib_http.py).  A background scenario is played by the legitimate clients X and Y through
the real typed HTTP client; each prefix of it is a root state:

  st0  nothing stored
  st1  X allocated immutable (A,0),(A,1) (size 8, upload secret UX); Y allocated (A,2) (UY)
  st2  + X wrote bytes 0..4 of (A,0)
  st3  + X uploaded (A,1) completely         ((A,0) still in progress)
  st4  + mutable slot M share 0 written with write enabler W
and three roots in which an upload slot of a storage index changes hands while a sibling share
of the same index is still in progress:
  st5  X allocated (A,0),(A,1); X aborted (A,0); Y allocated (A,0) anew (UY)
  st6  X allocated (A,0), 29 min later (A,1); 2 min later (A,0) timed out; Y allocated (A,0) anew
  st7  X allocated (A,0),(A,1) and completed (A,0); Y allocated {0 (already there), 2}
and one root with the SAME share numbers in progress under two storage indexes:
  st8  X allocated (A,0),(A,1) (UX); Y allocated (Z,0),(Z,1),(Z,2) (UY)

From every root, EVERY request of a fixed finite alphabet is issued:
  every route of HTTPServer (taken from the Klein url map and compared with the table below)
  x targets x request bodies,
  x Authorization in {absent, empty, wrong swissnum, right swissnum under scheme "Basic",
    non-UTF-8 bytes, right value truncated, right value + suffix, the right token with its letter
    case swapped / lowered (another swissnum that reads the same case-insensitively), right},
  x X-Tahoe-Authorization sets in {right, none, each required secret missing in turn, one extra
    kind, unknown kind, duplicated, not base64, empty value, base64 of the empty string,
    31-byte renew secret, 33-byte cancel secret, wrong upload secret / write enabler, the OTHER
    client's upload secret, two wrong values, wrong+right in both orders, junk-prefixed right},
  plus every path template under every other method (GET HEAD POST PUT PATCH DELETE).
Every state-changing request leads to a new state (canonical form: digest of the whole storage
directory + uploads-in-progress table + BucketWriter table); the BFS continues from every
distinct new state with the whole alphabet again (depth 2 quick, 3 thorough).

Oracle (per request, against the state just before it):
  A  Authorization is not the exact right value  =>  status >= 400, directory digest and
     uploads tables unchanged, response body contains no 4-byte run of any stored share payload.
  B  right Authorization, secrets missing / malformed / wrong kind / wrong length
     =>  status 4xx, digest and tables unchanged.
  C0 right Authorization, PATCH/abort carrying exactly the secret the targeted in-progress upload
     was allocated with (per a reference ownership model kept by the check: last successful
     allocation of that share; forgotten on completion / abort)  =>  not 401/403.
  C  right Authorization, well-formed upload secret that is not the secret the targeted
     in-progress upload was allocated with (PATCH or abort)  =>  status 4xx, unchanged, and the owner can still
     complete the upload (remaining ranges written with the right secret => 201, share reads
     back as owner's bytes).
  D  read-test-write on an existing slot with a well-formed wrong write enabler
     =>  status 4xx, digest unchanged.
  I  (all requests) an in-progress upload whose secret does not occur in the request keeps its
     table entry (secret, written ranges) and its incoming file byte for byte.
Where the statement is silent (duplicated secrets containing the right value, junk-prefixed
base64 that decodes to the right value, wrong methods with right credentials, everything with
right credentials and right secrets) outcomes are only counted.
"""
import hashlib
import json
import os
from base64 import b64decode

from .. import boot, common
from .. import lib_http as L
from ..lib_http import b64, si_text

from allmydata.storage.http_server import HTTPServer
from allmydata.storage.http_client import (
    StorageClientImmutables, StorageClientMutables, TestWriteVectors, WriteVector, ReadVector,
)
from allmydata.util import cbor

LEVEL = "model_checking"
ASSUMPTIONS = [
    "finite request alphabet (listed in the module docstring); header values outside it (other encodings of the same secret, >2 duplicates, other Range forms) are not issued",
    "targets: immutable storage index A shares 0 (in progress, X), 1 (complete), 2 (in progress, Y), mutable slot M share 0, plus share 3 / an unknown index in bodies; share size 8",
    "state identity = byte digest of the storage directory + HTTPServer uploads table + StorageServer._bucket_writers (written ranges); timers are not part of it (no time passes)",
    "transport is treq's in-memory StubTreq (real HTTP/1.1 serialisation and twisted.web parsing, no TLS, no sockets)",
    "duplicated secrets that include the right value and junk-prefixed base64 decoding to the right value are accepted either way (statement silent); only counted",
]

RENEW, CANCEL, UPLOAD, WE = "lease-renew-secret", "lease-cancel-secret", "upload-secret", "write-enabler"
KINDS = [RENEW, CANCEL, UPLOAD, WE]

# name, method, path template, required secrets
ROUTES = [
    ("version", "GET", "/storage/v1/version", ()),
    ("alloc", "POST", "/storage/v1/immutable/{si}", (RENEW, CANCEL, UPLOAD)),
    ("abort", "PUT", "/storage/v1/immutable/{si}/{n}/abort", (UPLOAD,)),
    ("write", "PATCH", "/storage/v1/immutable/{si}/{n}", (UPLOAD,)),
    ("list", "GET", "/storage/v1/immutable/{si}/shares", ()),
    ("read", "GET", "/storage/v1/immutable/{si}/{n}", ()),
    ("lease", "PUT", "/storage/v1/lease/{si}", (RENEW, CANCEL)),
    ("corrupt", "POST", "/storage/v1/immutable/{si}/{n}/corrupt", ()),
    ("rtw", "POST", "/storage/v1/mutable/{si}/read-test-write", (RENEW, CANCEL, WE)),
    ("mread", "GET", "/storage/v1/mutable/{si}/{n}", ()),
    ("mlist", "GET", "/storage/v1/mutable/{si}/shares", ()),
    ("mcorrupt", "POST", "/storage/v1/mutable/{si}/{n}/corrupt", ()),
]
ROUTE = {r[0]: r for r in ROUTES}
METHODS = ["GET", "HEAD", "POST", "PUT", "PATCH", "DELETE"]
AUTHS = ["absent", "empty", "wrong", "scheme", "nonutf8", "prefix", "suffix", "swapcase", "lower", "right"]
SIZE = 8
NSTATES = 9


def check_route_table():
    """The table above must be exactly the server's url map."""
    import re
    mine = set()
    for name, m, tmpl, q in ROUTES:
        mine.add((re.sub(r"\{si\}", "<SI>", tmpl).replace("{n}", "<N>"), m))
    theirs = set()
    for r in HTTPServer._app.url_map.iter_rules():
        rule = r.rule.replace("<storage_index:storage_index>", "<SI>").replace("<int(signed=False):share_number>", "<N>")
        for m in r.methods:
            if m != "HEAD":
                theirs.add((rule, m))
    if mine != theirs:
        raise RuntimeError("route table out of date: only here %r, only in server %r" % (sorted(mine - theirs), sorted(theirs - mine)))


# ------------------------------------------------------------------ constants derived from the seed
class K(object):
    def __init__(self, seed):
        def h(label, n):
            out = b""
            i = 0
            while len(out) < n:
                out += hashlib.sha256(b"c30:%d:%s:%d" % (seed, label, i)).digest()
                i += 1
            return out[:n]
        self.seed = seed
        self.A, self.M, self.Z = h(b"si-A", 16), h(b"si-M", 16), h(b"si-Z", 16)
        self.DATA = {("A", 0): h(b"dA0", SIZE), ("A", 1): h(b"dA1", SIZE), ("A", 2): h(b"dA2", SIZE), ("M", 0): h(b"dM0", 10)}
        self.EVIL = h(b"evil", 16)
        self.UX, self.UY, self.UZ, self.UZ2 = h(b"UX", 20), h(b"UY", 20), h(b"UZ", 20), h(b"UZ2", 20)
        self.RX, self.CX = h(b"RX", 32), h(b"CX", 32)
        self.RY, self.CY = h(b"RY", 32), h(b"CY", 32)
        self.RZ, self.CZ = h(b"RZ", 32), h(b"CZ", 32)   # adversary's own lease secrets
        self.W, self.WZ = h(b"W", 32), h(b"WZ", 32)
        self.WRONG_SWISS = h(b"swiss", len(L.SWISSNUM))

    def si(self, name):
        return {"A": self.A, "M": self.M, "Z": self.Z}[name]


# ------------------------------------------------------------------ request alphabet
def _sec_variants(q, has_owner_secret):
    """names of X-Tahoe-Authorization variants for a route requiring kinds q."""
    v = ["right", "extra", "unknown-kind"]
    if not q:
        return v + ["notb64-extra"]
    v.append("absent")
    if len(q) > 1:
        v += ["missing:" + k for k in q]
    k0 = q[-1]   # the upload secret / write enabler when there is one, else the cancel secret
    v += ["dup-same:" + k0, "notb64:" + k0, "empty:" + k0, "emptyb64:" + k0, "junk-right:" + k0]
    if RENEW in q:
        v += ["short-renew", "long-cancel"]
    if UPLOAD in q or WE in q:
        v += ["wrong:" + k0, "prefix:" + k0, "dup-wrong-wrong:" + k0, "dup-wrong-right:" + k0, "dup-right-wrong:" + k0]
    if has_owner_secret:
        v += ["other-client", "dup-wrong-other"]
    return v


REDUCED_AUTHS = ("wrong", "swapcase", "right")


def build_alphabet(tier, mode="full"):
    reqs = _build_alphabet(tier)
    if mode == "reduced":
        reqs = [r for r in reqs if r["auth"] in REDUCED_AUTHS]
    return reqs


def _build_alphabet(tier):
    reqs = []
    targets = {
        "version": [{}],
        "alloc": [{"si": "A", "body": "alloc03"}],
        "abort": [{"si": "A", "n": 0}, {"si": "A", "n": 1}, {"si": "A", "n": 2}],
        "write": [{"si": "A", "n": 0, "body": "w4-8"}, {"si": "A", "n": 0, "body": "w0-8"}, {"si": "A", "n": 2, "body": "w4-8"}, {"si": "A", "n": 2, "body": "w0-8"}],
        "list": [{"si": "A"}],
        "read": [{"si": "A", "n": 0, "range": "0-7"}, {"si": "A", "n": 1, "range": "0-7"}, {"si": "A", "n": 1}],
        "lease": [{"si": "A"}, {"si": "M"}],
        "corrupt": [{"si": "A", "n": 1, "body": "reason"}],
        "rtw": [{"si": "M", "body": "rtw-w0"}, {"si": "M", "body": "rtw-w3"}, {"si": "M", "body": "rtw-del0"}],
        "mread": [{"si": "M", "n": 0, "range": "0-9"}, {"si": "M", "n": 0}],
        "mlist": [{"si": "M"}],
        "mcorrupt": [{"si": "M", "n": 0, "body": "reason"}],
    }
    if tier == "thorough":
        targets["alloc"].append({"si": "Z", "body": "alloc03"})
        targets["read"] += [{"si": "A", "n": 1, "range": "2-100"}, {"si": "Z", "n": 0, "range": "0-7"}]
        targets["lease"].append({"si": "Z"})
        targets["rtw"].append({"si": "Z", "body": "rtw-w0"})
        targets["mread"].append({"si": "M", "n": 0, "range": "3-100"})
        targets["abort"].append({"si": "Z", "n": 0})
    for name, method, tmpl, q in ROUTES:
        for t in targets[name]:
            owner = name in ("abort", "write") and t.get("n") in (0, 1, 2)
            for sec in _sec_variants(q, owner):
                for auth in AUTHS:
                    r = {"route": name, "m": method, "auth": auth, "sec": sec}
                    r.update(t)
                    reqs.append(r)
    # every path template under every other method
    seen_paths = {}
    for name, method, tmpl, q in ROUTES:
        seen_paths.setdefault(tmpl, []).append(name)
    for tmpl, names in sorted(seen_paths.items()):
        valid = set(ROUTE[n][1] for n in names)
        if "GET" in valid:
            valid.add("HEAD")
        t = dict(targets[names[0]][0])
        for m in METHODS:
            if m in valid and m != "HEAD":
                continue
            for auth in ("absent", "wrong", "right"):
                for sec in ("absent", "right"):
                    r = {"route": names[0], "m": m, "auth": auth, "sec": sec}
                    r.update(t)
                    reqs.append(r)
    return reqs


def right_secrets(k, spec):
    """The secrets a legitimate owner of the target would send."""
    route = spec["route"]
    q = ROUTE[route][3]
    out = {}
    for kind in q:
        if kind == RENEW:
            out[kind] = k.RZ
        elif kind == CANCEL:
            out[kind] = k.CZ
        elif kind == WE:
            out[kind] = k.W
        elif kind == UPLOAD:
            if route == "alloc":
                out[kind] = k.UZ
            else:
                out[kind] = {0: k.UX, 1: k.UX, 2: k.UY}.get(spec.get("n"), k.UZ)
    return out


def secret_headers(k, spec):
    """list of raw X-Tahoe-Authorization values (str)."""
    q = ROUTE[spec["route"]][3]
    right = right_secrets(k, spec)
    sec = spec["sec"]
    vals = [(kind, b64(right[kind])) for kind in q]
    name, _, arg = sec.partition(":")

    def repl(kind, newval):
        return [(kk, newval if kk == kind else vv) for (kk, vv) in vals]
    other = {0: k.UY, 1: k.UY, 2: k.UX}.get(spec.get("n"), k.UY)
    wrong = k.WZ if arg == WE else k.UZ2
    if name == "right":
        pass
    elif name == "absent":
        vals = []
    elif name == "missing":
        vals = [(kk, vv) for (kk, vv) in vals if kk != arg]
    elif name == "extra":
        extra = [kk for kk in KINDS if kk not in q][0]
        vals = vals + [(extra, b64(k.RZ))]
    elif name == "unknown-kind":
        vals = vals + [("bogus-secret", b64(k.RZ))]
    elif name == "notb64-extra":
        vals = vals + [(UPLOAD, "!!!notbase64")]
    elif name == "dup-same":
        vals = vals + [(arg, b64(right[arg]))]
    elif name == "notb64":
        vals = repl(arg, "!!!notbase64")
    elif name == "empty":
        vals = repl(arg, "")
    elif name == "emptyb64":
        vals = repl(arg, "====")
    elif name == "junk-right":
        vals = repl(arg, "$$" + b64(right[arg]))
    elif name == "short-renew":
        vals = repl(RENEW, b64(right[RENEW][:31]))
    elif name == "long-cancel":
        vals = repl(CANCEL, b64(right[CANCEL] + b"\x00"))
    elif name == "wrong":
        vals = repl(arg, b64(wrong))
    elif name == "prefix":
        vals = repl(arg, b64(right[arg][:16]))          # a proper prefix of the right secret
    elif name == "other-client":
        vals = repl(UPLOAD, b64(other))
    elif name == "dup-wrong-other":
        vals = repl(UPLOAD, b64(k.UZ2)) + [(UPLOAD, b64(other))]
    elif name == "dup-wrong-wrong":
        vals = repl(arg, b64(wrong)) + [(arg, b64(k.WZ[:20] if arg == UPLOAD else k.RZ))]
    elif name == "dup-wrong-right":
        vals = repl(arg, b64(wrong)) + [(arg, b64(right[arg]))]
    elif name == "dup-right-wrong":
        vals = vals + [(arg, b64(wrong))]
    else:
        raise ValueError(sec)
    return ["%s %s" % kv for kv in vals]


MALFORMED = ("absent", "missing", "extra", "unknown-kind", "notb64-extra", "notb64", "empty", "emptyb64", "short-renew", "long-cancel")


def auth_header(k, node, variant):
    right = node.auth_value()          # bytes
    if variant == "absent":
        return None
    if variant == "empty":
        return b""
    if variant == "wrong":
        from allmydata.storage.http_common import swissnum_auth_header
        return swissnum_auth_header(k.WRONG_SWISS)
    if variant == "scheme":
        return b"Basic " + right.split(b" ", 1)[1]
    if variant == "nonutf8":
        return b"Tahoe-LAFS \xff\xfe" + right.split(b" ", 1)[1]
    if variant == "prefix":
        return right[:-2]
    if variant == "suffix":
        return right + b"AA"
    if variant in ("swapcase", "lower"):
        # a different swissnum whose base64 spelling differs from the right one only in letter case
        scheme, tok = right.split(b" ", 1)
        v = scheme + b" " + (tok.swapcase() if variant == "swapcase" else tok.lower())
        if v == right:
            raise RuntimeError("swissnum token has no letters to change")
        return v
    if variant == "right":
        return right
    raise ValueError(variant)


def build_request(k, node, spec):
    name, method, tmpl, q = ROUTE[spec["route"]]
    path = tmpl.format(si=si_text(k.si(spec.get("si", "A"))), n=spec.get("n", 0))
    headers = []
    a = auth_header(k, node, spec["auth"])
    if a is not None:
        headers.append((b"Authorization", a))
    for v in secret_headers(k, spec):
        headers.append(("X-Tahoe-Authorization", v))
    data = None
    body = spec.get("body")
    if body == "alloc03":
        data = cbor.dumps({"share-numbers": {0, 3}, "allocated-size": SIZE})
        headers.append(("Content-Type", "application/cbor"))
    elif body == "w4-8":
        data = k.EVIL[4:8]
        headers.append(("Content-Range", "bytes 4-7/*"))
    elif body == "w0-8":
        data = k.EVIL[0:8]
        headers.append(("Content-Range", "bytes 0-7/*"))
    elif body == "reason":
        data = cbor.dumps({"reason": "adversary says so"})
        headers.append(("Content-Type", "application/cbor"))
    elif body and body.startswith("rtw"):
        if body == "rtw-w0":
            tw = {0: {"test": [], "write": [{"offset": 0, "data": k.EVIL[:6]}], "new-length": None}}
        elif body == "rtw-w3":
            tw = {3: {"test": [], "write": [{"offset": 0, "data": k.EVIL[:6]}], "new-length": None}}
        else:
            tw = {0: {"test": [], "write": [], "new-length": 0}}
        data = cbor.dumps({"test-write-vectors": tw, "read-vector": [{"offset": 0, "size": 100}]})
        headers.append(("Content-Type", "application/cbor"))
    if spec.get("range"):
        headers.append(("Range", "bytes=" + spec["range"]))
    if data is None and spec["m"] in ("POST", "PUT", "PATCH"):
        data = b""
    return spec["m"], path, headers, data


# ------------------------------------------------------------------ environment
class Env(object):
    def __init__(self, k, state):
        boot.urandom.reset(k.seed, b"c30")
        L.align_clock()
        self.k = k
        self.node = L.Node()
        n = self.node
        cl = n.client()
        im = StorageClientImmutables(cl)
        mu = StorageClientMutables(cl)
        # reference model of who owns which in-progress upload (independent of the server's table):
        # {(si name, share): frozenset of upload secrets given when it was allocated}
        self.owners = {}
        X, Y = frozenset([k.UX]), frozenset([k.UY])
        base = state if state <= 4 else 0
        if base >= 1:
            r = n.wait(im.create(k.A, {0, 1}, SIZE, k.UX, k.RX, k.CX))
            assert r.allocated == {0, 1}, r
            r = n.wait(im.create(k.A, {2}, SIZE, k.UY, k.RY, k.CY))
            assert r.allocated == {2}, r
            self.owners = {("A", 0): X, ("A", 1): X, ("A", 2): Y}
        if base >= 2:
            r = n.wait(im.write_share_chunk(k.A, 0, k.UX, 0, k.DATA[("A", 0)][:4]))
            assert not r.finished
        if base >= 3:
            r = n.wait(im.write_share_chunk(k.A, 1, k.UX, 0, k.DATA[("A", 1)]))
            assert r.finished
            del self.owners[("A", 1)]
        if state == 5:      # r6: X holds {0,1}, X aborts 0, Y re-allocates 0
            r = n.wait(im.create(k.A, {0, 1}, SIZE, k.UX, k.RX, k.CX))
            assert r.allocated == {0, 1}, r
            n.wait(im.abort_upload(k.A, 0, k.UX))
            r = n.wait(im.create(k.A, {0}, SIZE, k.UY, k.RY, k.CY))
            assert r.allocated == {0}, r
            self.owners = {("A", 0): Y, ("A", 1): X}
        if state == 6:      # r7: X's upload of 0 times out while its upload of 1 is alive, Y re-allocates 0
            r = n.wait(im.create(k.A, {0}, SIZE, k.UX, k.RX, k.CX))
            assert r.allocated == {0}, r
            boot.R.advance(29 * 60)
            r = n.wait(im.create(k.A, {1}, SIZE, k.UX, k.RX, k.CX))
            assert r.allocated == {1}, r
            boot.R.advance(2 * 60)
            r = n.wait(im.create(k.A, {0}, SIZE, k.UY, k.RY, k.CY))
            assert r.allocated == {0}, r
            self.owners = {("A", 0): Y, ("A", 1): X}
        if state == 7:      # r8: X completes 0 while 1 is in progress, Y allocates {0 (already there), 2}
            r = n.wait(im.create(k.A, {0, 1}, SIZE, k.UX, k.RX, k.CX))
            assert r.allocated == {0, 1}, r
            r = n.wait(im.write_share_chunk(k.A, 0, k.UX, 0, k.DATA[("A", 0)]))
            assert r.finished
            r = n.wait(im.create(k.A, {0, 2}, SIZE, k.UY, k.RY, k.CY))
            assert r.already_have == {0} and r.allocated == {2}, r
            self.owners = {("A", 1): X, ("A", 2): Y}
        if state == 8:      # r9: uploads of the SAME share numbers in progress under two storage indexes, by two clients
            r = n.wait(im.create(k.A, {0, 1}, SIZE, k.UX, k.RX, k.CX))
            assert r.allocated == {0, 1}, r
            r = n.wait(im.create(k.Z, {0, 1, 2}, SIZE, k.UY, k.RY, k.CY))
            assert r.allocated == {0, 1, 2}, r
            self.owners = {("A", 0): X, ("A", 1): X, ("Z", 0): Y, ("Z", 1): Y, ("Z", 2): Y}
        if base >= 4:
            r = n.wait(mu.read_test_write_chunks(
                k.M, k.W, k.RX, k.CX,
                {0: TestWriteVectors(write_vectors=[WriteVector(offset=0, data=k.DATA[("M", 0)])])}, [ReadVector(0, 10)]))
            assert r.success
        self.snap()
        if set(self.ip) != set(self.owners):
            raise RuntimeError("scenario st%d: server tracks uploads %r, scenario expects %r" % (state, sorted(self.ip), sorted(self.owners)))

    def snap(self):
        self.d = self.node.digest(True)
        self.u = self.node.uploads_table()
        self.ip = in_progress(self.node, self.k)
        self._payloads = None

    def payloads(self):
        """share payloads that are (partly) on disk right now"""
        if self._payloads is None:
            blob = b"".join(self.node.file_bytes().values())
            self._payloads = [data for key, data in sorted(self.k.DATA.items()) if has_4gram(blob, [data])]
        return self._payloads

    def enablers(self, si):
        """write enablers of the mutable shares stored for si (bytes 52..84 of each container)"""
        out = set()
        for shnum, fn in self.node.ss.get_shares(si):
            with open(fn, "rb") as f:
                head = f.read(84)
            if head[:12] == b"Tahoe mutabl":
                out.add(head[52:84])
        return out

    def canon(self):
        return hashlib.sha256(repr((self.d, self.u)).encode()).hexdigest()

    def close(self):
        self.node.close()


def in_progress(node, k):
    """{(si_name, n): (secret, ranges, incoming bytes)} for uploads tracked by the HTTP server."""
    out = {}
    up = node.http._uploads
    for si_name in ("A", "Z"):
        si = k.si(si_name)
        u = up._uploads.get(si)
        if not u:
            continue
        for n_, bw in u.shares.items():
            try:
                with open(bw.incominghome, "rb") as f:
                    raw = f.read()
            except EnvironmentError:
                raw = None
            out[(si_name, n_)] = (u.upload_secrets.get(n_), tuple((r.start, r.stop) for r in bw._already_written.ranges()), raw)
    return out


def has_4gram(body, payloads):
    for p in payloads:
        for i in range(len(p) - 3):
            if p[i:i + 4] in body:
                return p[i:i + 4]
    return None


def step(env, spec):
    """Issue one request in env.  Returns (violations, changed, outcome, dirty)."""
    k, node = env.k, env.node
    pre_d, pre_u, pre_ip = env.d, env.u, env.ip
    owners = dict(env.owners)
    is_route = spec["m"] == ROUTE[spec["route"]][1]
    noauth = spec["auth"] != "right"
    payloads = env.payloads() if noauth else []
    enablers = env.enablers(k.si(spec["si"])) if (spec["route"] == "rtw" and is_route and not noauth) else set()
    method, path, headers, data = build_request(k, node, spec)
    sent = " ".join(v for (h, v) in headers if h == "X-Tahoe-Authorization")
    sent_uploads = [v.split(" ", 1)[1] for (h, v) in headers if h == "X-Tahoe-Authorization" and v.startswith(UPLOAD + " ")]
    viols = []
    try:
        code, hd, body = node.raw(method, path, headers, data)
    except L.NeverFired:
        return [("no-response", "request never answered: %s" % json.dumps(spec))], True, "hang", True
    env.snap()
    changed = (env.d != pre_d) or (env.u != pre_u)
    secname = spec["sec"].partition(":")[0]
    desc = "%s %s auth=%s secrets=%s -> %d %r" % (method, path, spec["auth"], spec["sec"], code, body[:80])
    dirty = False
    cls = "free"
    target = (spec.get("si"), spec.get("n"))
    if noauth:
        cls = "noauth"
        if code < 400:
            viols.append(("noauth-accepted:%s" % spec["auth"], "request without the right swissnum answered %d (want 401): %s" % (code, desc)))
        if changed:
            viols.append(("noauth-state-change", "request without the right swissnum changed server state: %s; digest %s, uploads %s" % (
                desc, "changed" if env.d != pre_d else "same", "changed" if env.u != pre_u else "same")))
        leak = has_4gram(body, payloads)
        if leak:
            viols.append(("noauth-share-bytes", "response to a request without the right swissnum contains share bytes %r: %s" % (leak, desc)))
    elif is_route and secname in MALFORMED:
        cls = "malformed"
        if not (400 <= code < 500):
            viols.append(("malformed-secrets-accepted:%s" % secname, "missing/malformed secrets answered %d (want 400): %s" % (code, desc)))
        if changed:
            viols.append(("malformed-secrets-state-change", "request with missing/malformed secrets changed server state: %s" % desc))
    elif is_route and spec["route"] in ("write", "abort") and target in pre_ip and target in owners \
            and sent_uploads and all(v in [b64(x) for x in owners[target]] for v in sent_uploads):
        # exactly the secret the targeted upload was allocated with: must not be turned away
        cls = "owner"
        if code in (401, 403):
            viols.append(("owner-refused:%s" % spec["route"], "%s with the secret the in-progress upload was allocated with answered %d: %s" % (spec["route"], code, desc)))
    elif is_route and spec["route"] in ("write", "abort") and target in pre_ip and target in owners \
            and not any(b64(x) in sent for x in owners[target]):
        # well-formed upload secret(s), none of them the secret the targeted in-progress upload was allocated with
        cls = "wrongsecret"
        if not (400 <= code < 500):
            viols.append(("upload-secret-bypass:%s" % spec["route"], "%s on another client's in-progress upload without its secret answered %d (want 401): %s" % (spec["route"], code, desc)))
        if changed:
            viols.append(("upload-secret-state-change:%s" % spec["route"], "refused %s changed state: %s" % (spec["route"], desc)))
        if not viols:
            bad = complete_upload(env, target, pre_ip, sorted(owners[target])[0])
            dirty = True
            if bad:
                viols.append(("upload-not-completable", "after %s the owner cannot complete the upload: %s" % (desc, bad)))
    elif is_route and spec["route"] == "rtw" and enablers and not any(b64(e) in sent for e in enablers):
        # slot exists, well-formed write enabler that is not the one stored in any of its shares
        cls = "wrongenabler"
        if not (400 <= code < 500):
            viols.append(("write-enabler-bypass", "read-test-write with a wrong write enabler answered %d (want 401): %s" % (code, desc)))
        if env.d != pre_d:
            viols.append(("write-enabler-state-change", "refused read-test-write changed the disk: %s" % desc))
    # invariant I: uploads whose secret is not in the request are untouched
    if not dirty:
        post_ip = env.ip
        for key, (secret, ranges, raw) in sorted(pre_ip.items()):
            own = owners.get(key) or ([secret] if secret is not None else [])
            if any(b64(x) in sent for x in own):
                continue
            if post_ip.get(key) != (secret, ranges, raw):
                what = "gone" if key not in post_ip else ("secret changed" if post_ip[key][0] != secret else "written ranges/bytes changed")
                viols.append(("foreign-upload-touched:%s" % spec["route"], "in-progress upload %r (secret not presented) %s after %s" % (key, what, desc)))
    # reference model of upload ownership
    if is_route and not noauth and not dirty:
        if spec["route"] == "alloc" and code == 200:
            try:
                import cbor2
                allocated = set(cbor2.loads(body)["allocated"])
            except Exception:  # noqa
                allocated = set()
            secs = set()
            for v in sent_uploads:
                try:
                    secs.add(b64decode(v))
                except Exception:  # noqa
                    pass
            for n_ in allocated:
                if len(secs) == 1:
                    env.owners[(spec["si"], n_)] = frozenset(secs)
                else:
                    # allocated with two different upload-secret headers: which one counts is not
                    # fixed by the statement, so this upload is not judged by C0/C (invariant I
                    # then falls back to the secret in the server's own table)
                    env.owners.pop((spec["si"], n_), None)
        elif (spec["route"] == "write" and code == 201) or (spec["route"] == "abort" and code == 200):
            env.owners.pop(target, None)
    outcome = "%s:%s:%s:%d%s" % (cls, spec["route"] if is_route else "wrong-method", secname, code, ":changed" if changed else "")
    return viols, changed, outcome, dirty


def complete_upload(env, key, pre_ip, secret):
    """The owner writes what is still missing; returns '' or a description of the failure."""
    k, node = env.k, env.node
    si_name, n_ = key
    _, ranges, raw = pre_ip[key]
    want = bytearray(k.DATA[(si_name, n_)] if (si_name, n_) in k.DATA else b"\x00" * SIZE)
    have = [False] * SIZE
    for (a, b) in ranges:
        for i in range(a, b):
            have[i] = True
            want[i] = raw[12 + i]
    im = StorageClientImmutables(node.client())
    missing = []
    i = 0
    while i < SIZE:
        if not have[i]:
            j = i
            while j < SIZE and not have[j]:
                j += 1
            missing.append((i, j))
            i = j
        else:
            i += 1
    if not missing:
        return ""
    last = None
    try:
        for (a, b) in missing:
            last = node.wait(im.write_share_chunk(k.si(si_name), n_, secret, a, bytes(want[a:b])))
        if not last.finished:
            return "last chunk written but upload not finished (required=%r)" % (list(last.required.ranges()),)
        got = node.wait(im.read_share_chunk(k.si(si_name), n_, 0, SIZE))
        if got != bytes(want):
            return "share reads back %r, owner wrote %r" % (got, bytes(want))
    except Exception as e:  # noqa
        return "owner's request failed: %r" % (e,)
    return ""


# ------------------------------------------------------------------ BFS
def _build(k, state, prefix):
    env = Env(k, state)
    for spec in prefix:
        step(env, spec)
    return env


def replay(case):
    k = K(case.get("seed", boot.SEED))
    env = _build(k, case["state"], case["prefix"])
    try:
        viols, changed, outcome, dirty = step(env, case["req"])
    finally:
        env.close()
    return viols


def _batch(chunk, tier, seed, mode):
    res = common.Result()
    k = K(seed)
    reqs = build_alphabet(tier, mode)
    new = []
    for (state, prefix, lo, hi) in chunk:
        env = None
        since = []
        for i in range(lo, hi):
            spec = reqs[i]
            if env is None:
                env = _build(k, state, prefix)
                since = []
            viols, changed, outcome, dirty = step(env, spec)
            res.count("transitions")
            res.distinct.add(outcome)
            if len(res.samples) < 2 and changed and not viols:
                res.sample({"state": state, "prefix": prefix, "req": spec, "outcome": outcome})
            if viols:
                case = {"state": state, "prefix": prefix, "req": spec, "seed": seed}
                if since:
                    # confirm on a fresh server that the refused requests before it in this batch play no role
                    fresh = replay(case)
                    if not fresh:
                        case = {"state": state, "prefix": prefix + since, "req": spec, "seed": seed}
                for sig, msg in viols:
                    res.violation(sig, case, "state st%d, after %d adversary request(s): %s" % (state, len(case["prefix"]), msg))
                env.close()
                env = None
                continue
            if changed or dirty:
                if changed and not dirty:
                    new.append((env.canon(), state, prefix + [spec]))
                elif changed:
                    pass
                env.close()
                env = None
            else:
                since.append(spec)
        if env is not None:
            env.close()
    res.notes["new"] = new
    return res


def run(tier, seed):
    check_route_table()
    k = K(seed)
    # (alphabet per BFS level); "reduced" keeps Authorization in {wrong swissnum, right}
    modes = ["full", "reduced"] if tier == "quick" else ["full", "full", "reduced"]
    if os.environ.get("VERIF_MAXDEPTH"):      # development / detection demos only: fewer BFS levels
        modes = modes[:int(os.environ["VERIF_MAXDEPTH"])]
    max_states = 5000 if tier == "quick" else 1500
    total = common.Result()
    seen = {}
    frontier = []
    for st in range(NSTATES):
        env = Env(k, st)
        seen[env.canon()] = (st, [])
        env.close()
        frontier.append((st, []))
    per = 150
    level = 0
    capped = False
    sizes = []
    while frontier and level < len(modes):
        nreq = len(build_alphabet(tier, modes[level]))
        sizes.append(nreq)
        items = []
        for (st, prefix) in frontier:
            for lo in range(0, nreq, per):
                items.append((st, prefix, lo, min(nreq, lo + per)))
        part = common.pmap(_batch, items, (tier, seed, modes[level]), chunks=len(items))
        new = part.notes.pop("new", [])
        total.merge(part)
        total.count("expanded_states", len(frontier))
        frontier = []
        for canon, st, hist in sorted(new, key=lambda x: (len(x[2]), json.dumps(x[2], sort_keys=True), x[1])):
            if canon in seen:
                continue
            seen[canon] = (st, hist)
            if len(seen) > max_states:
                capped = True
                continue
            frontier.append((st, hist))
        level += 1
    outcomes = sorted(total.distinct)
    cov = {
        "states": len(seen),
        "transitions": total.counts.get("transitions", 0),
        "traces_validated_against_impl": total.counts.get("transitions", 0),
        "requests_in_alphabet_per_level": sizes,
        "routes": len(ROUTES),
        "bfs_depth": len(modes),
        "states_expanded": total.counts.get("expanded_states", 0),
        "states_reached_at_last_level_not_expanded": len(frontier),
        "state_cap_hit": capped,
        "distinct_outcomes": len(outcomes),
        "outcome_classes": outcomes,
        "rule": "BFS over adversary requests from the 8 scenario states; per level every request of the alphabet (sizes %r; level alphabets %r: every route x targets x Authorization variants x X-Tahoe-Authorization variants, plus every path under every other method) is sent to the real HTTPServer in every distinct state reached so far; state = directory digest + uploads tables; every transition is a real request (traces = transitions)" % (sizes, modes),
    }
    return total, cov


MANIFEST = {
    "engine": "H",
    "technique": "explicit-state breadth-first search over adversary HTTP requests against the real HTTPServer/StorageServer behind treq's in-memory StubTreq; state = storage directory digest + uploads tables",
    "text": "From each of 8 scenario states (prefixes of a background scenario with uploads in progress by two clients, a complete share and a mutable slot, plus three states where a share slot changed hands by abort / timeout / completion while a sibling share is still in progress) every request of a finite alphabet - all 12 routes and every other method on their paths, 10 Authorization variants (incl. the right token with its letter case changed), about 20 X-Tahoe-Authorization variants (missing, extra, duplicated, malformed, wrong, another client's, right) - is sent, and again from every new state it produces (2 levels quick, 3 thorough). Without the exact swissnum the answer must be >= 400 with no stored share bytes and a byte-identical server; malformed or missing secrets must give 4xx and no change; write/abort with someone else's upload secret and writes with a wrong write enabler must be refused, change nothing and leave the upload completable by its owner. One root has the same share numbers in progress under two storage indexes by two clients.",
    "note": "Complete for the listed alphabet and depth only; TLS, timeouts and header encodings outside the alphabet are not covered. Behaviours the statement does not fix (duplicates containing the right secret, lenient base64) are counted, not judged. DESIGN.md says 13 routes; the url map has 12 (checked at start-up against the table).",
}
