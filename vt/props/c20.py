"""C20  Directory edits behave like a name map  (Engine H: BFS over ALL operation histories,
memory-backed real DirectoryNode, reference dict stepped alongside).

World per history: two mutable directories D0 (SDMF) and D1 (MDMF), child objects f1 (CHK), f2 (LIT),
sub (a real mutable directory), imm (an immutable directory); names "a", "b", "é" given in NFC
by look-ups and in NFD by stores.  The virtual clock (time.time) advances by 1 s before every
operation.  Operation alphabet (see OPS, ~100 operations):
  set_node / set_uri / set_nodes / set_children x child x overwrite in {True, False, ONLY_FILES}
     x metadata in {None, {}, {"k":1}, {"tahoe":{"x":1},"j":2}};
  delete (must_exist, must_be_file, must_be_directory);  set_metadata_for;
  create_subdirectory, add_file (overwrite modes);
  move_child_to: same directory (other name, same name, NFC-equivalent name), other directory
     (same / other name), every overwrite mode, read-only target node, read-only source node.
hbfs explores EVERY history over the alphabet to depth 3 (quick) / 4 (thorough), merging histories
that reach the same canonical state = for both directories name -> (child, user metadata,
rank of linkcrtime, rank of linkmotime); times only matter through their order and the clock is
strictly increasing, so merged states have equal futures.  Every transition replays the whole
history on fresh real objects; after the last operation the real listing (read in a FRESH client)
is compared with the reference.

Reference = dict name(NFC) -> (child, user metadata, linkcrtime, linkmotime) with the documented
rules (interfaces.IDirectoryNode, docs/frontends/webapi.rst "About the metadata"):
  add on a free name creates (crtime = motime = now); on a taken name: overwrite=False ->
  ExistingChildError; ONLY_FILES and the existing child is a directory -> ExistingChildError;
  otherwise replace the child, keep linkcrtime, linkmotime = now, user metadata replaced iff
  metadata is not None ('tahoe' keys supplied by the caller are ignored); multi-entry adds are
  atomic; delete: NoSuchChildError iff absent and must_exist, ChildOfWrongTypeError per
  must_be_*; set_metadata_for: NoSuchChildError iff absent, else like a metadata-only update;
  move_child_to: NotWriteableError if either node is read-only; no-op when source and target
  are the same link (accepted with or without NoSuchChildError when that link does not exist:
  the statement is silent); NoSuchChildError if the source is absent; target rules as for add
  with the source's user metadata; then the source link disappears; for a NEW target link
  linkcrtime may be either `now` or the moved link's linkcrtime (statement silent).
  EVERY failed operation must leave both maps exactly as they were (child, metadata, times).
"""
import time as _time
import unicodedata

from .. import common, hbfs
from ..lib_memdir import World, fire, listing, mkdir, mkimmdir, tick
from allmydata import uri
from allmydata.dirnode import ONLY_FILES
from allmydata.immutable.upload import Data
from allmydata.interfaces import ExistingChildError, NoSuchChildError, ChildOfWrongTypeError
from allmydata.mutable.common import NotWriteableError
from .. import boot

LEVEL = "model_checking"
ASSUMPTIONS = [
    "bounded: every history of length <= 3 (quick) / 4 (thorough) over the fixed operation alphabet, two directories, three normalised names (one with an NFC/NFD pair), four child objects, four metadata shapes",
    "single client, operations strictly sequential (no concurrent modifiers, no UncoordinatedWriteError retries: the mutable-file layer is a dict and modify() runs the modifier exactly once with first_time=True); every storage operation completes in a later reactor turn (World(async_io=True)), in issue order",
    "clock strictly increasing by 1 s per operation; equal timestamps (two operations in the same clock tick) are not explored",
    "metadata 'no-write' and the pre-1.4 'ctime' fallback are not exercised",
]

NFC_E = "\u00e9"          # composed
NFD_E = "e\u0301"         # decomposed: a different string, the same name after NFC
assert NFC_E != NFD_E and __import__("unicodedata").normalize("NFC", NFD_E) == NFC_E
MD = [None, {}, {"k": 1}, {"tahoe": {"x": 1}, "j": 2}]
OW = {"T": True, "F": False, "OF": ONLY_FILES}
T0 = 1000000000.0


def nfc(s):
    return unicodedata.normalize("NFC", s)


def build_ops():
    ops = []
    # --- adds on D0
    for namex in ("a", NFD_E):
        for child in ("f1", "f2", "sub"):
            for ow in ("T", "F", "OF"):
                for mi in (0, 2):
                    ops.append(["set_node", 0, namex, child, mi, ow])
        for mi in (1, 3):
            ops.append(["set_node", 0, namex, "f1", mi, "T"])
    ops.append(["set_node", 0, "a", "imm", 0, "T"])
    ops.append(["set_node", 0, "b", "sub", 3, "F"])
    ops.append(["set_uri", 0, "a", "f2", 0, "T"])
    ops.append(["set_uri", 0, "a", "sub", 1, "OF"])
    ops.append(["set_children", 0, [["a", "f1", 0], ["b", "f2", 2]], "T"])
    ops.append(["set_children", 0, [["b", "f2", 0], [NFD_E, "sub", 2]], "F"])
    ops.append(["set_children", 0, [["b", "f1", 3], ["a", "f2", 0]], "OF"])
    ops.append(["set_nodes", 0, [["a", "sub", 2], [NFD_E, "f1", 0]], "OF"])
    ops.append(["mksub", 0, "a", "F"])
    ops.append(["mksub", 0, "a", "OF"])
    ops.append(["mksub", 0, NFD_E, "T"])
    ops.append(["add_file", 0, "a", "F"])
    ops.append(["add_file", 0, "a", "OF"])
    # --- deletes / metadata on D0
    ops.append(["delete", 0, "a", True, False, False])
    ops.append(["delete", 0, "a", False, False, False])
    ops.append(["delete", 0, NFC_E, True, False, False])
    ops.append(["delete", 0, "a", True, False, True])     # must_be_file
    ops.append(["delete", 0, "a", True, True, False])     # must_be_directory
    ops.append(["delete", 0, NFC_E, False, True, False])
    ops.append(["delete", 0, "b", True, False, False])
    ops.append(["delete", 0, NFD_E, True, False, False])       # look-up by the un-normalised form
    ops.append(["set_node", 0, NFC_E, "f2", 0, "F"])           # store by the normalised form
    ops.append(["set_md", 0, "a", 1])
    ops.append(["set_md", 0, "a", 2])
    ops.append(["set_md", 0, "a", 3])
    ops.append(["set_md", 0, NFC_E, 2])
    # --- renames inside D0
    for src in ("a", NFC_E):
        for dst in ("a", "b", NFD_E):
            for ow in ("T", "F", "OF"):
                ops.append(["move", 0, src, 0, dst, ow, "rw"])
    # --- D0 -> D1 and back
    for dst in (None, "b"):
        for ow in ("T", "F", "OF"):
            ops.append(["move", 0, "a", 1, dst, ow, "rw"])
    for dst in ("a", NFD_E):
        for ow in ("T", "F", "OF"):
            ops.append(["move", 1, "a", 0, dst, ow, "rw"])
    ops.append(["move", 0, "a", 1, None, "T", "ro-target"])
    ops.append(["move", 0, "a", 1, "b", "T", "ro-source"])
    ops.append(["move", 0, "a", 0, "b", "T", "other-node-same-dir"])
    ops.append(["move", 0, "a", 0, "a", "T", "other-node-same-dir"])
    # --- D1
    ops.append(["set_node", 1, "a", "f1", 0, "T"])
    ops.append(["set_node", 1, "a", "sub", 2, "T"])
    ops.append(["delete", 1, "a", True, False, False])
    return ops


OPS = build_ops()


# ------------------------------------------------------------------ reference model
class Ref(object):
    def __init__(self):
        self.d = [{}, {}]      # name -> dict(child=, isdir=, md=, cr=, mo=)

    def snapshot(self):
        return [{n: dict(e, md=dict(e["md"])) for n, e in m.items()} for m in self.d]

    def add_check(self, m, name, ow):
        """-> exception class or None"""
        if name in m:
            if ow == "F":
                return ExistingChildError
            if ow == "OF" and m[name]["isdir"]:
                return ExistingChildError
        return None

    def add_apply(self, m, name, child, isdir, md, now, cr_choices=None):
        user = None if md is None else {k: v for k, v in md.items() if k != "tahoe"}
        if name in m:
            e = m[name]
            e["child"], e["isdir"] = child, isdir
            if user is not None:
                e["md"] = user
            e["mo"] = now
        else:
            m[name] = {"child": child, "isdir": isdir, "md": user or {}, "cr": cr_choices or [now], "mo": now}


ISDIR = {"f1": False, "f2": False, "sub": True, "imm": True, "newdir": True, "newfile": False}


def ref_step(ref, op, now):
    """apply op to the reference; returns the set of acceptable outcomes: exception classes and/or
    "ok"; the reference is changed only for the "ok" outcome (all failures are no-ops)"""
    kind = op[0]
    if kind in ("set_node", "set_uri"):
        _, d, namex, child, mi, ow = op
        m, name = ref.d[d], nfc(namex)
        err = ref.add_check(m, name, ow)
        if err:
            return {err}
        ref.add_apply(m, name, child, ISDIR[child], MD[mi], now)
        return {"ok"}
    if kind in ("set_children", "set_nodes"):
        _, d, entries, ow = op
        m = ref.d[d]
        for namex, child, mi in entries:
            err = ref.add_check(m, nfc(namex), ow)
            if err:
                return {err}
        for namex, child, mi in entries:
            ref.add_apply(m, nfc(namex), child, ISDIR[child], MD[mi], now)
        return {"ok"}
    if kind in ("mksub", "add_file"):
        _, d, namex, ow = op
        m, name = ref.d[d], nfc(namex)
        err = ref.add_check(m, name, ow)
        if err:
            return {err}
        child = "newdir" if kind == "mksub" else "newfile"
        ref.add_apply(m, name, child, ISDIR[child], None, now)
        return {"ok"}
    if kind == "delete":
        _, d, namex, must_exist, must_dir, must_file = op
        m, name = ref.d[d], nfc(namex)
        if name not in m:
            return {NoSuchChildError} if must_exist else {"ok"}
        if must_dir and not m[name]["isdir"]:
            return {ChildOfWrongTypeError}
        if must_file and m[name]["isdir"]:
            return {ChildOfWrongTypeError}
        del m[name]
        return {"ok"}
    if kind == "set_md":
        _, d, namex, mi = op
        m, name = ref.d[d], nfc(namex)
        if name not in m:
            return {NoSuchChildError}
        m[name]["md"] = {k: v for k, v in MD[mi].items() if k != "tahoe"}
        m[name]["mo"] = now
        return {"ok"}
    if kind == "move":
        _, dfrom, srcx, dto, dstx, ow, mode = op
        if mode in ("ro-target", "ro-source"):
            return {NotWriteableError}
        src = nfc(srcx)
        dst = src if dstx is None else nfc(dstx)
        ms, mt = ref.d[dfrom], ref.d[dto]
        if dfrom == dto and src == dst:
            # same link: nothing may change; success, or NoSuchChildError when there is no such link
            return {"ok"} if src in ms else {"ok", NoSuchChildError}
        if src not in ms:
            return {NoSuchChildError}
        err = ref.add_check(mt, dst, ow)
        if err:
            return {err}
        e = ms[src]
        ref.add_apply(mt, dst, e["child"], e["isdir"], dict(e["md"]), now, cr_choices=sorted(set([now] + e["cr"])))
        del ms[src]
        return {"ok"}
    raise AssertionError(op)


# ------------------------------------------------------------------ real world
class Real(object):
    def __init__(self, seed):
        self.w = World(seed, b"c20", async_io=True)
        c = self.c = self.w.client()
        f1 = c.create_from_cap(self.w.new_chk_cap(1000).to_string())
        f2 = c.create_from_cap(uri.LiteralFileURI(b"lit-two").to_string())
        sub = mkdir(c, {"inner": (f1, {})})
        imm = mkimmdir(c, {"x": (f2, {})})
        self.kids = {"f1": f1, "f2": f2, "sub": sub, "imm": imm}
        self.D = [mkdir(c), mkdir(c, mdmf=True)]
        self.fresh = {}     # "newdir"/"newfile" -> set of (rw, ro) of nodes created by the operations

    def ident(self, node):
        return (node.get_write_uri(), node.get_readonly_uri())

    def apply(self, op):
        """-> ("ok", value) | ("err", exception)"""
        kind = op[0]
        D, kids = self.D, self.kids
        try:
            if kind == "set_node":
                _, d, namex, child, mi, ow = op
                return fire(D[d].set_node(namex, kids[child], MD[mi], overwrite=OW[ow]))
            if kind == "set_uri":
                _, d, namex, child, mi, ow = op
                n = kids[child]
                return fire(D[d].set_uri(namex, n.get_write_uri(), n.get_readonly_uri(), MD[mi], overwrite=OW[ow]))
            if kind == "set_children":
                _, d, entries, ow = op
                e = {}
                for namex, child, mi in entries:
                    n = kids[child]
                    e[namex] = (n.get_write_uri(), n.get_readonly_uri()) if MD[mi] is None else (n.get_write_uri(), n.get_readonly_uri(), MD[mi])
                return fire(D[d].set_children(e, overwrite=OW[ow]))
            if kind == "set_nodes":
                _, d, entries, ow = op
                return fire(D[d].set_nodes({namex: (kids[child], MD[mi]) for namex, child, mi in entries}, overwrite=OW[ow]))
            if kind == "mksub":
                _, d, namex, ow = op
                r = fire(D[d].create_subdirectory(namex, overwrite=OW[ow]))
                if r[0] == "ok":
                    self.fresh.setdefault("newdir", set()).add(self.ident(r[1]))
                return r
            if kind == "add_file":
                _, d, namex, ow = op
                r = fire(D[d].add_file(namex, Data(b"uploaded by add_file at %d" % int(boot.R.seconds()), self.w.convergence), overwrite=OW[ow]))
                if r[0] == "ok":
                    self.fresh.setdefault("newfile", set()).add(self.ident(r[1]))
                return r
            if kind == "delete":
                _, d, namex, must_exist, must_dir, must_file = op
                return fire(D[d].delete(namex, must_exist=must_exist, must_be_directory=must_dir, must_be_file=must_file))
            if kind == "set_md":
                _, d, namex, mi = op
                return fire(D[d].set_metadata_for(namex, MD[mi]))
            if kind == "move":
                _, dfrom, srcx, dto, dstx, ow, mode = op
                src_node, dst_node = D[dfrom], D[dto]
                if mode == "ro-target":
                    dst_node = self.w.client().create_from_cap(D[dto].get_readonly_uri())
                elif mode == "ro-source":
                    src_node = self.w.client().create_from_cap(D[dfrom].get_readonly_uri())
                elif mode == "other-node-same-dir":
                    dst_node = self.w.client().create_from_cap(D[dto].get_uri())
                return fire(src_node.move_child_to(srcx, dst_node, dstx, overwrite=OW[ow]))
        except Exception as e:  # noqa  (synchronous raise instead of errback)
            return ("err", e)
        raise AssertionError(op)

    def observe(self):
        """both maps as read by a fresh client: name -> (ident, user md, tahoe dict)"""
        out = []
        c2 = self.w.client()
        for d in self.D:
            m = {}
            for name, (child, md) in listing(c2.create_from_cap(d.get_uri())).items():
                m[name] = (self.ident(child), {k: v for k, v in md.items() if k != "tahoe"}, md.get("tahoe"))
            out.append(m)
        return out


def compare(real, ref, obs, out, what):
    for di in (0, 1):
        got, want = obs[di], ref.d[di]
        if set(got) != set(want):
            out.append(("map-keys-differ", "%s: D%d has names %r, reference %r" % (what, di, sorted(got), sorted(want))))
            continue
        for name, e in want.items():
            ident, user, tahoe = got[name]
            if e["child"] in real.kids:
                ok = ident == real.ident(real.kids[e["child"]])
            else:
                ok = ident in real.fresh.get(e["child"], ())
            if not ok:
                out.append(("wrong-child", "%s: D%d[%r] is %r, reference child %s" % (what, di, name, ident, e["child"])))
            if user != e["md"]:
                out.append(("wrong-metadata", "%s: D%d[%r] user metadata %r, reference %r" % (what, di, name, user, e["md"])))
            if not isinstance(tahoe, dict) or set(tahoe) != {"linkcrtime", "linkmotime"}:
                out.append(("tahoe-metadata-keys", "%s: D%d[%r] 'tahoe' sub-dict is %r (caller-supplied 'tahoe' keys must be ignored; both link times present)" % (what, di, name, tahoe)))
                continue
            if tahoe["linkcrtime"] not in e["cr"]:
                out.append(("linkcrtime-not-preserved", "%s: D%d[%r] linkcrtime %r, reference %r (relative to t0: %r vs %r)" % (
                    what, di, name, tahoe["linkcrtime"], e["cr"], tahoe["linkcrtime"] - T0, [x - T0 for x in e["cr"]])))
            if tahoe["linkmotime"] != e["mo"]:
                out.append(("linkmotime-wrong", "%s: D%d[%r] linkmotime t0+%r, reference t0+%r" % (what, di, name, tahoe["linkmotime"] - T0, e["mo"] - T0)))


def run_history(hist, seed, check_all=False):
    """-> (canon, violations).  Times are absolute and reproducible: every replay starts its own
    epoch at T0 (VT.offset re-bases time.time on the ever-advancing virtual reactor clock)."""
    boot.VT.offset = T0 - boot.R.seconds()
    real = Real(seed)
    ref = Ref()
    out = []
    for i, op in enumerate(hist):
        tick(1)
        now = T0 + i + 1
        if abs(_time.time() - now) > 1e-6:
            raise RuntimeError("virtual clock drift: %r vs %r" % (_time.time(), now))
        now = _time.time()
        last = (i == len(hist) - 1) or check_all
        before = ref.snapshot()
        accept = ref_step(ref, op, now)
        k, v = real.apply(op)
        if k == "hang":
            out.append(("operation-never-finished", "op %r did not fire" % (op,)))
            break
        outcome = "ok" if k == "ok" else type(v)
        if outcome != "ok":
            ref.d = before          # whatever the reason: a failed operation must change nothing
        if last and outcome not in accept:
            names = sorted(x if isinstance(x, str) else x.__name__ for x in accept)
            if k == "ok":
                sig = "succeeded-instead-of:%s:%s" % (names[0], op[0])
            elif "ok" in accept:
                sig = "failed:%s:%s" % (type(v).__name__, op[0])
            else:
                sig = "wrong-exception:%s:%s" % (type(v).__name__, op[0])
            out.append((sig, "after %r the operation %r gave %s %r, reference accepts %r" % (hist[:i], op, k, v, names)))
        obs = None
        if outcome == "ok" and op[0] == "move":
            # a NEW target link may carry either creation time: pin the reference to what the
            # implementation chose so that later updates must preserve exactly that value
            for di, m in enumerate(ref.d):
                for name, e in m.items():
                    if len(e["cr"]) > 1:
                        obs = obs or real.observe()
                        t = (obs[di].get(name) or (None, None, None))[2]
                        if isinstance(t, dict) and t.get("linkcrtime") in e["cr"]:
                            e["cr"] = [t["linkcrtime"]]
        if last:
            compare(real, ref, obs or real.observe(), out, "after %r" % (hist[:i + 1],) + (
                " (last operation failed with %s: nothing may change)" % type(v).__name__ if k != "ok" else ""))
        if out:
            break
    return canon_of(ref), out


def canon_of(ref):
    times = sorted(set(t for m in ref.d for e in m.values() for t in ([e["mo"]] + e["cr"])))
    rank = {t: i for i, t in enumerate(times)}
    return tuple(
        tuple(sorted((n, e["child"], tuple(sorted(e["md"].items())), tuple(rank[t] for t in e["cr"]), rank[e["mo"]]) for n, e in m.items()))
        for m in ref.d)


_SEED = [0]


def hb_replay(hist):
    canon, viols = run_history(hist, _SEED[0])
    return canon, viols, OPS


def replay(case):
    hist = case["history"]
    canon, viols = run_history([list(op) if not isinstance(op, list) else op for op in hist], case.get("seed", 0), check_all=False)
    return viols


def run(tier, seed):
    _SEED[0] = seed
    depth = 3 if tier == "quick" else 4
    res = hbfs.explore(hb_replay, depth, sample_every=4001)
    for v in res.violations:
        v["case"]["seed"] = seed
    cov = {
        "states": res.counts.get("states", 0),
        "transitions": res.counts.get("transitions", 0),
        "traces_validated_against_impl": res.counts.get("transitions", 0),
        "max_depth": depth,
        "alphabet": len(OPS),
        "capped": bool(res.notes.get("capped")),
        "rule": "BFS over every history of <= %d operations from an alphabet of %d directory operations on two real directories (state = history, merged when the reference maps incl. timestamp ranks are equal); each transition replays the history on fresh real DirectoryNodes and compares the listing read by a fresh client, and the outcome of the last operation, with a reference dict" % (depth, len(OPS)),
    }
    return res, cov


MANIFEST = {
    "engine": "H",
    "technique": "explicit-state BFS over all operation histories of the real DirectoryNode (memory-backed) with a reference name-map stepped alongside; virtual clock",
    "text": "Every sequence of up to 3 (thorough 4) operations from ~100 add / replace / delete / rename / set-metadata / create-subdirectory / add-file variants (all overwrite modes, NFC/NFD names, two directories, read-only nodes) is executed on real directories; after each history both listings and the last outcome must equal a reference dict implementing the documented overwrite, only-files, must_exist, rename and linkcrtime/linkmotime rules, and every failed operation must leave both maps untouched.",
    "note": "Bounded depth and a fixed alphabet; sequential single-client use only (no concurrent modifiers). Histories reaching the same reference state are merged (timestamps compared by rank). Each transition is an implementation run, so traces_validated_against_impl = transitions.",
}
