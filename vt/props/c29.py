"""C29  Share containers survive a server crash  (Engine K, crash-point enumeration).

A real StorageServer directory is prepared on tmpfs with immutable shares carrying 0, 1 and 4
leases, a bucket with two immutable shares, mutable shares with 0/4/5/6 leases x 0/5/40 data
bytes, a slot with two mutable shares, and one immutable and one mutable share of 20000 bytes
(bigger than CPython's file buffer, so that header writes and writes behind the data of one
operation reach the file system as separate system calls).  For every operation of a fixed catalogue (immutable
upload into a new and into an existing bucket, add_lease with a new and with a known secret,
renew_lease, mutable create / write within size / write that grows the container so that the
extra leases move / truncate / delete, mutable 5th/6th/7th lease, the expirer's cancel_lease
calls) the file-system mutation calls are counted, and for EVERY index i the operation is
re-run on a fresh copy of the prepared directory with the process killed INSTEAD OF call i
(vt.lib_crash).  Then the server is restarted (a new StorageServer object on the directory)
and the invariants of the statement are evaluated through the server's own read API:

 (i)   every share the operation did not target is byte-identical on disk (data and leases);
 (ii)  a share that only receives / renews a lease reads back the same data (get_buckets().read,
       get_immutable_share_length, slot_readv) as before the operation;
 (iii) every immutable share is absent or reads back complete (exactly the uploaded bytes:
       same length, no extra bytes);
 (iv)  incoming/ is empty after the restart and nothing unexpected appeared under shares/.
Outside the crash enumeration: immutable shares of 2^32-1, 2^32 and 2^32+70000 bytes (sparse; the container
header's length field has 4 bytes) are uploaded, then restart / add_lease / restart / renew_lease / add_lease with
a known secret / restart: head, tail and reported length must stay what was uploaded.
The statement is silent about the mutable share being written and about the leases of a lease
target: those outcomes are counted, not judged.
"""
import hashlib
import os

from twisted.internet.task import Clock

from .. import boot  # noqa: F401
from allmydata.storage.common import storage_index_to_dir, si_a2b
from allmydata.storage.immutable import ShareFile
from allmydata.storage.shares import get_share_file
import allmydata.storage.server  # noqa: F401  (imported in the parent so that forked workers inherit it)
from .. import common
from .. import lib_crash as K

LEVEL = "fault_enumeration"
ASSUMPTIONS = [
    "failure model = process kill: completed system calls persist, userspace-buffered bytes are lost, a single raw write() is atomic (every write inside a crash-explored operation is < 4096 bytes; the two 20000-byte shares are prepared beforehand); power loss / reordering of unsynced blocks is not modelled",
    "crash points = every builtins.open that creates/truncates, every FileIO.write/truncate below CPython's real buffering, every os.rename/replace/unlink/remove/rmdir/mkdir/truncate under the storage directory; a kill between two such calls is equivalent to a kill instead of the later one",
    "one operation at a time (no concurrent operations on the server when it is killed)",
    "'complete' for an immutable share means: reads back exactly the uploaded bytes and reports the uploaded length (a share that returns extra bytes after its data is not complete)",
    "the zero-lease immutable share is written with ShareFile(create=True) directly (the server API cannot produce one); all other shares are made through the server API",
]

T0 = 1000000000
T1 = T0 + 5000          # operations happen later than preparation, so that renewals really write
BIG = 1 << 16
IMM = "imm"
MUT = "mut"


def _h(tag, n=32):
    out = b""
    i = 0
    while len(out) < n:
        out += hashlib.sha256(b"c29:%d:" % i + tag).digest()
        i += 1
    return out[:n]


def _si(name):
    return _h(b"si:" + name.encode(), 16)


def _sec(name, idx):
    return (_h(b"renew:%d:" % idx + name.encode()), _h(b"cancel:%d:" % idx + name.encode()))


def _we(name):
    return _h(b"we:" + name.encode())


def _payload(seed, name, n):
    return _h(b"data:%d:" % seed + name.encode(), n)


def _clock(t):
    c = Clock()
    c.rightNow = float(t)
    return c


# ------------------------------------------------------------------ prepared directory
def catalog(seed):
    """name -> dict(kind, bucket, shnum, nleases, data)   (bucket = storage-index name)"""
    cat = {}

    def add(name, kind, bucket, shnum, nl, dl):
        cat[name] = {"kind": kind, "bucket": bucket, "shnum": shnum, "nl": nl,
                     "data": _payload(seed, name, dl)}
    add("i0", IMM, "i0", 0, 0, 10)
    add("i1", IMM, "i1", 0, 1, 10)
    add("i4", IMM, "i4", 0, 4, 23)
    add("ip0", IMM, "ip", 0, 1, 9)
    add("ip1", IMM, "ip", 1, 1, 9)
    for nl in (0, 4, 5, 6):
        for dl in (0, 5, 40):
            n = "m%d_%d" % (nl, dl)
            add(n, MUT, n, 0, nl, dl)
    # shares BIGGER than CPython's 8 KiB file buffer: a header write and a write behind the data of one
    # operation then reach the file system as separate system calls, with a kill point in between
    add("iB", IMM, "iB", 0, 1, 20000)
    add("mB5", MUT, "mB5", 0, 5, 20000)
    add("mp0", MUT, "mp", 0, 1, 12)
    add("mp1", MUT, "mp", 1, 1, 12)
    return cat


def share_path(sd, cat, name):
    e = cat[name]
    return os.path.join(sd, "shares", storage_index_to_dir(_si(e["bucket"])), "%d" % e["shnum"])


def rel_share_path(cat, name):
    e = cat[name]
    return os.path.join("shares", storage_index_to_dir(_si(e["bucket"])), "%d" % e["shnum"])


def prepare(sd, seed):
    cat = catalog(seed)
    ss = K.make_server(sd, clock=_clock(T0))
    for name in sorted(cat):
        e = cat[name]
        si = _si(e["bucket"])
        if e["kind"] == IMM:
            if e["nl"] == 0:
                p = share_path(sd, cat, name)
                sf = ShareFile(p, max_size=len(e["data"]), create=True)
                sf.write_share_data(0, e["data"])
                continue
            r, c = _sec(e["bucket"], 0)
            got, w = ss.allocate_buckets(si, r, c, [e["shnum"]], len(e["data"]))
            w[e["shnum"]].write(0, e["data"])
            w[e["shnum"]].close()
        else:
            r, c = _sec(e["bucket"], 0)
            ok, _ = ss.slot_testv_and_readv_and_writev(
                si, (_we(e["bucket"]), r, c),
                {e["shnum"]: ([], [(0, e["data"])] if e["data"] else [], None)}, [],
                renew_leases=(e["nl"] > 0))
            assert ok
    for name in sorted(cat):
        e = cat[name]
        if e["shnum"] != 0:
            continue
        for idx in range(1, e["nl"]):
            r, c = _sec(e["bucket"], idx)
            ss.add_lease(_si(e["bucket"]), r, c)
    K.cancel_timers()
    # sanity: the prepared shares really have the intended lease counts
    for name in sorted(cat):
        n = len(list(get_share_file(share_path(sd, cat, name)).get_leases()))
        if n != cat[name]["nl"]:
            raise RuntimeError("prepare: %s has %d leases, wanted %d" % (name, n, cat[name]["nl"]))
    return cat


# ------------------------------------------------------------------ operations
def op_catalogue(tier):
    ops = []
    A = ops.append
    A({"op": "imm-upload", "bucket": "new-imm", "shnum": 0, "size": 10})
    A({"op": "imm-upload", "bucket": "ip", "shnum": 2, "size": 9})       # existing bucket: renews/adds leases on ip0, ip1
    A({"op": "imm-upload", "bucket": "i4", "shnum": 3, "size": 23})
    A({"op": "imm-upload", "bucket": "iB", "shnum": 1, "size": 9})       # adds a lease to the 20000-byte share iB
    imm_lease_targets = ["i0", "i1", "i4", "ip", "iB"]
    mut_lease_targets = ["m0_5", "m4_5", "m5_40", "m6_5", "mp", "mB5"]
    if tier == "thorough":
        mut_lease_targets = ["m%d_%d" % (nl, dl) for nl in (0, 4, 5, 6) for dl in (0, 5, 40)] + ["mp"]
    for b in imm_lease_targets + mut_lease_targets:
        A({"op": "add-lease-new", "bucket": b})
    known = [("i1", 0), ("i4", 0), ("i4", 3), ("ip", 0), ("m4_5", 3), ("m5_40", 4), ("m6_5", 5), ("mp", 0), ("iB", 0), ("mB5", 4)]
    if tier == "thorough":
        known += [("i4", 1), ("i4", 2), ("m5_0", 0), ("m5_5", 4), ("m6_0", 4), ("m6_40", 5), ("m4_40", 0)]
    for b, idx in known:
        A({"op": "add-lease-known", "bucket": b, "idx": idx})
        A({"op": "renew-lease", "bucket": b, "idx": idx})
    A({"op": "mut-create", "bucket": "new-mut", "shnums": [0, 1], "size": 5})
    A({"op": "mut-create", "bucket": "mp", "shnums": [2], "size": 12})    # new share in an existing slot
    within = ["m0_40", "m4_40", "m5_40", "m6_40", "m5_5"]
    grow = ["m0_5", "m4_5", "m5_5", "m6_5", "m6_0", "m5_40", "m6_40", "mp"]
    trunc = ["m5_40", "m6_40", "m4_40", "mp"]
    delete = ["m5_40", "m6_5", "m0_0", "mp"]
    for b in within:
        A({"op": "mut-write", "bucket": b, "shnum": 0, "offset": 2, "size": 3})
    for b in grow:
        A({"op": "mut-write", "bucket": b, "shnum": 0, "offset": 30, "size": 30})
        if tier == "thorough" or b in ("m6_5", "m5_5"):
            A({"op": "mut-write", "bucket": b, "shnum": 0, "offset": 600, "size": 4})   # grows by more than the extra-lease block
            A({"op": "mut-write", "bucket": b, "shnum": 0, "offset": 3, "size": 60})    # overlapping old data and old lease area
    A({"op": "mut-write", "bucket": "mB5", "shnum": 0, "offset": 19990, "size": 30})     # grows the big container, its extra lease moves
    A({"op": "mut-write", "bucket": "mB5", "shnum": 0, "offset": 10, "size": 30})
    A({"op": "mut-truncate", "bucket": "mB5", "shnum": 0, "new_length": 9000})
    for b in trunc:
        A({"op": "mut-truncate", "bucket": b, "shnum": 0, "new_length": 7})
    for b in delete:
        A({"op": "mut-delete", "bucket": b, "shnum": 0})
    cancels = [("iB", 0, [0]), ("mB5", 0, [4]), ("mB5", 0, [0]), ("i4", 0, [1]), ("i4", 0, [3]), ("i4", 0, [0, 2]), ("i4", 0, [0, 1, 2, 3]), ("i1", 0, [0]), ("ip", 1, [0]),
               ("m5_40", 0, [1]), ("m5_40", 0, [4]), ("m6_5", 0, [5]), ("m6_5", 0, [0, 4]), ("m4_5", 0, [0, 1, 2, 3]), ("mp", 0, [0])]
    for b, sh, idxs in cancels:
        A({"op": "cancel-leases", "bucket": b, "shnum": sh, "idxs": idxs})
    if tier == "thorough":
        muts = ["m%d_%d" % (nl, dl) for nl in (0, 4, 5, 6) for dl in (0, 5, 40)]
        for size in (1, 100):
            A({"op": "imm-upload", "bucket": "new-imm", "shnum": 0, "size": size})
            A({"op": "imm-upload", "bucket": "i1", "shnum": 5, "size": size})
        for b in muts:
            dl = int(b.split("_")[1])
            for off in sorted(set([0, dl // 2, max(dl - 1, 0)])):
                if dl:
                    A({"op": "mut-write", "bucket": b, "shnum": 0, "offset": off, "size": 1})
            for off in sorted(set([dl, dl + 1, 30, 459, 600])):
                for size in (1, 30, 93):
                    A({"op": "mut-write", "bucket": b, "shnum": 0, "offset": off, "size": size})
            for nlen in sorted(set([1, dl // 2, max(dl - 1, 1)])):
                if nlen < dl:
                    A({"op": "mut-truncate", "bucket": b, "shnum": 0, "new_length": nlen})
            A({"op": "mut-delete", "bucket": b, "shnum": 0})
            nl = int(b[1])
            for idx in range(nl):
                A({"op": "cancel-leases", "bucket": b, "shnum": 0, "idxs": [idx]})
                A({"op": "renew-lease", "bucket": b, "idx": idx})
            if nl:
                A({"op": "cancel-leases", "bucket": b, "shnum": 0, "idxs": list(range(nl))})
        for idxs in ([0], [2], [0, 1], [1, 2, 3], [3, 2, 1, 0]):
            A({"op": "cancel-leases", "bucket": "i4", "shnum": 0, "idxs": idxs})
        A({"op": "mut-write", "bucket": "mp", "shnum": 1, "offset": 700, "size": 10})
        A({"op": "mut-delete", "bucket": "mp", "shnum": 1})
        # drop exact duplicates, keep order
        seen, uniq = set(), []
        for o in ops:
            k = repr(sorted(o.items()))
            if k not in seen:
                seen.add(k)
                uniq.append(o)
        ops = uniq
    return ops


def members(cat, bucket):
    return sorted(n for n in cat if cat[n]["bucket"] == bucket)


def roles(cat, op):
    """-> (lease_targets, data_targets, cancel_targets, new_imm {relpath: data}, new_other [relpath])"""
    o = op["op"]
    b = op["bucket"]
    lease_t, data_t, cancel_t, new_imm, new_other = [], [], [], {}, []
    bdir = os.path.join("shares", storage_index_to_dir(_si(b)))
    if o == "imm-upload":
        lease_t = members(cat, b)
        new_imm[os.path.join(bdir, "%d" % op["shnum"])] = _payload(0, "up:%s:%d" % (b, op["shnum"]), op["size"])
    elif o in ("add-lease-new", "add-lease-known", "renew-lease"):
        lease_t = members(cat, b)
    elif o == "mut-create":
        # shares named in the write are "being written"; the others of the slot are not touched at all
        for sh in op["shnums"]:
            new_other.append(os.path.join(bdir, "%d" % sh))
    elif o in ("mut-write", "mut-truncate", "mut-delete"):
        data_t = [n for n in members(cat, b) if cat[n]["shnum"] == op["shnum"]]
    elif o == "cancel-leases":
        cancel_t = [n for n in members(cat, b) if cat[n]["shnum"] == op["shnum"]]
    else:
        raise ValueError(o)
    return lease_t, data_t, cancel_t, new_imm, new_other


def run_op(ss, cat, op, sd):
    o = op["op"]
    b = op["bucket"]
    si = _si(b)
    if o == "imm-upload":
        data = _payload(0, "up:%s:%d" % (b, op["shnum"]), op["size"])
        r, c = _sec(b, 90)
        got, w = ss.allocate_buckets(si, r, c, [op["shnum"]], op["size"])
        bw = w[op["shnum"]]
        cut = op["size"] // 2
        if cut:
            bw.write(0, data[:cut])
        bw.write(cut, data[cut:])
        bw.close()
    elif o == "add-lease-new":
        r, c = _sec(b, 91)
        ss.add_lease(si, r, c)
    elif o == "add-lease-known":
        r, c = _sec(b, op["idx"])
        ss.add_lease(si, r, c)
    elif o == "renew-lease":
        r, c = _sec(b, op["idx"])
        ss.renew_lease(si, r)
    elif o == "mut-create":
        r, c = _sec(b, 0)
        data = _payload(0, "mc:" + b, op["size"])
        ss.slot_testv_and_readv_and_writev(si, (_we(b), r, c), {sh: ([], [(0, data)], None) for sh in op["shnums"]}, [])
    elif o == "mut-write":
        r, c = _sec(b, 0)
        data = _payload(0, "mw:%s:%d" % (b, op["offset"]), op["size"])
        ss.slot_testv_and_readv_and_writev(si, (_we(b), r, c), {op["shnum"]: ([], [(op["offset"], data)], None)}, [])
    elif o == "mut-truncate":
        r, c = _sec(b, 0)
        ss.slot_testv_and_readv_and_writev(si, (_we(b), r, c), {op["shnum"]: ([], [], op["new_length"])}, [])
    elif o == "mut-delete":
        r, c = _sec(b, 0)
        ss.slot_testv_and_readv_and_writev(si, (_we(b), r, c), {op["shnum"]: ([], [], 0)}, [])
    elif o == "cancel-leases":
        # exactly what LeaseCheckingCrawler.process_share does with the leases it found expired
        name = [n for n in members(cat, b) if cat[n]["shnum"] == op["shnum"]][0]
        sf = get_share_file(share_path(sd, cat, name))
        leases = list(sf.get_leases())
        for idx in op["idxs"]:
            sf.cancel_lease(leases[idx].cancel_secret)
    else:
        raise ValueError(o)


# ------------------------------------------------------------------ observation through the server API
def read_share(ss, cat, name):
    """-> ("data", bytes, length) | ("absent",) ; exceptions propagate"""
    e = cat[name]
    si = _si(e["bucket"])
    if e["kind"] == IMM:
        br = ss.get_buckets(si).get(e["shnum"])
        if br is None:
            return ("absent",)
        return ("data", br.read(0, BIG), ss.get_immutable_share_length(si, e["shnum"]))
    d = ss.slot_readv(si, [e["shnum"]], [(0, BIG)])
    if e["shnum"] not in d:
        return ("absent",)
    return ("data", d[e["shnum"]][0], ss.get_mutable_share_length(si, e["shnum"]))


def read_imm_path(ss, rel):
    parts = rel.split(os.sep)
    si = si_a2b(parts[-2].encode())
    sh = int(parts[-1])
    br = ss.get_buckets(si).get(sh)
    if br is None:
        return ("absent",)
    return ("data", br.read(0, BIG), ss.get_immutable_share_length(si, sh))


def lease_ids(path):
    try:
        return sorted((li.owner_num, li.get_expiration_time(), bytes(li._lease_info.renew_secret if hasattr(li, "_lease_info") else li.renew_secret))
                      for li in get_share_file(path).get_leases())
    except Exception as e:  # noqa
        return "unreadable:%s" % type(e).__name__


def _digest(snap):
    h = hashlib.sha256()
    for k in sorted(snap):
        h.update(k.encode() + b"\0" + (b"<dir>" if snap[k] is None else hashlib.sha256(snap[k]).digest()))
    return h.hexdigest()[:16]


# ------------------------------------------------------------------ one case
def _effect(before, r):
    """how the bytes a share reads back differ from `before` (part of the violation signature, so that a known
    finding names ONE effect at one call site and any other effect there is reported)"""
    if r[0] == "absent":
        return "absent"
    got = r[1]
    if got == before:
        return "same-bytes-other-length%+d" % (r[2] - len(before))
    if got[:len(before)] == before:
        return "grew%+d" % (len(got) - len(before))
    if before[:len(got)] == got:
        return "shrank%+d" % (len(got) - len(before))
    return "other-bytes"


def check_case(prepared, cat, pre, op, crash_at, res=None):
    """prepared: directory prepared by prepare(); pre: dict from observe_pre(); crash_at None = run to completion.
    -> (violations [(sig, msg)], info dict)"""
    bad = []
    info = {}
    with K.Scratch("c29") as base:
        sd = K.copy_tree(prepared, os.path.join(base, "s"))
        ss = K.make_server(sd, clock=_clock(T1))
        eng = K.CrashFS(sd, crash_at=crash_at)
        try:
            outcome, _ = K.run_killable(eng, lambda: run_op(ss, cat, op, sd))
        except Exception as e:  # noqa  operation itself failed without being killed: harness error
            raise RuntimeError("operation %r raised %r without a kill" % (op, e))
        info["n"] = eng.n
        info["trace"] = eng.trace
        info["outcome"] = outcome
        if crash_at is not None and outcome != "killed":
            raise RuntimeError("crash index %d not reached for %r (only %d mutations)" % (crash_at, op, eng.n))
        site = eng.kill_site or "-"
        where = "op=%r killed instead of mutation #%s %r (allmydata stack, innermost first: %s)" % (
            op, crash_at, eng.kill_event[:3] if eng.kill_event else None, ", ".join(eng.kill_stack or []))
        del ss
        after_kill = K.snapshot(os.path.join(sd, "shares"))
        info["disk"] = _digest(after_kill)
        # ---- restart
        try:
            ss2 = K.restart(sd, clock=_clock(T1 + 10))
        except Exception as e:  # noqa
            bad.append(("restart-failed:%s:%s" % (type(e).__name__, site), "StorageServer() on the directory raised %r after %s" % (e, where)))
            return bad, info
        snap = K.snapshot(os.path.join(sd, "shares"))
        lease_t, data_t, cancel_t, new_imm, new_other = roles(cat, op)
        # (iv)
        inc = [k for k in snap if k.startswith("incoming" + os.sep)]
        if inc or "incoming" not in snap:
            bad.append(("incoming-not-empty:" + site, "after restart incoming/ contains %r; %s" % (inc, where)))
        known_rel = {os.path.relpath(rel_share_path(cat, n), "shares"): n for n in cat}
        allowed_new = set(os.path.relpath(p, "shares") for p in list(new_imm) + new_other)
        for k, v in sorted(snap.items()):
            if v is None or k.startswith("incoming"):
                continue
            if k not in known_rel and k not in allowed_new:
                bad.append(("unexpected-file:" + site, "file %s appeared under shares/; %s" % (k, where)))
        # (i) / (ii) / (iii) per prepared share
        for name in sorted(cat):
            e = cat[name]
            rel = os.path.relpath(rel_share_path(cat, name), "shares")
            if name in data_t:
                # the share being written: the statement is silent -> count
                try:
                    r = read_share(ss2, cat, name)
                    o = "absent" if r[0] == "absent" else ("old-data" if r[1] == pre["reads"][name][1] else "other-data")
                except Exception as ex:  # noqa
                    o = "unreadable:" + type(ex).__name__
                info.setdefault("target_outcomes", []).append(o)
                li = lease_ids(os.path.join(sd, "shares", rel)) if rel in snap else "absent"
                if li != "absent" and li != pre["leases"][name]:
                    info.setdefault("target_outcomes", []).append("target-leases-changed" if not isinstance(li, str) else li)
                continue
            if name in cancel_t:
                if e["kind"] == IMM:
                    try:
                        r = read_share(ss2, cat, name)
                    except Exception as ex:  # noqa
                        bad.append(("immutable-unreadable:%s:%s" % (type(ex).__name__, site), "reading %s raised %r; %s" % (name, ex, where)))
                        continue
                    if r[0] != "absent" and (r[1] != e["data"] or r[2] != len(e["data"])):
                        bad.append(("immutable-incomplete:" + site + ":" + _effect(e["data"], r),
                                    "(iii) immutable share %s (%d data bytes) reads back %d bytes, get_length=%d, extra/changed tail=%r; %s"
                                    % (name, len(e["data"]), len(r[1]), r[2], r[1][len(e["data"]):][:24], where)))
                    info.setdefault("target_outcomes", []).append("cancel:" + r[0])
                else:
                    try:
                        r = read_share(ss2, cat, name)
                        o = "cancel-mut:" + ("absent" if r[0] == "absent" else ("same-data" if r[1] == e["data"] else "other-data"))
                    except Exception as ex:  # noqa
                        o = "cancel-mut:unreadable:" + type(ex).__name__
                    info.setdefault("target_outcomes", []).append(o)
                continue
            if name in lease_t:
                try:
                    r = read_share(ss2, cat, name)
                except Exception as ex:  # noqa
                    bad.append(("lease-op-share-unreadable:%s:%s" % (type(ex).__name__, site), "reading %s raised %r; %s" % (name, ex, where)))
                    continue
                if r != pre["reads"][name]:
                    got = r if r[0] == "absent" else ("data", r[1][:16], "...len=%d" % len(r[1]), "get_length=%d" % r[2])
                    bad.append(("lease-op-changed-data:%s:%s:%s" % (e["kind"], site, _effect(pre["reads"][name][1], r)),
                                "(ii) share %s only received/renewed a lease but its data changed: before read(0,%d) returned %d bytes (length %d), after restart %r; bytes after the original data: %r; %s"
                                % (name, BIG, len(pre["reads"][name][1]), pre["reads"][name][2], got,
                                   (r[1][len(e["data"]):][:24] if r[0] == "data" else None), where)))
                li = lease_ids(os.path.join(sd, "shares", rel))
                info.setdefault("lease_outcomes", []).append("same" if li == pre["leases"][name] else ("unreadable" if isinstance(li, str) else "n=%d" % len(li)))
                continue
            # bystander
            if snap.get(rel) != pre["files"][rel]:
                bad.append(("bystander-changed:" + site, "(i) share %s was not targeted but its file changed (present=%s); %s" % (name, rel in snap, where)))
        # (iii) for new immutable shares
        for p, data in sorted(new_imm.items()):
            try:
                r = read_imm_path(ss2, p)
            except Exception as ex:  # noqa
                bad.append(("immutable-unreadable:%s:%s" % (type(ex).__name__, site), "reading new share %s raised %r; %s" % (p, ex, where)))
                continue
            if r[0] == "absent":
                info["new_imm"] = "absent"
                if crash_at is None:
                    bad.append(("upload-lost", "completed upload of %s is absent after restart" % p))
            elif r[1] != data or r[2] != len(data):
                bad.append(("immutable-incomplete:" + site, "(iii) new immutable share %s visible after restart but reads %r (length %d), uploaded %r; %s" % (p, r[1][:32], r[2], data, where)))
            else:
                info["new_imm"] = "complete"
        for p in new_other:
            info.setdefault("target_outcomes", []).append("new-mut:" + ("present" if os.path.relpath(p, "shares") in snap else "absent"))
        del ss2
        K.cancel_timers()
    return bad, info


def observe_pre(prepared, cat):
    with K.Scratch("c29pre") as base:
        sd = K.copy_tree(prepared, os.path.join(base, "s"))
        files = K.snapshot(os.path.join(sd, "shares"))
        ss = K.make_server(sd, clock=_clock(T1))
        reads = {n: read_share(ss, cat, n) for n in cat}
        leases = {n: lease_ids(share_path(sd, cat, n)) for n in cat}
        for n in cat:
            if reads[n] != ("data", cat[n]["data"], len(cat[n]["data"])):
                raise RuntimeError("prepared share %s does not read back: %r" % (n, reads[n]))
    return {"files": files, "reads": reads, "leases": leases, "digest": _digest(files)}


def _chunk(chunk, prepared, seed, pre, done_digests):
    res = common.Result()
    cat = catalog(seed)
    pre_digest = pre["digest"]
    for (opi, op, i) in chunk:
        bad, info = check_case(prepared, cat, pre, op, i)
        res.count("evaluations")
        for sig, msg in bad:
            res.violation(sig, {"op": op, "crash_at": i, "seed": seed}, msg)
        if info.get("disk") not in (pre_digest, done_digests[opi]):
            res.distinct.add((opi, info["disk"]))
        for o in info.get("target_outcomes", []):
            res.count("written-share-outcome:" + o)
        for o in info.get("lease_outcomes", []):
            res.count("lease-target-leases:" + o)
        if "new_imm" in info:
            res.count("new-immutable:" + info["new_imm"])
        if i is not None and i == 1:
            res.sample({"op": op, "crash_at": i, "killed_instead_of": info["trace"][-1][:4], "violations": [b[0] for b in bad]}, cap=2)
    return res


# ------------------------------------------------------------------ large immutable shares (no crash: restarts only)
LARGE_SIZES = [2 ** 32 - 1, 2 ** 32, 2 ** 32 + 70000]


def large_share_probe(size):
    """An immutable share whose size does not fit the container header's 4-byte length field, written sparsely
    (a few KiB really stored) through the server API; then restart / add_lease / restart / renew_lease /
    restart.  The statement's 'an operation that only adds or renews leases never changes any share's data' and
    'complete' are judged on the share's head, tail and reported length."""
    bad = []
    si = _si("large-%d" % size)
    head = _payload(0, "large-head", 3000)
    tail = _payload(0, "large-tail", 3000)
    with K.Scratch("c29-large") as sd:
        ss = K.make_server(sd, clock=_clock(T0))
        r0, c0 = _sec("large", 0)
        got, w = ss.allocate_buckets(si, r0, c0, [0], size)
        w[0].write(0, head)
        w[0].write(size - len(tail), tail)
        w[0].close()
        K.cancel_timers()

        def view(ss_):
            br = ss_.get_buckets(si).get(0)
            if br is None:
                return ("absent",)
            return (br.read(0, len(head)), br.read(size - len(tail), len(tail) + 500), ss_.get_immutable_share_length(si, 0))
        want = (head, tail, size)
        steps = [("restart", None)]
        steps += [("add_lease", _sec("large", 1)), ("restart", None), ("renew_lease", r0), ("add_lease-known", (r0, c0)), ("restart", None)]
        for name, arg in steps:
            try:
                if name == "restart":
                    ss = K.restart(sd, clock=_clock(T1))
                elif name == "add_lease":
                    ss.add_lease(si, arg[0], arg[1])
                elif name == "add_lease-known":
                    ss.add_lease(si, arg[0], arg[1])
                else:
                    ss.renew_lease(si, arg)
            except Exception as ex:  # noqa
                bad.append(("large-share:%s-raised:%s" % (name, type(ex).__name__), "share of %d bytes: %s raised %r" % (size, name, ex)))
                continue
            try:
                v = view(ss)
            except Exception as ex:  # noqa
                bad.append(("large-share:unreadable-after-%s:%s" % (name, type(ex).__name__), "share of %d bytes: reading after %s raised %r" % (size, name, ex)))
                continue
            if v != want:
                what = "absent" if v == ("absent",) else "head ok=%r, tail %d bytes ok=%r, reported length %r" % (v[0] == head, len(v[1]), v[1] == tail, v[2])
                bad.append(("large-share:data-changed-after-%s" % name, "share of %d bytes (sparse): after %s the share reads: %s" % (size, name, what)))
                break
        K.cancel_timers()
    return bad


def _large_chunk(chunk):
    res = common.Result()
    for size in chunk:
        res.count("evaluations")
        res.count("large_share_probes")
        for sig, msg in large_share_probe(size):
            res.violation(sig, {"large": size}, msg)
    return res


def replay(case):
    if "large" in case:
        return large_share_probe(case["large"])
    seed = case.get("seed", 0)
    with K.Scratch("c29r") as base:
        prepared = os.path.join(base, "prepared")
        try:
            cat = prepare(prepared, seed)
        except Exception as e:  # noqa
            return [("no-crash:history-setup-failed:" + type(e).__name__, repr(e))]
        if case["op"].get("op") == "prepare":
            return []
        pre = observe_pre(prepared, cat)
        bad, info = check_case(prepared, cat, pre, case["op"], case["crash_at"])
    return bad


def run(tier, seed):
    K.selfcheck()
    res = common.Result()
    ops = op_catalogue(tier)
    with K.Scratch("c29main") as base:
        prepared = os.path.join(base, "prepared")
        try:
            cat = prepare(prepared, seed)
        except Exception as e:  # noqa
            # the prepared state is built through the real API (uploads, slot writes, up to six add_lease
            # calls per share) with no crash at all: if that fails, the uninterrupted operations already
            # break the storage semantics and no crash point can be judged
            import traceback
            res.count("evaluations")
            res.violation("no-crash:history-setup-failed:" + type(e).__name__, {"op": {"op": "prepare"}, "crash_at": None, "seed": seed},
                          "building the prepared server through the server API (no crash) failed: " + traceback.format_exc()[-700:])
            return res, {"evaluations": 1, "distinct_nontrivial": 2, "exhaustive": False, "rule": "aborted: the prepared state could not be built", "samples_note": "see violation"}
        pre = observe_pre(prepared, cat)
        items = []
        done_digests = {}
        per_op = {}
        for opi, op in enumerate(ops):
            bad, info = check_case(prepared, cat, pre, op, None)     # counting run = the uninterrupted operation
            res.count("evaluations")
            for sig, msg in bad:
                res.violation("no-crash:" + sig, {"op": op, "crash_at": None, "seed": seed}, msg)
            done_digests[opi] = info["disk"]
            if info["disk"] == pre["digest"]:
                res.count("ops_without_effect")
            per_op["%s:%s" % (op["op"], op["bucket"])] = info["n"]
            for i in range(info["n"]):
                items.append((opi, op, i))
        res.merge(common.pmap(_chunk, items, (prepared, seed, pre, done_digests), chunks=min(len(items), 16), workers=min(4, common.NWORKERS) if len(items) < 1000 else None))
    res.merge(common.pmap(_large_chunk, LARGE_SIZES, chunks=len(LARGE_SIZES), workers=min(3, common.NWORKERS)))
    ns = sorted(per_op.values())
    cov = {
        "evaluations": res.counts.get("evaluations", 0),
        "distinct_nontrivial": len(res.distinct),
        "exhaustive": True,
        "operations": len(ops),
        "crash_cases": len(items),
        "mutation_calls_per_operation_min_max": [ns[0], ns[-1]],
        "prepared_shares": len(cat),
        "rule": "every file-system mutation index of every operation in the catalogue (%d operations, %d crash cases + %d uninterrupted runs) on a prepared server with %d shares; non-trivial = distinct (operation, on-disk state after the kill) pairs whose disk state differs from both the prepared and the completed state"
                % (len(ops), len(items), len(ops), len(cat)),
    }
    return res, cov


MANIFEST = {
    "engine": "K",
    "technique": "crash-point enumeration: every file-system mutation call (below CPython's buffering) of every storage operation is replaced in turn by a process kill, followed by a restart of a real StorageServer on the directory and an invariant check through its read API",
    "text": "A prepared server (immutable shares with 0/1/4 leases, mutable shares with 0/4/5/6 leases x 0/5/40 bytes, two-share buckets) is copied for every (operation, crash index) pair of a catalogue of uploads, lease additions/renewals, mutable writes that grow the container, truncations, deletions and the expirer's cancel_lease calls. After the kill and restart: untouched shares byte-identical, lease-only targets read the same data, immutable shares absent or complete, incoming/ empty. Every crash index is covered; nothing is sampled. Prepared shares include a 20000-byte immutable and mutable share (larger than CPython's file buffer, so header and tail writes are separate system calls); sparse immutable shares of 2^32-1, 2^32 and 2^32+70000 bytes go through restart / add_lease / renew_lease outside the crash enumeration.",
    "note": "Process-kill model (completed syscalls persist, one write() atomic, no power loss). The statement is silent about the mutable share being written and about the leases of a lease target; those outcomes are counted only.",
}
