"""C16  Capabilities attenuate correctly  (Engine E, exhaustive small scope).

Three exhaustive families, all on the real uri / nodemaker / unknown modules:

(a) CHAINS.  Every one of the 18 capability kinds x every (key, fingerprint) pair of the
    alphabet {00.., ff.., counting, seed-derived}^2 (CHK kinds: x 3 parameter triples; LIT:
    6 payloads): get_readonly(), get_verify_cap() and every composition of them up to length
    3 (compositions that start from something that already is a verify-cap are executed but
    not judged: the statement does not speak of them).  Each derived
    capability must be exactly the string an independent derivation produces (tagged
    SHA-256d from docs/specifications, vt/lib_caps.py) - which implies the same storage
    index and fingerprint along the chain -; its storage index / fingerprint accessors must
    agree along the chain; it must be read-only; and neither its string, nor any base32
    field of it, nor any attribute of the derived object (recursively) may equal the stronger
    secret (write key in a read/verify cap, read key in a verify cap).
(b) PARSE CONTEXTS.  Every kind x key alphabet x prefix in {none, ro., imm.} x
    deep_immutable in {F, T} (MDMF kinds also with an extension field) through
    uri.from_string: the result is UnknownURI, or a capability that is read-only whenever a
    prefix or deep_immutable was given and not mutable whenever imm. or deep_immutable was.
(c) NODE CONTEXTS.  The same strings plus future/unknown capability strings through
    NodeMaker.create_from_cap(writecap, readcap, deep_immutable) in EVERY slot arrangement
    (rw only / ro only / both the same / cap + its derived read-cap / swapped) x every
    prefix on each slot x deep_immutable.  A known node never has a write uri unless the
    consulted string was an unprefixed write-cap in a mutable context, is read-only /
    immutable when alleged so, reports the flags of its kind, and its read-only uri is the
    independently derived read-cap (no write key inside).  An unknown node is either opaque
    (error set, no uris) or: no write uri in a deep-immutable context, a write uri only if it
    is verbatim the rw-slot string, and a read uri that is one of the given strings carrying an
    alleged prefix at least as strong as given / as the context demands.
(d) STORED MARKINGS.  Every slot/prefix arrangement of the future capability strings, and every known write-cap
    kind carrying ro. / imm. in either slot, is linked into a
    mutable directory (real DirectoryNode pack/unpack over vt/lib_memdir) and listed by another client
    through the write-cap and the read-cap: the child must not have gained a write uri and its read uri
    must still carry a marking at least as strong (imm. > ro. > none) as before it was stored.
"""
from allmydata import uri
from allmydata.nodemaker import NodeMaker
from .. import common
from .. import lib_caps as L

LEVEL = "exploration"
ASSUMPTIONS = [
    "small scope: keys/fingerprints from {00.., ff.., counting, seed-derived}; attenuation code is uniform in the key value",
    "a cap in the ro slot that is itself an unprefixed write-cap yields a writeable node (create_from_cap consults 'writecap or readcap'); the statement only speaks of caps *marked* read-only/immutable, so this is accepted and counted",
    "an UnknownNode built from BOTH slots that keeps a 'ro.'-prefixed string in its rw slot is accepted: the marking is preserved verbatim and no interpretation happens; a prefixed string given ALONE must not come back as the node's write uri",
    "is_mutable() of verify-caps is not constrained (they report False upstream although they designate a mutable slot)",
]

ENC = {"k": 3, "n": 10}
STRENGTH = {b"": 0, b"ro.": 1, b"imm.": 2}
PREFIXES = (b"", b"ro.", b"imm.")
FUTURE = [b"x-tahoe-future-test-writeable:abc", b"x-tahoe-future-test-mutable:abc", b"x-tahoe-crazy://abc",
          b"URI:CHK:malformed", b"URI:SSK:malformed"]

READ_OF = {"SSK": "SSK-RO", "MDMF": "MDMF-RO", "DIR2": "DIR2-RO", "DIR2-MDMF": "DIR2-MDMF-RO"}
VERIFY_OF = {"CHK": "CHK-Verifier", "SSK": "SSK-Verifier", "SSK-RO": "SSK-Verifier", "MDMF": "MDMF-Verifier",
             "MDMF-RO": "MDMF-Verifier", "DIR2": "DIR2-Verifier", "DIR2-RO": "DIR2-Verifier",
             "DIR2-CHK": "DIR2-CHK-Verifier", "DIR2-MDMF": "DIR2-MDMF-Verifier", "DIR2-MDMF-RO": "DIR2-MDMF-Verifier"}


# ------------------------------------------------------------------ independent derivation
def ref_readonly(kind, fields):
    k = L.KINDS[kind]
    if k.authority != "write":
        return kind, fields
    return READ_OF[kind], (L.ssk_readkey(fields[0]), fields[1])


def ref_verify(kind, fields):
    """-> (kind, fields) or None (LIT has no verify cap)"""
    k = L.KINDS[kind]
    if k.authority == "verify":
        return kind, fields
    if k.layout == "lit":
        return None
    if k.layout == "chk":
        return VERIFY_OF[kind], (L.chk_storage_index(fields[0]),) + tuple(fields[1:])
    rk = L.ssk_readkey(fields[0]) if k.authority == "write" else fields[0]
    return VERIFY_OF[kind], (L.ssk_storage_index(rk), fields[1])


def secrets_of(kind, fields):
    """{name: secret} the holder of this cap knows and a weaker cap must not carry"""
    k = L.KINDS[kind]
    out = {}
    if k.layout in ("ssk", "mdmf"):
        if k.authority == "write":
            out["writekey"] = fields[0]
            out["readkey"] = L.ssk_readkey(fields[0])
        elif k.authority == "read":
            out["readkey"] = fields[0]
    elif k.layout == "chk" and k.authority == "read":
        out["readkey"] = fields[0]
    return out


def make_obj(kind, fields):
    k = L.KINDS[kind]
    if k.is_dir:
        return getattr(uri, k.cls)(make_obj(k.inner, fields))
    cls = getattr(uri, k.cls)
    return cls(fields[0]) if k.layout == "lit" else cls(*fields)


def string_carries(s, secret, legit=()):
    if secret in s:
        return "raw bytes"
    enc = L.b32enc(secret)
    if enc in s and not any(enc in L.b32enc(f) for f in legit if isinstance(f, bytes)):
        return "base32 substring"
    for tok in s.replace(b".", b":").split(b":"):
        if tok == secret or L.b32dec(tok) == secret:
            return "base32 field"
    return None


def object_carries(o, secret, depth=0, seen=None):
    seen = seen if seen is not None else set()
    if id(o) in seen or depth > 4:
        return None
    seen.add(id(o))
    d = getattr(o, "__dict__", None)
    if d is None:
        return None
    for name, val in sorted(d.items()):
        if isinstance(val, (bytes, bytearray)) and bytes(val) == secret:
            return name
        if hasattr(val, "__dict__") and not isinstance(val, type):
            r = object_carries(val, secret, depth + 1, seen)
            if r:
                return "%s.%s" % (name, r)
    return None


# ------------------------------------------------------------------ (a) chains
def in_statement(kind, path):
    """The statement speaks of deriving read-caps and verify-caps from write-/read-caps.  A
    derivation applied to something that already is a verify-cap (verify-of-verify,
    readonly-of-verify) is outside it: executed, not judged."""
    auth = L.KINDS[kind].authority
    for c in path:
        if auth == "verify":
            return False
        auth = "verify" if c == "v" else ("read" if auth == "write" else auth)
    return True


def check_chain(kind, fields):
    fields = tuple(fields)
    k = L.KINDS[kind]
    bad = []
    try:
        top = make_obj(kind, fields)
        steps = {"": (top, (kind, fields))}
    except Exception as e:  # noqa
        return [("derive-raises:%s" % type(e).__name__, "%s%r: %r" % (kind, fields, e))], 1
    # every composition of get_readonly / get_verify_cap of length <= 3
    for path in ("r", "v", "rr", "rv", "vr", "vv", "rrv", "rvr", "rvv", "vrv"):
        prev_obj, prev_ref = steps[path[:-1]]
        if prev_obj is None:
            steps[path] = (None, None)
            continue
        try:
            if path[-1] == "r":
                steps[path] = (prev_obj.get_readonly(), ref_readonly(*prev_ref))
            else:
                steps[path] = (prev_obj.get_verify_cap(), ref_verify(*prev_ref))
        except Exception as e:  # noqa
            if in_statement(kind, path):
                return [("derive-raises:%s" % type(e).__name__, "%s path %s: %r" % (kind, path, e))], 1
            steps[path] = (None, None)
    n = 0
    top_secrets = secrets_of(kind, fields)
    for path, (obj, ref) in sorted(steps.items()):
        if path == "":
            continue
        n += 1
        if not in_statement(kind, path):
            continue
        label = "%s.%s" % (kind, ".".join({"r": "get_readonly()", "v": "get_verify_cap()"}[c] for c in path))
        if ref is None:
            if obj is not None:
                bad.append(("derived-cap-wrong", "%s should be None (LIT has no verify cap), got %r" % (label, obj)))
            continue
        if obj is None:
            bad.append(("derived-cap-wrong", "%s is None, expected a %s cap" % (label, ref[0])))
            continue
        want = L.build(*ref)
        try:
            got = obj.to_string()
        except Exception as e:  # noqa
            bad.append(("derive-raises:%s" % type(e).__name__, "%s.to_string(): %r" % (label, e)))
            continue
        rk = L.KINDS[ref[0]]
        if got != want or type(obj).__name__ != rk.cls:
            bad.append(("derived-cap-wrong", "%s = %s %r; independent derivation from %r gives %s %r" % (label, type(obj).__name__, got, fields, rk.cls, want)))
        # the statement's own wording: same storage index and fingerprint along the chain
        si_top, si_d = top.get_storage_index(), obj.get_storage_index()
        if si_top != si_d:
            bad.append(("storage-index-changes-along-chain", "%s: storage index %r, the original cap has %r" % (label, si_d, si_top)))
        if k.layout in ("ssk", "mdmf"):
            ftop = (top.get_filenode_cap() if k.is_dir else top).fingerprint
            fd = (obj.get_filenode_cap() if rk.is_dir else obj).fingerprint
            if ftop != fd:
                bad.append(("fingerprint-changes-along-chain", "%s: fingerprint %r, the original cap has %r" % (label, fd, ftop)))
        # authority flags of the derived cap
        try:
            ro, mut = obj.is_readonly(), obj.is_mutable()
        except Exception as e:  # noqa
            bad.append(("derive-raises:%s" % type(e).__name__, "%s.is_readonly()/is_mutable(): %r" % (label, e)))
            continue
        if ro is not True:
            bad.append(("derived-cap-not-readonly", "%s.is_readonly() = %r" % (label, ro)))
        if rk.authority != "verify" and bool(mut) != rk.mutable:
            bad.append(("derived-cap-mutability-wrong", "%s.is_mutable() = %r for a %s cap" % (label, mut, rk.name)))
        # stronger secrets must be gone
        allowed = secrets_of(*ref)
        for sname, secret in sorted(top_secrets.items()):
            if sname in allowed and allowed[sname] == secret:
                continue
            how = string_carries(got, secret, legit=ref[1])
            if how:
                bad.append(("derived-cap-carries-stronger-secret", "%s = %r contains the %s of the original cap (%s)" % (label, got, sname, how)))
            attr = object_carries(obj, secret)
            if attr:
                bad.append(("derived-object-carries-stronger-secret", "%s: attribute %s holds the %s of the original cap" % (label, attr, sname)))
    # flags of the original
    ro, mut = top.is_readonly(), top.is_mutable()
    if ro != (k.authority != "write"):
        bad.append(("authority-flags-wrong", "%s.is_readonly() = %r" % (k.cls, ro)))
    if k.authority != "verify" and bool(mut) != k.mutable:
        bad.append(("authority-flags-wrong", "%s.is_mutable() = %r" % (k.cls, mut)))
    return bad, n


# ------------------------------------------------------------------ (b) parse contexts
def check_parse(s, deep):
    pfx, body = L.split_alleged(s)
    try:
        u = uri.from_string(s, deep_immutable=deep, name="c16")
    except Exception as e:  # noqa
        return [("from_string-raises:%s" % type(e).__name__, "from_string(%r, deep_immutable=%r) raised %r" % (s, deep, e))], "raised"
    if isinstance(u, uri.UnknownURI):
        return [], "unknown:%s" % ("error" if u.get_error() is not None else "noerror")
    bad = []
    ro, mut = u.is_readonly(), u.is_mutable()
    if (pfx or deep) and ro is not True:
        bad.append(("alleged-readonly-interpreted-writeable", "from_string(%r, deep_immutable=%r) -> %s with is_readonly() = %r" % (s, deep, type(u).__name__, ro)))
    if (pfx == b"imm." or deep) and mut is not False:
        bad.append(("alleged-immutable-interpreted-mutable", "from_string(%r, deep_immutable=%r) -> %s with is_mutable() = %r" % (s, deep, type(u).__name__, mut)))
    return bad, "known:%s" % ("ro" if ro else "rw")


# ------------------------------------------------------------------ (c) node contexts
def check_node(w, r, deep, warm=False):
    where = "create_from_cap(%r, %r, deep_immutable=%r)%s" % (w, r, deep, " on a NodeMaker whose node cache is warm" if warm else "")
    nm = NodeMaker(None, None, None, None, None, ENC, None, None)
    keep = []
    if warm:
        # NodeMaker memoises mutable nodes: first obtain (and keep alive) nodes for the same cap
        # bodies in every OTHER context, so that a cache keyed by the wrong thing would answer
        bodies = set()
        for x in (w, r):
            if x:
                bodies.add(L.split_alleged(x)[1])
        for b in sorted(bodies):
            for (ww, rr, dd) in ((b, None, False), (None, b, False), (b, b, False), (b, None, True), (None, b, True)):
                if (ww, rr, dd) == (w, r, deep):
                    continue
                try:
                    keep.append(nm.create_from_cap(ww, rr, deep_immutable=dd, name="warm"))
                except Exception:  # noqa
                    pass
    try:
        n = nm.create_from_cap(w, r, deep_immutable=deep, name="c16")
        unknown = n.is_unknown() if hasattr(n, "is_unknown") else None
    except Exception as e:  # noqa
        return [("create_from_cap-raises:%s" % type(e).__name__, "%s raised %r" % (where, e))], "raised"
    if unknown is None:
        # CiphertextFileNode (verify-cap of an immutable file): no uri accessors at all
        if hasattr(n, "get_write_uri"):
            return [("verifier-node-has-write-uri", "%s -> %s" % (where, type(n).__name__))], "verifier-node"
        return [], "verifier-node"
    big = w or r
    pfx, body = L.split_alleged(big) if big else (b"", b"")
    bad = []
    try:
        wu, ru, gu = n.get_write_uri(), n.get_readonly_uri(), n.get_uri()
    except Exception as e:  # noqa
        return [("node-accessor-raises:%s" % type(e).__name__, "%s -> %s; uri accessor raised %r" % (where, type(n).__name__, e))], "raised"
    if unknown:
        if n.error is not None:
            if wu is not None or ru is not None:
                bad.append(("unknown:error-node-not-opaque", "%s -> error %r but write uri %r / read uri %r" % (where, n.error, wu, ru)))
            return bad, "unknown:opaque"
        if wu is not None:
            if deep:
                bad.append(("unknown:write-uri-in-deep-immutable-context", "%s -> UnknownNode with write uri %r" % (where, wu)))
            if L.split_alleged(wu)[0] and not r:
                # (with BOTH slots given the rw-slot string is kept verbatim, see ASSUMPTIONS; given alone, a
                # string marked ro./imm. is all the node knows, and it must not offer it as write authority)
                bad.append(("unknown:alleged-readonly-string-reported-as-write-uri", "%s -> UnknownNode reports %r as its WRITE uri (it would be stored in a directory's rw slot)" % (where, wu)))
            if wu != w:
                bad.append(("unknown:write-uri-not-from-rw-slot", "%s -> UnknownNode with write uri %r which is not the rw-slot string" % (where, wu)))
        if ru is not None:
            rp, rbody = L.split_alleged(ru)
            given = [x for x in (w, r) if x and L.split_alleged(x)[1] == rbody]
            if not given:
                bad.append(("unknown:ro-uri-invented", "%s -> UnknownNode with read uri %r, not one of the given strings" % (where, ru)))
            else:
                # at least as strong as SOME given string with that body had, and as the context demands
                need = max(min(STRENGTH[L.split_alleged(x)[0]] for x in given), 2 if deep else 1)
                if STRENGTH[rp] < need:
                    bad.append(("unknown:ro-uri-alleged-prefix-too-weak", "%s -> UnknownNode with read uri %r; needs prefix %r" % (where, ru, [b"", b"ro.", b"imm."][need])))
        return bad, "unknown:%s" % ("rw" if wu else "ro")
    # ---- known node
    ref = L.parse(body)
    cls = type(n).__name__
    if ref is None:
        return [("known-node-from-malformed-cap", "%s -> %s" % (where, cls))], "known"
    k = ref.kind
    ro, mut = n.is_readonly(), n.is_mutable()
    restricted = bool(pfx) or deep
    if restricted and (wu is not None or ro is not True):
        bad.append(("node:alleged-readonly-is-writeable", "%s -> %s with get_write_uri() = %r, is_readonly() = %r" % (where, cls, wu, ro)))
    if (pfx == b"imm." or deep) and mut is not False:
        bad.append(("node:alleged-immutable-is-mutable", "%s -> %s with is_mutable() = %r" % (where, cls, mut)))
    if wu is not None and not (k.authority == "write" and wu == ref.canonical and not ro):
        bad.append(("node:write-authority-not-given", "%s -> %s with get_write_uri() = %r; the consulted string is a %s cap" % (where, cls, wu, k.name)))
    if not restricted:
        if ro != (k.authority != "write") or bool(mut) != k.mutable:
            bad.append(("node:authority-flags-wrong", "%s -> %s is_readonly() = %r is_mutable() = %r for a %s cap" % (where, cls, ro, mut, k.name)))
        if (wu is None) != (k.authority != "write"):
            bad.append(("node:authority-flags-wrong", "%s -> %s get_write_uri() = %r for a %s cap" % (where, cls, wu, k.name)))
    if gu != ref.canonical:
        bad.append(("node:uri-differs", "%s -> %s get_uri() = %r" % (where, cls, gu)))
    want_ro = L.build(*ref_readonly(k.name, ref.fields))
    if ru != want_ro:
        bad.append(("node:readonly-uri-wrong", "%s -> %s get_readonly_uri() = %r, independent derivation gives %r" % (where, cls, ru, want_ro)))
    if k.authority == "write" and ru is not None:
        how = string_carries(ru, ref.fields[0], legit=(ref.fields[1],))
        if how:
            bad.append(("node:readonly-uri-carries-writekey", "%s -> get_readonly_uri() = %r contains the write key (%s)" % (where, ru, how)))
    return bad, "known:%s" % ("rw" if wu else "ro")


# ------------------------------------------------------------------ enumeration
def cap_values(seed, tier):
    """[(kind, fields)]"""
    keys = L.patterns(16, seed, b"c16k")
    fps = L.patterns(32, seed, b"c16f")
    out = []
    triples = [(3, 10, 1000), (1, 1, 0), (255, 256, 2 ** 64)]
    lits = [b"", b"h", b"hello", L.seeded(b"c16l", seed, 7), b"\x00" * 16, L.seeded(b"c16l", seed, 55)]
    for name in L.KIND_NAMES:
        lay = L.KINDS[name].layout
        if lay == "lit":
            out.extend((name, (d,)) for d in lits)
        elif lay == "chk":
            out.extend((name, (k, f) + t) for k in keys for f in fps for t in triples)
        else:
            out.extend((name, (k, f)) for k in keys for f in fps)
    return out


def node_arrangements(kind, fields):
    """every (writecap, readcap) pair of strings for this cap, all prefixes on each slot"""
    c = L.build(kind, fields)
    rkind, rfields = ref_readonly(kind, fields)
    rd = L.build(rkind, rfields)
    out = []
    for p in PREFIXES:
        out.append((p + c, None))
        out.append((None, p + c))
    for p1 in PREFIXES:
        for p2 in PREFIXES:
            out.append((p1 + c, p2 + c))
            if rd != c:
                out.append((p1 + c, p2 + rd))
                out.append((p1 + rd, p2 + c))
    return out


def future_arrangements(f):
    other = f + b"-ro"
    out = [(None, None), (b"", None), (None, b"")]
    for p in PREFIXES:
        out.append((p + f, None))
        out.append((None, p + f))
    for p1 in PREFIXES:
        for p2 in PREFIXES:
            out.append((p1 + f, p2 + f))
            out.append((p1 + f, p2 + other))
    return out


def check_stored(w, r):
    """an unknown-format cap carrying an alleged marking, linked into a MUTABLE directory and listed again by
    another client: the child that comes back must not have gained a write uri and its read uri must carry a
    marking at least as strong as the one the node had before it was stored"""
    from ..lib_memdir import World, fire, listing, mkdir
    where = "stored(rw=%r, ro=%r)" % (w, r)
    world = World(0, b"c16-stored")
    c = world.client()
    try:
        n = c.create_from_cap(w, r)
        if n.is_unknown() and n.error is not None:
            return [], "stored:skipped"
        if not n.is_unknown() and not (L.split_alleged(w or r)[0]):
            return [], "stored:skipped"
        wu, ru = n.get_write_uri(), n.get_readonly_uri()
        dn = mkdir(c)
        k, v = fire(dn.set_node("x", n))
    except Exception as e:  # noqa
        return [], "stored:refused"
    if k != "ok":
        return [], "stored:refused"
    bad = []
    for view, cap in (("rw", dn.get_uri()), ("ro", dn.get_readonly_uri())):
        got = listing(world.client().create_from_cap(cap))
        if "x" not in got:
            # (a child that vanishes is C19's business unless its marking is what made it vanish)
            bad.append(("stored:marked-child-lost", "%s: child missing when the directory is listed via its %s cap" % (where, view)))
            continue
        n2 = got["x"][0]
        wu2, ru2 = n2.get_write_uri(), n2.get_readonly_uri()
        if wu2 is not None and (wu is None or view == "ro"):
            bad.append(("stored:write-uri-gained", "%s: listed via %s cap the child has write uri %r (had %r)" % (where, view, wu2, wu)))
        if ru is not None:
            have = STRENGTH[L.split_alleged(ru2)[0]] if ru2 is not None else -1
            if have < STRENGTH[L.split_alleged(ru)[0]]:
                bad.append(("stored:alleged-marking-weakened", "%s: read uri was %r, after a round trip through a mutable directory (%s cap) it is %r" % (where, ru, view, ru2)))
    return bad, "stored:ok"


def run_case(case):
    t = case["t"]
    if t == "stored":
        bad, label = check_stored(case["w"], case["r"])
        return bad, 1, label
    if t == "chain":
        return check_chain(case["kind"], tuple(case["fields"]))
    if t == "parse":
        bad, label = check_parse(case["s"], case["deep"])
        return bad, 1, label
    bad, label = check_node(case["w"], case["r"], case["deep"])
    bad2, label2 = check_node(case["w"], case["r"], case["deep"], warm=True)
    return bad + [(sig + "@warm-cache", msg) for (sig, msg) in bad2], 2, label


def _chunk(chunk):
    res = common.Result()
    for case in chunk:
        out = run_case(case)
        bad, n = out[0], out[1]
        res.count("evaluations", n)
        res.count("cases:" + case["t"])
        if len(out) > 2:
            res.count("out:%s:%s" % (case["t"], out[2]))
        if case.get("nontrivial"):
            res.count("nontrivial")
        for sig, msg in bad:
            res.violation(sig, {k: v for k, v in case.items() if k != "nontrivial"}, msg)
    return res


def replay(case):
    return run_case(case)[0]


def run(tier, seed):
    L.selfcheck()
    values = cap_values(seed, tier)
    cases = []
    for (kind, fields) in values:
        k = L.KINDS[kind]
        cases.append({"t": "chain", "kind": kind, "fields": list(fields), "nontrivial": k.authority != "verify"})
    node_values = values if tier == "thorough" else [(kd, f) for (kd, f) in values if L.KINDS[kd].layout != "chk" or f[2:] == (3, 10, 1000)]
    for (kind, fields) in node_values:
        c = L.build(kind, fields)
        strings = [c] + ([c + b":ext", c + b":1:2"] if L.KINDS[kind].layout == "mdmf" else [])
        for s in strings:
            for p in PREFIXES + (b"ro.imm.", b"imm.ro."):
                for deep in (False, True):
                    cases.append({"t": "parse", "s": p + s, "deep": deep, "nontrivial": bool(p) or deep})
        for (w, r) in node_arrangements(kind, fields):
            for deep in (False, True):
                cases.append({"t": "node", "w": w, "r": r, "deep": deep, "nontrivial": True})
    for f in FUTURE:
        for p in PREFIXES:
            for deep in (False, True):
                cases.append({"t": "parse", "s": p + f, "deep": deep, "nontrivial": True})
        for (w, r) in future_arrangements(f):
            for deep in (False, True):
                cases.append({"t": "node", "w": w, "r": r, "deep": deep, "nontrivial": True})
        for (w, r) in future_arrangements(f):
            if w or r:
                cases.append({"t": "stored", "w": w, "r": r, "nontrivial": True})
    # known WRITE caps alleged read-only / immutable, offered in either slot: refused, or stored without authority
    for (kind, fields) in node_values:
        if L.KINDS[kind].authority == "write" and fields[0] == node_values[0][1][0] if L.KINDS[kind].layout != "lit" else False:
            c = L.build(kind, fields)
            for pfx in (b"ro.", b"imm."):
                cases.append({"t": "stored", "w": None, "r": pfx + c, "nontrivial": True})
                cases.append({"t": "stored", "w": pfx + c, "r": None, "nontrivial": True})
    res = common.pmap(_chunk, cases)
    for c in (cases[0], cases[len(cases) // 2], cases[-1]):
        res.sample({k: v for k, v in c.items() if k != "nontrivial"})
    outcomes = {k[4:]: v for k, v in res.counts.items() if k.startswith("out:")}
    cov = {
        "evaluations": res.counts.get("evaluations", 0),
        "distinct_nontrivial": res.counts.get("nontrivial", 0),
        "exhaustive": True,
        "chain_caps": res.counts.get("cases:chain", 0),
        "parse_contexts": res.counts.get("cases:parse", 0),
        "node_contexts": res.counts.get("cases:node", 0),
        "stored_contexts": res.counts.get("cases:stored", 0),
        "distinct_outcomes": len(outcomes),
        "outcomes": outcomes,
        "rule": "all 18 kinds x {00,ff,counting,seed}^2 key/fingerprint values: 10 compositions of get_readonly/get_verify_cap each; every prefix (none/ro./imm./ro.imm./imm.ro.) x deep_immutable through from_string; every slot arrangement x prefix per slot x deep_immutable through NodeMaker.create_from_cap, plus 5 future/malformed strings; non-trivial = chain from a cap that has something to lose (write or read cap), or a context with a prefix / deep_immutable / node construction",
    }
    return res, cov


MANIFEST = {
    "engine": "E",
    "technique": "exhaustive small-scope enumeration of capability kinds x key alphabet x attenuation chains x (prefix, slot, deep-immutable) contexts on the real uri/nodemaker/unknown code against an independent hashlib derivation",
    "text": "Every capability kind over a small key alphabet is attenuated along every chain of get_readonly/get_verify_cap and compared with an independently derived capability (same storage index and fingerprint, no stronger key in the string or the object); every combination of alleged prefix, deep-immutable flag and read/write slot placement is pushed through uri.from_string and NodeMaker.create_from_cap and the resulting capability or node must not report write authority or mutability it was not given. Marked capabilities (future formats, and known write-caps alleged read-only/immutable) are also linked into a real mutable directory and listed by another client: no write uri gained, marking not weakened.",
    "note": "Small scope over key values. Slot semantics the statement is silent about (an unprefixed write-cap placed in the read slot yields a writeable node) are accepted and counted.",
}
