"""C12  Concurrent writers are detected, never silently clobbered  (Engine G, split delivery).

W = 2 independent clients (own NodeMaker, own node object, same write-cap) each overwrite a file
created beforehand with distinct contents.  Every remote call is TWO scheduler events (execute at
the server, deliver the response), so server-side order and client-side arrival order are explored
independently.  ALL interleavings with <= d deviations from the canonical order are executed, for
(k,N,S) on both sides of (W+1)k <= N, SDMF and MDMF; also with one server having lost its shares beforehand (both
writers then look for a new home for the same share numbers), at <= 1 deviation.
Oracle:
 (a) test-and-set at the server: whenever a write call changes a share, the share's checkstring on
     disk just before the call equals the checkstring this writer last observed for that
     (server, share) - at its survey or after its own previous write - or the share did not exist
     and the writer had seen none;
 (b) a writer that had a write refused, or never got all its writes applied, does not report
     success: it errbacks with UncoordinatedWriteError;
 (c) when (W+1)k <= N: after both finish, a fresh client finds a recoverable version and reads
     the old contents or one writer's contents, never anything else.
"""
from .. import boot, common, grid, lib_imm, lib_mut
from ..lib_mut import pattern
from allmydata.mutable.publish import MutableData

LEVEL = "model_checking"
ASSUMPTIONS = [
    "two writers on grids of 2-4 servers; three writers on 3-4 servers and two writers on a 10-server grid (3-of-10) with one deviation less; larger combinations are not reached",
    "calls on one connection execute and answer in FIFO order; executions and responses of different connections interleave freely within the deviation bound",
    "no writer is stopped midway (no faults): detection, not crash recovery, is the subject",
]
CONFIGS = [(1, 3, 3), (1, 2, 2), (2, 4, 4), (2, 3, 3)]
MORE = [(1, 4, 4, 3), (1, 3, 3, 3), (3, 10, 10, 2), (2, 4, 4, 3)]     # (k, N, S, writers)


def execute(case, prefix, seed):
    fmt, k, n, S = case["fmt"], case["k"], case["n"], case["S"]
    W = case.get("W", 2)                    # writers: clients 0..W-1; client W creates the file and reads at the end
    ch = grid.Chooser(prefix)
    g = grid.Grid(S, nclients=W + 1, chooser=ch, split=True, client_kw=dict(k=k, n=n, happy=1))
    g.sched.batch = bool(case.get("batch"))     # turn granularity, see grid.Sched.batch
    if case.get("cpu"):
        g.sched.cpu_events()     # thread-pool work completes as a scheduled event, see grid.Sched.cpu_events
    viol, obs = [], {}
    try:
        old = pattern(9, 20)
        news = [pattern(1 + i, 21 + i) for i in range(W)]
        g.sched.split = False
        b0 = lib_mut.create(g, fmt, old, ci=W)
        cap = b0[0][1].get_uri()
        si = b0[0][1].get_storage_index()
        g.quiesce()
        for sv_ in case.get("lost", ()):
            # this server lost its shares before the writers start: both will look for a new home for them and may
            # pick the same (empty) server - the "share must not exist yet" test vector is what separates them
            import os as _os
            for (s_, path) in list(g.share_files()):
                if s_ == sv_:
                    _os.remove(_os.path.join(g.base, "s%d" % s_, "shares", path))
        g.sched.split = True
        seen = {}       # (client, server, shnum) -> checkstring last observed (None = absent)
        surveyed = set()  # (client, server) pairs with an answered survey of all shares
        refused = set()  # clients that had a write refused
        applied = {i: set() for i in range(W)}

        def disk():
            return {(sv, sh): p.get("checkstring") for (sv, sh), p in lib_mut.mutable_shares(g, si).items()}
        sched = g.sched
        real_execute = sched._execute

        def _execute(ev):
            ci, sv = ev.conn.ci, ev.conn.si
            before = disk()
            out = real_execute(ev)
            after = disk()
            if ev.meth == "slot_readv" and out[0] == "ok":
                if not ev.args[1]:
                    surveyed.add((ci, sv))      # an answer for ALL shares: the ones it does not list are absent
                shnums = ev.args[1] or [sh for (s, sh) in before if s == sv]
                for sh in set(shnums) | set(sh for (s, sh) in before if s == sv):
                    seen[(ci, sv, sh)] = before.get((sv, sh))
            elif ev.meth == "slot_testv_and_readv_and_writev" and out[0] == "ok":
                wrote = out[1][0]
                for sh, (testv, datav, newlen) in ev.args[2].items():
                    changed = before.get((sv, sh)) != after.get((sv, sh))
                    if changed:
                        exp = seen.get((ci, sv, sh), None if (ci, sv) in surveyed else "never-surveyed")
                        if exp != before.get((sv, sh)):
                            viol.append(("share-overwritten-without-matching-survey", "client %d's write to server %d share %d was applied although the share's checkstring on disk (%r) differs from what this writer last observed (%r)" % (ci, sv, sh, before.get((sv, sh)) and before.get((sv, sh))[:9].hex(), exp if exp in (None, "never-surveyed") else exp[:9].hex())))
                        applied[ci].add((sv, sh))
                        seen[(ci, sv, sh)] = after.get((sv, sh))
                if not wrote:
                    refused.add(ci)
                    # the answer carries the current share data: the writer now knows the foreign version
                    for sh in ev.args[2]:
                        seen[(ci, sv, sh)] = before.get((sv, sh))
            return out
        sched._execute = _execute
        nodes = [g.clients[i].create_node_from_uri(cap) for i in range(W)]
        boxes = [grid.box(nodes[i].overwrite(MutableData(news[i]))) for i in range(W)]
        sched.explore = True
        sched.run()
        sched.explore = False
        outcomes = []
        for i in range(W):
            if not boxes[i]:
                viol.append(("writer-never-completes", "writer %d's overwrite never fired; log tail %r" % (i, sched.log[-4:])))
                outcomes.append("hang")
                continue
            if boxes[i][0][0] == "ok":
                outcomes.append("ok")
                if i in refused:
                    viol.append(("refused-writer-reports-success", "writer %d had a write refused by a server (test vector mismatch) but its overwrite reported success" % i))
            else:
                name = lib_imm.failure_name(boxes[i][0][1])
                outcomes.append("err:" + name)
                if name != "UncoordinatedWriteError":
                    viol.append(("wrong-error:" + name, "writer %d failed with %s: %s" % (i, name, boxes[i][0][1].getErrorMessage()[:200])))
        obs["outcomes"] = outcomes
        sched.split = False
        # (c) recoverability
        if (W + 1) * k <= n and "hang" not in outcomes:
            n3 = g.clients[W].nodemaker.create_from_cap(cap)     # client W has never cached anything about the new versions
            b3 = lib_mut.download(g, n3)
            if not b3 or b3[0][0] != "ok":
                viol.append(("no-recoverable-version-after-concurrent-writes", "(W+1)k<=N holds (k=%d,N=%d) and no writer stopped midway, yet a fresh read fails: %s; writer outcomes %r" % (k, n, b3 and lib_imm.failure_name(b3[0][1]), outcomes)))
            elif b3[0][1] not in [old] + news:
                viol.append(("read-returns-unpublished-bytes", "fresh read returned %d bytes that are neither the old nor any writer's contents" % len(b3[0][1])))
            else:
                obs["final"] = "old" if b3[0][1] == old else "w%d" % news.index(b3[0][1])
        obs["events"] = len(sched.log)
        for e in boot.R.take_errors():
            viol.append(("exception-in-timer:" + type(e.value).__name__, e.getTraceback()[-400:]))
        boot.take_logged()
    finally:
        g.close()
    return ch.trace, viol, obs


def chunk(tasks, seed, d_bound, f_bound, max_exec, collect):
    res = common.Result()
    for (case, root) in tasks:
        gate = {}

        def ex(prefix):
            trace, viol, obs = execute(case, prefix, seed)
            return trace, (viol, obs)

        def on_exec(prefix, trace, info):
            viol, obs = info
            res.count("executions")
            res.count("transitions", obs.get("events", 0))
            key = (tuple(obs.get("outcomes", ())), obs.get("final"))
            res.distinct.add(key)
            res.count("outcome:%s/%s" % ("+".join(obs.get("outcomes", ())), obs.get("final")))
            for sig, msg in viol:
                res.violation(sig, {"case": case, "prefix": prefix}, msg + " | case=%r schedule=%r" % (case, prefix))
            if any(prefix) and not gate:
                gate["x"] = 1
                t2, v2, o2 = execute(case, prefix, seed)
                if o2 != obs:
                    raise grid.HarnessError("nondeterministic replay %r %r: %r vs %r" % (case, prefix, obs, o2))
                res.sample({"case": case, "schedule": prefix, "writer_outcomes": obs.get("outcomes"), "file_finally_holds": obs.get("final")})
            if collect and not prefix:
                res.notes.setdefault("children", []).extend((case, p) for p in grid.children([], trace, collect[0], collect[1]))
        n, capped = grid.explore_subtree(ex, root, d_bound, 0, on_exec, max_exec=max_exec)
        res.count("trees")
        if capped:
            res.count("capped_trees")
    return res


def replay(case):
    trace, viol, obs = execute(case["case"], case["prefix"], boot.SEED)
    return viol


def run(tier, seed):
    cases = [{"fmt": fmt, "k": k, "n": n, "S": S} for fmt in ("SDMF", "MDMF") for (k, n, S) in CONFIGS]
    d = 2 if tier == "quick" else 3
    if tier == "quick":
        cases = [c for c in cases if (c["k"], c["n"]) in ((1, 3), (2, 3))]
    # the root of each case runs first; its first-level children become separate parallel tasks
    res = grid.split_tasks(common.pmap, chunk, cases, (seed,), d, 0)
    # the same with several events per reactor turn (grid.Sched.batch), one deviation less
    res.merge(grid.split_tasks(common.pmap, chunk, [dict(c, batch=True) for c in cases], (seed,), d - 1, 0))
    # three writers, and two writers on a 10-server grid: one deviation less
    more = [{"fmt": fmt, "k": k, "n": n, "S": S, "W": W} for fmt in ("SDMF", "MDMF") for (k, n, S, W) in MORE]
    if tier == "quick":
        ten = [c for c in more if c["S"] == 10 and c["fmt"] == "SDMF"]
        more = [c for c in more if (c["fmt"], c["n"], c["W"]) in (("SDMF", 4, 3), ("MDMF", 3, 3)) and c["k"] == 1]
        res.merge(grid.split_tasks(common.pmap, chunk, ten, (seed,), 0, 0))
        more_desc = "%d three-writer configurations at <= %d deviations and the 10-server grid at the canonical order" % (len(more), d - 1)
    else:
        ten = [c for c in more if c["S"] == 10]
        more = [c for c in more if c["S"] != 10]
        res.merge(grid.split_tasks(common.pmap, chunk, ten, (seed,), d - 2, 0))
        more_desc = "%d three-writer configurations x formats at <= %d deviations, the 10-server grid (3-of-10, two writers, both formats) at <= %d" % (len(more), d - 1, d - 2)
    res.merge(grid.split_tasks(common.pmap, chunk, more, (seed,), d - 1, 0))
    # one server lost its shares before the writers start (homeless shares, placed anew by both writers)
    lost = [dict(c, lost=[sv]) for c in cases for sv in range(c["S"]) if c["n"] - (c["n"] // c["S"]) >= c["k"]]
    if tier == "quick":
        lost = [c for c in lost if c["lost"][0] in (0, c["S"] - 1)]
    res.merge(grid.split_tasks(common.pmap, chunk, lost, (seed,), 1, 0))
    # encryption / hashing in the thread pool complete as scheduled events the other writer's calls can overtake
    res.merge(grid.split_tasks(common.pmap, chunk, [dict(c, cpu=True) for c in cases], (seed,), d - 1, 0))
    cov = {
        "states": res.counts.get("executions", 0),
        "transitions": res.counts.get("transitions", 0),
        "traces_validated_against_impl": res.counts.get("executions", 0),
        "capped_trees": res.counts.get("capped_trees", 0),
        "deviation_bound_completed": d,
        "distinct_outcomes": len(res.distinct),
        "outcomes": {k[8:]: v for k, v in res.counts.items() if k.startswith("outcome:")},
        "rule": more_desc + "; 2 writers x %d (format,k,N,S) configurations; every interleaving of execute/response events with <= %d deviations from the canonical order, and with <= %d when several events share a reactor turn or thread-pool completions are scheduled events" % (len(cases), d, d - 1),
    }
    return res, cov


MANIFEST = {
    "engine": "G",
    "technique": "stateless model checking of two real concurrent publishers with split execute/response events: all interleavings within a deviation bound, test-and-set judged at the server from on-disk checkstrings",
    "text": "Two independent clients overwrite the same mutable file on real storage servers; each remote call is split into server execution and response delivery and all interleavings within the deviation bound are run. The harness compares, at every applied write, the on-disk checkstring with what that writer last observed, checks that refused writers report UncoordinatedWriteError, and that a version stays recoverable when (W+1)k <= N. Also three writers on 3-4 servers and two writers on a 10-server grid at one deviation less, and the two-writer configurations with several events per reactor turn and with thread-pool completions as scheduled events. Also with one server having lost its shares beforehand, so that both writers look for a new home for the same share numbers (must-not-exist test vectors contested).",
    "note": "Bound d in evidence; 2 writers, <= 4 servers.",
}
