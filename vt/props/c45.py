"""C45  Immutable check, verify and repair  (Engine G, fault enumeration at the default schedule).

Files: 2-of-4 and 3-of-5, 61 bytes in 3 segments (thorough: also single-segment), share i on
server i of S = N servers (thorough: also S = N + 2, two empty servers).
Enumerated damage states:
 (a) EVERY subset D of shares deleted x EVERY subset C of the remaining shares corrupted with one
     kind of the lib_imm catalogue (first/last block byte, block-hash leaf, share-hash chain, UEB,
     ciphertext hash tree) x verify in {False, True};
 (b) thorough: EVERY assignment of {intact, deleted, kind_1..kind_6} to each share independently
     (2-of-4), and EVERY single-byte flip of one share file (first and last share) under verify.
Per state, on real share files on real storage servers, through a node built from the VERIFY-CAP
only (create_node_from_uri(verifycap) -> CiphertextFileNode):
   node.check(Monitor(), verify)  ->  node'.check_and_repair(Monitor(), verify)  ->  delete every
   pre-existing share file and read the file with the read-cap.
Oracle (ground truth = byte comparison of each share file with the original upload):
 * verify=True: the shares reported good are exactly the byte-identical ones (a flipped byte in
   blocks / block hashes / share-hash chain / ciphertext hash tree / UEB must make the share
   not-good; flips elsewhere may go either way); verify=False: good = present on an answering server;
 * healthy <=> N distinct good shares, recoverable <=> >= k, counters agree;
 * a file with >= k intact shares on honest servers is repaired without an error; no repair is
   attempted on a healthy file;
 * after a repair attempt every pre-existing intact share file still exists with an unchanged
   data region; every share file the repair wrote is valid for the original cap (its blocks, block
   hash tree, ciphertext hash tree and UEB equal the original encoding, its share-hash chain is
   consistent with the original share hash tree); "repair successful" implies all N share numbers
   exist; with all pre-existing shares deleted the file reads from the new shares alone when there
   are >= k of them (otherwise from the new shares topped up to exactly k with pristine ones).
"""
import itertools
import os

from .. import boot, common, grid, lib_imm
from allmydata import uri as tahoe_uri
from allmydata.monitor import Monitor
from allmydata.immutable.filenode import CiphertextFileNode
from allmydata.storage.server import storage_index_to_dir

LEVEL = "fault_enumeration"
ASSUMPTIONS = [
    "61-byte files, 2-of-4 and 3-of-5, one share per server, honest servers, default delivery schedule (schedules/faulty servers: C03/C06)",
    "SHA-256d collision-free: a share validates under the cap iff its validated fields equal the original encoding",
    "one corruption kind per state in part (a); independent kinds per share and single-byte flips in thorough",
    "where the statement is silent (listing of corrupt shares, whether corrupt shares get replaced, post-repair counters) behaviours are counted, not judged",
]
FILES = {
    "F24": dict(k=2, n=4, seg=21, size=61),
    "F35": dict(k=3, n=5, seg=21, size=61),
    "F24s": dict(k=2, n=4, seg=128, size=61),
    "F35s": dict(k=3, n=5, seg=128, size=61),
}
KINDS = [kd for kd in lib_imm.DAMAGE_KINDS if kd != "missing"] + ["foreign-blocks"]
MUST_BAD = ("data", "crypttext_hash_tree", "block_hashes", "share_hashes", "ueb_length", "ueb")


def region(blob):
    n = int.from_bytes(blob[8:12], "big")
    return blob[0xc:len(blob) - 72 * n]


def chain(blob, f):
    a, b = f["share_hashes"]
    raw = blob[a:b]
    out = []
    for i in range(0, len(raw) - len(raw) % 34, 34):
        out.append((int.from_bytes(raw[i:i + 2], "big"), raw[i + 2:i + 34]))
    return out, len(raw) % 34


def invalid_fields(blob, shnum, prep):
    """why a share file is NOT a valid share `shnum` of the original cap ([] = valid)"""
    orig = prep["shares"][shnum]
    if region(blob) == region(orig):
        return []
    try:
        f, fo = lib_imm.share_fields(blob), lib_imm.share_fields(orig)
    except Exception as e:  # noqa
        return ["unparseable:%s" % type(e).__name__]
    bad = []
    for name in ("data", "crypttext_hash_tree", "block_hashes", "ueb_length", "ueb"):
        if blob[f[name][0]:f[name][1]] != orig[fo[name][0]:fo[name][1]]:
            bad.append(name)
    truth = {}
    for sh, ob in prep["shares"].items():
        for idx, h in chain(ob, lib_imm.share_fields(ob))[0]:
            truth[idx] = h
    mine, rest = chain(blob, f)
    if rest:
        bad.append("share_hashes:ragged")
    for idx, h in mine:
        if truth.get(idx) != h:
            bad.append("share_hashes:node%d" % idx)
    need = set(i for i, h in chain(orig, fo)[0])
    if not need <= set(i for i, h in mine):
        bad.append("share_hashes:chain-incomplete")
    return bad


def flip_class(prep, shnum, pos):
    f = lib_imm.share_fields(prep["shares"][shnum])
    for name in MUST_BAD:
        if f[name][0] <= pos < f[name][1]:
            return "must-bad"
    return "maybe"


def execute(case, seed):
    F = FILES[case["file"]]
    k, n = F["k"], F["n"]
    prep = lib_imm.prepare(k, n, F["seg"], F["size"], seed)
    S = case["S"]
    verify = case["verify"]
    state = case["state"]          # per share: None | "missing" | kind | ["flip", pos]
    viol, obs = [], {}
    g = grid.Grid(S, client_kw=dict(k=k, n=n, happy=1, max_segment_size=F["seg"]))
    try:
        blobs, cls = {}, {}
        for sh in range(n):
            st = state[sh]
            if st is None:
                cls[sh] = "intact"
            elif st == "missing":
                cls[sh] = "missing"
                blobs[(sh, sh)] = None
            elif st == "foreign-blocks":
                # every block AND the whole block hash tree replaced by those of the same share number of
                # ANOTHER file of the same size and encoding: self-consistent, but not this capability's
                other = lib_imm.prepare(k, n, F["seg"], F["size"], seed + 1000)
                o, fo = prep["shares"][sh], lib_imm.share_fields(prep["shares"][sh])
                x, fx = other["shares"][sh], lib_imm.share_fields(other["shares"][sh])
                if (fo["data"], fo["block_hashes"]) != (fx["data"], fx["block_hashes"]):
                    raise grid.HarnessError("layouts differ")
                blob = bytearray(o)
                for nm in ("data", "block_hashes"):
                    blob[fo[nm][0]:fo[nm][1]] = x[fx[nm][0]:fx[nm][1]]
                blobs[(sh, sh)] = bytes(blob)
                cls[sh] = "corrupt"
                if blobs[(sh, sh)] == prep["shares"][sh]:
                    raise grid.HarnessError("foreign-blocks left share %d unchanged" % sh)
                continue
            else:
                blobs[(sh, sh)] = lib_imm.damage(prep["shares"][sh], st)
                cls[sh] = "corrupt" if not isinstance(st, (list, tuple)) else ("corrupt" if flip_class(prep, sh, st[1]) == "must-bad" else "maybe")
                if blobs[(sh, sh)] == prep["shares"][sh]:
                    raise grid.HarnessError("damage %r left share %d unchanged" % (st, sh))
        lib_imm.place(g, prep, {sh: [sh] for sh in range(n)}, blobs)
        intact = set(sh for sh in cls if cls[sh] == "intact")
        maybe = set(sh for sh in cls if cls[sh] == "maybe")
        present = set(sh for sh in cls if cls[sh] != "missing")
        rel = storage_index_to_dir(prep["si"])
        before = g.share_files()
        u = tahoe_uri.from_string(prep["cap"])
        vcap = u.get_verify_cap().to_string()
        ids = {g.ids[i]: i for i in range(S)}

        def judge_check(cr, tag):
            sm = {}
            for sh, servers in cr.get_sharemap().items():
                sm[sh] = sorted(ids[s.get_serverid()] for s in servers)
            good = set(sm)
            if verify:
                lo, hi = intact, intact | maybe
            else:
                # a flipped container/lease byte can make the server refuse to list the share
                lo, hi = present - maybe, present
            if not (lo <= good <= hi):
                if good - hi:
                    bad = sorted(good - hi)
                    viol.append(("verify-accepts-corrupt-share" if verify and set(bad) <= present else "check-reports-absent-share",
                                 "%s verify=%s: shares %r reported good, but %s; state=%r" % (tag, verify, bad, "their files differ from the original encoding" if set(bad) <= present else "no such share files exist", state)))
                if lo - good:
                    viol.append(("check-misses-good-share", "%s verify=%s: shares %r are byte-identical to the original (and present) but not reported good; reported=%r state=%r" % (tag, verify, sorted(lo - good), sorted(good), state)))
            for sh, svs in sm.items():
                if svs != [sh]:
                    viol.append(("check-wrong-share-location", "%s: share %d reported on servers %r, it is on server %d only" % (tag, sh, svs, sh)))
            if cr.is_healthy() != (len(good) == n):
                viol.append(("healthy-flag-wrong", "%s verify=%s: is_healthy()=%r with %d distinct good shares of N=%d (k=%d); state=%r" % (tag, verify, cr.is_healthy(), len(good), n, k, state)))
            if cr.is_recoverable() != (len(good) >= k):
                viol.append(("recoverable-flag-wrong", "%s verify=%s: is_recoverable()=%r with %d distinct good shares, k=%d; state=%r" % (tag, verify, cr.is_recoverable(), len(good), k, state)))
            if cr.get_share_counter_good() != len(good):
                viol.append(("good-share-counter-wrong", "%s: count-shares-good=%r but the share map has %d shares" % (tag, cr.get_share_counter_good(), len(good))))
            if (cr.get_encoding_needed(), cr.get_encoding_expected()) != (k, n):
                viol.append(("encoding-counters-wrong", "%s: needed/expected=%r, file is %d-of-%d" % (tag, (cr.get_encoding_needed(), cr.get_encoding_expected()), k, n)))
            listed = set(ids[s.get_serverid()] for (s, si_, sh) in cr.get_corrupt_shares())
            want_listed = set(sh for sh in cls if cls[sh] == "corrupt") if verify else set()
            obs.setdefault("corrupt_list", []).append("exact" if listed == want_listed else "differs")
            if listed & intact:
                viol.append(("intact-share-listed-corrupt", "%s: intact shares %r are listed as corrupt" % (tag, sorted(listed & intact))))
            return good

        # ------------------------------------------------------------ 1. check
        node = g.clients[0].create_node_from_uri(vcap)
        if type(node) is not CiphertextFileNode:
            raise grid.HarnessError("verify-cap node is %r" % (node,))
        b = g.wait(node.check(Monitor(), verify=verify))
        g.quiesce()
        if not b:
            viol.append(("check-never-completes", "check(verify=%s) never fired; state=%r" % (verify, state)))
            return viol, obs
        if b[0][0] != "ok":
            viol.append(("check-errback:" + lib_imm.failure_name(b[0][1]), "check(verify=%s) failed: %s; state=%r" % (verify, b[0][1].getErrorMessage()[:300], state)))
            return viol, obs
        good = judge_check(b[0][1], "check")
        obs["check"] = (len(good), b[0][1].is_healthy(), b[0][1].is_recoverable())
        if g.share_files() != before:
            obs["check_changed_disk"] = True
        calls_check = g.sched.issued

        # ------------------------------------------------------------ 2. check_and_repair
        node2 = g.clients[0].create_node_from_uri(vcap)
        if case.get("warm"):
            # through a READ-cap node object that has just been used to read the file (a long-running client
            # keeps its node objects: "download, then check and repair" goes through the same DownloadNode)
            node2 = g.clients[0].create_node_from_uri(prep["cap"])
            b0, cons0 = lib_imm.read(g, node2)
            g.quiesce()
            obs["warm_read"] = "ok" if (b0 and b0[0][0] == "ok" and cons0.data() == prep["data"]) else "fail"
            if obs["warm_read"] != "ok" and len(intact) >= k and not (set(cls.values()) - {"intact", "missing"}):
                viol.append(("read-failed-with-k-intact-shares", "reading before the repair failed although %d intact shares exist; state=%r" % (len(intact), state)))
        b = g.wait(node2.check_and_repair(Monitor(), verify=verify))
        g.quiesce()
        after = g.share_files()
        pre_ok_healthy = (len(good) == n)
        if not b:
            viol.append(("repair-never-completes", "check_and_repair(verify=%s) never fired; state=%r" % (verify, state)))
            return viol, obs
        attempted = True
        successful = False
        if b[0][0] != "ok":
            name = lib_imm.failure_name(b[0][1])
            obs["repair"] = "err:" + name
            if len(intact) >= k:
                viol.append(("repair-failed-on-recoverable-file:" + name, "check_and_repair(verify=%s) failed with %s although %d >= k=%d intact shares sit on honest servers: %s; state=%r" % (verify, name, len(intact), k, b[0][1].getErrorMessage()[:300], state)))
        else:
            crr = b[0][1]
            judge_check(crr.get_pre_repair_results(), "pre-repair")
            attempted = bool(crr.get_repair_attempted())
            successful = bool(crr.get_repair_successful()) if attempted else False
            obs["repair"] = "not-needed" if not attempted else ("success" if successful else "unsuccessful")
            if pre_ok_healthy and attempted:
                viol.append(("repair-attempted-on-healthy-file", "verify=%s state=%r" % (verify, state)))
            if not pre_ok_healthy and not attempted:
                viol.append(("no-repair-on-unhealthy-file", "verify=%s: pre-repair check found %d of %d shares but no repair was attempted; state=%r" % (verify, len(good), n, state)))
            post = crr.get_post_repair_results()
            if post is None:
                viol.append(("no-post-repair-results", "state=%r" % (state,)))

        # ------------------------------------------------------------ 3. disk after the repair
        final_before = {kk: v for kk, v in before.items() if not kk[1].startswith("incoming")}
        final_after = {kk: v for kk, v in after.items() if not kk[1].startswith("incoming")}
        for (sv, path), blob in final_before.items():
            sh = int(path.rsplit("/", 1)[1])
            if cls.get(sh) == "intact":
                if (sv, path) not in final_after:
                    viol.append(("repair-deleted-good-share", "intact share %d on server %d is gone after check_and_repair(verify=%s); state=%r" % (sh, sv, verify, state)))
                elif region(final_after[(sv, path)]) != region(blob):
                    viol.append(("repair-altered-good-share", "data region of intact share %d on server %d changed during check_and_repair(verify=%s); state=%r" % (sh, sv, verify, state)))
                elif final_after[(sv, path)] != blob:
                    obs["lease_changed"] = True
        new = {}
        for (sv, path), blob in final_after.items():
            if final_before.get((sv, path)) == blob:
                continue
            sh = int(path.rsplit("/", 1)[1])
            if (sv, path) in final_before and region(final_before[(sv, path)]) == region(blob):
                continue   # only the lease area changed
            new[(sv, sh)] = blob
        if any(kk[1].startswith("incoming") for kk in after):
            obs["incoming_left"] = True
        if not attempted and new:
            viol.append(("shares-written-without-repair", "%r written although no repair was attempted" % (sorted(new),)))
        newnums = set()
        for (sv, sh), blob in sorted(new.items()):
            badf = invalid_fields(blob, sh, prep)
            if badf:
                viol.append(("repair-wrote-invalid-share", "share %d written to server %d by check_and_repair(verify=%s) does not validate under the original cap: fields %r differ from the original encoding; state=%r" % (sh, sv, verify, badf, state)))
            newnums.add(sh)
            if (sv, sh) in [(s_, int(p_.rsplit("/", 1)[1])) for (s_, p_) in final_before]:
                obs["replaced_existing"] = True
        on_disk = set(int(p_.rsplit("/", 1)[1]) for (s_, p_) in final_after if p_.startswith(rel))
        if successful and on_disk != set(range(n)):
            viol.append(("repair-success-with-missing-shares", "repair reported successful but share numbers %r do not exist on any server; state=%r" % (sorted(set(range(n)) - on_disk), state)))
        really_good = set()
        for (sv, path), blob in final_after.items():
            sh = int(path.rsplit("/", 1)[1])
            if not invalid_fields(blob, sh, prep):
                really_good.add(sh)
        obs["good_after"] = len(really_good)
        if successful and len(really_good) < n:
            obs["success_but_corrupt_left"] = True
        if attempted and b[0][0] == "ok" and not successful and len(really_good) == n:
            obs["unsuccessful_but_all_good"] = True
        obs["new"] = len(newnums)

        # ------------------------------------------------------------ 4. read from the repaired shares alone
        if new:
            for (sv, path) in final_after:
                if (sv, path) in final_before and (sv, int(path.rsplit("/", 1)[1])) not in new:
                    os.unlink(os.path.join(g.base, "s%d" % sv, "shares", path))
            topup = []
            if len(newnums) < k:
                topup = [sh for sh in range(n) if sh not in newnums][:k - len(newnums)]
                # pristine copies go to servers that hold no new share, so that every share is needed
                free = [sv for sv in range(S) if sv not in set(s_ for (s_, h_) in new)]
                for sh, sv in zip(topup, free):
                    lib_imm.place(g, prep, {sh: [sv]})
                if len(free) < len(topup):
                    topup = None
            if topup is not None:
                rnode = g.clients[0].create_node_from_uri(prep["cap"])
                b2, cons = lib_imm.read(g, rnode)
                g.quiesce()
                mode = "new shares alone" if not topup else "new shares %r + pristine %r (exactly k)" % (sorted(newnums), topup)
                ok = bool(b2) and b2[0][0] == "ok" and cons.data() == prep["data"]
                obs["read"] = "ok" if ok else "fail"
                if not ok:
                    why = "hang" if not b2 else ("wrong bytes" if b2[0][0] == "ok" else lib_imm.failure_name(b2[0][1]))
                    viol.append(("file-unreadable-from-repaired-shares" if not topup else "repaired-share-unusable",
                                 "after check_and_repair(verify=%s) [%s] and deleting every pre-existing share, reading with the read-cap from %s fails: %s; state=%r" % (verify, obs.get("repair"), mode, why, state)))
        for e in boot.R.take_errors():
            viol.append(("exception-in-timer:" + type(e.value).__name__, e.getTraceback()[-400:]))
        obs["logged"] = sorted(set(type(f.value).__name__ for (why, f) in boot.take_logged()))
        obs["calls"] = g.sched.issued
        obs["calls_check"] = calls_check
    finally:
        g.close()
    return viol, obs


def execute_layout(case, seed):
    """part (c): arbitrary placements - several shares per server, the same share number on several
    servers, servers without shares; optionally ONE corrupt copy.  check(verify) and the pre-repair
    results of check_and_repair are judged against the placement."""
    F = FILES[case["file"]]
    k, n = F["k"], F["n"]
    prep = lib_imm.prepare(k, n, F["seg"], F["size"], seed)
    S, verify = case["S"], case["verify"]
    holders = case["layout"]                  # per share number: list of servers holding a copy
    bad_copy = tuple(case["corrupt"]) if case.get("corrupt") else None      # (server, shnum) holding a corrupt copy
    viol, obs = [], {}
    g = grid.Grid(S, client_kw=dict(k=k, n=n, happy=1, max_segment_size=F["seg"]))
    try:
        placement = {sh: list(svs) for sh, svs in enumerate(holders) if svs}
        blobs = {}
        if bad_copy:
            blobs[(bad_copy[0], bad_copy[1])] = lib_imm.damage(prep["shares"][bad_copy[1]], "corrupt-block0")
        if placement:
            lib_imm.place(g, prep, placement, blobs)
        ids = {g.ids[i]: i for i in range(S)}
        truth = {}
        for sh, svs in placement.items():
            for sv in svs:
                if verify and bad_copy == (sv, sh):
                    continue
                truth.setdefault(sh, set()).add(sv)
        vcap = tahoe_uri.from_string(prep["cap"]).get_verify_cap().to_string()

        def judge(cr, tag):
            sm = {sh: set(ids[s.get_serverid()] for s in servers) for sh, servers in cr.get_sharemap().items()}
            sm = {sh: v for sh, v in sm.items() if v}
            desc = "%s verify=%s layout(share->servers)=%r corrupt copy=%r" % (tag, verify, holders, bad_copy)
            if sm != truth:
                viol.append(("layout:sharemap-wrong", "%s: reported %r, good copies are %r" % (desc, {a: sorted(b) for a, b in sm.items()}, {a: sorted(b) for a, b in truth.items()})))
            good = len(truth)
            if cr.is_healthy() != (good == n):
                viol.append(("layout:healthy-flag-wrong", "%s: is_healthy()=%r with %d distinct good shares of N=%d" % (desc, cr.is_healthy(), good, n)))
            if cr.is_recoverable() != (good >= k):
                viol.append(("layout:recoverable-flag-wrong", "%s: is_recoverable()=%r with %d distinct good shares on %d servers, k=%d" % (desc, cr.is_recoverable(), good, len(set(sv for v in truth.values() for sv in v)), k)))
            if cr.get_share_counter_good() != good:
                viol.append(("layout:good-share-counter-wrong", "%s: count-shares-good=%r, distinct good shares=%d" % (desc, cr.get_share_counter_good(), good)))
            return good
        node = g.clients[0].create_node_from_uri(vcap)
        try:
            b = g.wait(node.check(Monitor(), verify=verify))
        except Exception as e:  # noqa
            viol.append(("layout:check-raised:" + type(e).__name__, "layout=%r: %r" % (holders, e)))
            return viol, obs
        g.quiesce()
        if not b:
            viol.append(("check-never-completes", "layout=%r verify=%s" % (holders, verify)))
            return viol, obs
        if b[0][0] != "ok":
            viol.append(("layout:check-errback:" + lib_imm.failure_name(b[0][1]), "check(verify=%s) failed: %s; layout=%r" % (verify, b[0][1].getErrorMessage()[:300], holders)))
            return viol, obs
        good = judge(b[0][1], "check")
        obs["check"] = (good, b[0][1].is_healthy(), b[0][1].is_recoverable())
        # check_and_repair: pre-repair verdict, and the file must be readable afterwards when it was recoverable
        node2 = g.clients[0].create_node_from_uri(vcap)
        b = g.wait(node2.check_and_repair(Monitor(), verify=verify))
        g.quiesce()
        if not b:
            viol.append(("repair-never-completes", "layout=%r verify=%s" % (holders, verify)))
        elif b[0][0] != "ok":
            obs["repair"] = "err:" + lib_imm.failure_name(b[0][1])
            if good >= k and not bad_copy:
                viol.append(("layout:repair-failed-on-recoverable-file:" + lib_imm.failure_name(b[0][1]), "%s; layout=%r verify=%s" % (b[0][1].getErrorMessage()[:300], holders, verify)))
        else:
            crr = b[0][1]
            judge(crr.get_pre_repair_results(), "pre-repair")
            attempted = bool(crr.get_repair_attempted())
            obs["repair"] = "not-needed" if not attempted else ("success" if crr.get_repair_successful() else "unsuccessful")
            if attempted and crr.get_repair_successful():
                on_disk = set(int(p_.rsplit("/", 1)[1]) for (s_, p_) in g.share_files() if not p_.startswith("incoming"))
                if on_disk != set(range(n)):
                    viol.append(("repair-success-with-missing-shares", "layout=%r: share numbers %r exist after a 'successful' repair" % (holders, sorted(on_disk))))
        if good >= k:
            rnode = g.clients[0].create_node_from_uri(prep["cap"])
            b2, cons = lib_imm.read(g, rnode)
            g.quiesce()
            if not (b2 and b2[0][0] == "ok" and cons.data() == prep["data"]):
                viol.append(("layout:file-unreadable-after-repair", "layout=%r verify=%s repair=%r" % (holders, verify, obs.get("repair"))))
        for e in boot.R.take_errors():
            viol.append(("exception-in-timer:" + type(e.value).__name__, e.getTraceback()[-400:]))
        obs["logged"] = sorted(set(type(f.value).__name__ for (why, f) in boot.take_logged()))
        obs["calls"] = g.sched.issued
    finally:
        g.close()
    return viol, obs


def layout_cases(tier):
    out = []
    plans = [("F24", 2), ("F24", 3)] if tier == "quick" else [("F24", 2), ("F24", 3), ("F35", 2), ("F35", 3), ("F24", 4)]
    for fname, S in plans:
        n = FILES[fname]["n"]
        subsets = [[sv for sv in range(S) if m >> sv & 1] for m in range(1 << S)]
        if (fname, S) == ("F24", 4) or (fname, S) == ("F35", 3):
            subsets = [x for x in subsets if len(x) <= 2]
        if tier == "quick" and S == 3:
            subsets = [x for x in subsets if len(x) <= 1]      # quick: at most one copy per share number on 3 servers
        for layout in itertools.product(subsets, repeat=n):
            for verify in (False, True):
                out.append({"file": fname, "S": S, "layout": [list(x) for x in layout], "verify": verify})
            # one corrupt copy of a share that is stored twice (verify must not count it; the other copy stays good)
            dup = [(sh, svs) for sh, svs in enumerate(layout) if len(svs) >= 2]
            if dup and S <= 3 and fname == "F24":
                sh, svs = dup[0]
                out.append({"file": fname, "S": S, "layout": [list(x) for x in layout], "verify": True, "corrupt": [svs[0], sh]})
    return out


def _chunk(cases, seed):
    res = common.Result()
    for case in cases:
        if "layout" in case:
            viol, obs = execute_layout(case, seed)
            res.count("evaluations")
            res.count("layouts")
            res.count("remote_calls", obs.get("calls", 0))
            if sum(len(x) for x in case["layout"]) != len(set(sv for x in case["layout"] for sv in x)) or any(len(x) > 1 for x in case["layout"]):
                res.count("damaged_states")
            res.distinct.add(("layout", case["file"], case["verify"], obs.get("check"), obs.get("repair")))
            res.count("repair:" + str(obs.get("repair")))
            for nm in obs.get("logged", ()):
                res.count("logged-exception:" + nm)
            for sig, msg in viol:
                res.violation(sig, case, msg + " | case=%r" % (case,))
            continue
        viol, obs = execute(case, seed)
        res.count("evaluations")
        res.count("remote_calls", obs.get("calls", 0))
        st = case["state"]
        if any(s is not None for s in st):
            res.count("damaged_states")
        res.distinct.add((case["file"], case["verify"], obs.get("check"), obs.get("repair"), obs.get("new"), obs.get("good_after"), obs.get("read")))
        res.count("repair:" + str(obs.get("repair")))
        res.count("read:" + str(obs.get("read")))
        for kk in ("success_but_corrupt_left", "unsuccessful_but_all_good", "replaced_existing", "lease_changed", "incoming_left", "check_changed_disk"):
            if obs.get(kk):
                res.count("note:" + kk)
        for c in obs.get("corrupt_list", ()):
            res.count("corrupt-list:" + c)
        for nm in obs.get("logged", ()):
            res.count("logged-exception:" + nm)
        for sig, msg in viol:
            res.violation(sig, case, msg + " | case=%r" % (case,))
        if case["verify"] and st.count("missing") == 1 and sum(1 for s in st if s not in (None, "missing")) == 1 and len(res.samples) < 2:
            res.sample({"case": case, "check(good,healthy,recoverable)": obs.get("check"), "repair": obs.get("repair"), "new_shares": obs.get("new"), "read_from_repaired": obs.get("read")})
    return res


def subset_states(n, kinds):
    """every subset deleted x every subset of the rest corrupted with ONE kind"""
    out = []
    for dmask in range(1 << n):
        rest = [i for i in range(n) if not (dmask >> i) & 1]
        for r in range(len(rest) + 1):
            for C in itertools.combinations(rest, r):
                for kd in (kinds if C else [None]):
                    st = [None] * n
                    for i in range(n):
                        if (dmask >> i) & 1:
                            st[i] = "missing"
                    for i in C:
                        st[i] = kd
                    out.append(st)
    return out


def all_cases(tier, seed):
    cases = []
    for fname in ("F24", "F35"):
        n = FILES[fname]["n"]
        for st in subset_states(n, KINDS):
            for verify in (False, True):
                cases.append({"file": fname, "S": n, "state": st, "verify": verify})
    # the same through a read-cap node that has just read the file, for every state of deleted shares only
    for fname in ("F24", "F35"):
        n, k = FILES[fname]["n"], FILES[fname]["k"]
        for st in subset_states(n, []):
            if 0 < st.count("missing") <= n - k:
                for verify in (False, True):
                    cases.append({"file": fname, "S": n, "state": st, "verify": verify, "warm": True})
    if tier != "quick":
        for fname in ("F24", "F35"):
            n = FILES[fname]["n"]
            for st in subset_states(n, KINDS):
                for verify in (False, True):
                    cases.append({"file": fname, "S": n + 2, "state": st, "verify": verify})
        for fname in ("F24s", "F35s"):
            n = FILES[fname]["n"]
            for st in subset_states(n, ["corrupt-block0", "corrupt-blockhash", "corrupt-ueb"]):
                cases.append({"file": fname, "S": n, "state": st, "verify": True})
        # independent kinds per share, 2-of-4
        alphabet = [None, "missing"] + KINDS
        seen = set(tuple(c["state"]) for c in cases if c["file"] == "F24" and c["S"] == 4)
        for st in itertools.product(alphabet, repeat=4):
            if st in seen:
                continue
            for verify in (False, True):
                cases.append({"file": "F24", "S": 4, "state": list(st), "verify": verify})
        # every single-byte flip of one share under verify
        for fname in ("F24", "F35"):
            F = FILES[fname]
            prep = lib_imm.prepare(F["k"], F["n"], F["seg"], F["size"], seed)
            for victim in (0, F["n"] - 1):
                for pos in range(len(prep["shares"][victim])):
                    st = [None] * F["n"]
                    st[victim] = ["flip", pos]
                    cases.append({"file": fname, "S": F["n"], "state": st, "verify": True})
    else:
        # quick: every flip inside the validated fields of one 2-of-4 share, every 3rd elsewhere
        F = FILES["F24"]
        prep = lib_imm.prepare(F["k"], F["n"], F["seg"], F["size"], seed)
        for pos in range(len(prep["shares"][1])):
            if flip_class(prep, 1, pos) == "must-bad" and pos % 2 == 0 or pos % 9 == 0:
                st = [None] * 4
                st[1] = ["flip", pos]
                cases.append({"file": "F24", "S": 4, "state": st, "verify": True})
    return cases


def replay(case):
    viol, obs = (execute_layout if "layout" in case else execute)(case, boot.SEED)
    return viol


def run(tier, seed):
    cases = all_cases(tier, seed)
    lay = layout_cases(tier)
    cases = cases + lay
    res = common.pmap(_chunk, cases, (seed,), chunks=min(len(cases), 512))
    cov = {
        "evaluations": res.counts.get("evaluations", 0),
        "distinct_nontrivial": res.counts.get("damaged_states", 0),
        "exhaustive": True,
        "rule": "one evaluation = check + check_and_repair + read-from-repaired-shares on one damage state; non-trivial = states with at least one share deleted or corrupted; "
                "states: every (deleted subset, corrupted subset of the rest, one of %d kinds, verify) for 2-of-4 and 3-of-5%s" % (
                    len(KINDS), "" if tier == "quick" else ", on N and N+2 servers, single-segment variants, every independent per-share kind assignment (2-of-4), every single-byte flip of the first and last share under verify") + "; part (c): every assignment of a server subset to each share number (several shares per server, duplicated share numbers, empty servers) on 2..3 servers x verify, check and check_and_repair judged against the placement",
        "placement_layouts": res.counts.get("layouts", 0),
        "distinct_outcome_vectors": len(res.distinct),
        "repair_outcomes": {kk[7:]: v for kk, v in res.counts.items() if kk.startswith("repair:")},
        "read_outcomes": {kk[5:]: v for kk, v in res.counts.items() if kk.startswith("read:")},
        "counted_not_judged": {kk.replace("note:", ""): v for kk, v in res.counts.items() if kk.startswith("note:") or kk.startswith("corrupt-list:") or kk.startswith("logged-exception:")},
        "remote_calls": res.counts.get("remote_calls", 0),
    }
    return res, cov


MANIFEST = {
    "engine": "G",
    "technique": "exhaustive fault enumeration on real share files: every deleted subset x every corrupted subset x corruption kind x verify flag, through check / check_and_repair of a verify-cap-only node, judged against byte-level ground truth",
    "text": "For 2-of-4 and 3-of-5 files every combination of deleted and corrupted shares (six corruption kinds; thorough adds independent kinds per share, extra empty servers, single-segment files and every single-byte flip of a share) is materialised on real storage servers. The real Checker/Verifier and Repairer run from the verify-cap only; reported good shares, healthy/recoverable flags and counters are compared with a byte comparison against the original upload; after repair the pre-existing intact share files must be unchanged, every share written must equal the original encoding in all validated fields, and with all pre-existing shares deleted the file must read back from the repaired shares. Part (c): every assignment of a server subset to each share number (several shares per server, duplicated share numbers, empty servers) on 2..3 servers, with check, check_and_repair and a read judged against the placement.",
    "note": "Default delivery schedule on honest servers. Counted, not judged (statement silent): corrupt shares that the repairer leaves in place because the server claims to have them, lease renewals on existing shares, the list of corrupt shares.",
}
