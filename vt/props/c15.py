"""C15  Capability strings round-trip and parse canonically  (Engine E, exhaustive small scope).

(a) ROUND TRIP.  Every one of the 18 capability kinds (9 file kinds + 9 DIR2 wrappers) is
    built with the real constructors from every combination of the field alphabets
    (16-byte keys / 32-byte hashes in {00.., ff.., counting, seed-derived}; k, N, size in
    {0,1,3,10,255,256,2^32-1,2^32,2^64,10^30}; LIT data of length 0..9 and 55; and every field of
    every kind with each of the 32 possible first base32 characters), serialised,
    compared with an independent serialiser written from docs/specifications/uri.rst, parsed
    back through uri.from_string (bytes and str) and <Class>.init_from_string, and must come
    back as the same class, ==, with the same fields and the same string.
(b) MUTATION CLOSURE.  For three valid strings of every kind (counting / ff / seed-derived
    fields; the seed-derived one only bare) EVERY single edit is generated: append, insert at every position, delete at
    every position, replace at every position, each with every character of
    SIGMA = a 8 1 0 : - space \\n \\t A = %; every base32 field with every possible last
    character (+ some non-alphabet ones), lengths -1/+1/+2, upper-cased, '='-padded, emptied;
    every numeric field with leading 0 / 00 / + / - / _ / empty / non-ASCII digits / spaces /
    hex / exponent; prefixes ro. imm. and their doubled and mixed forms, case and spacing
    variants; `:`-separated extension fields (0..2, with newline, with non-ASCII bytes) on
    every kind; the body of every kind under the prefix of every other kind.  Each such
    string is evaluated bare and behind `ro.` and `imm.`.  thorough: the closure under TWO
    edits for the counting base of every kind: every string of the one-edit closure is edited
    again at every position (append/insert/delete/replace) with every character of SIGMA.
(c) SHORT STRINGS.  Every kind prefix followed by every string of length <= 3 (thorough 4)
    over 13 characters, and URI:LIT: / URI:DIR2-LIT: followed by every string of length <= 6
    (thorough 8) over {a,y,7,2} whose last character ranges over the whole base32 alphabet (exhaustive check
    of the non-canonical-tail rule for every length class).

(d) GLUED STRINGS.  For every ordered pair of valid capabilities A, B of the 18 kinds: A+B, A+":"+B,
    prefix(A)+B, prefix(A)+"junk:"+B, prefix(A)+":"+B.

Oracle (no more than the statement): a string accepted as a known kind must lie in the
reference grammar (strict: canonical base32, canonical decimal, nothing after the last
field except MDMF extension fields, one optional ro./imm. prefix), must be accepted as the
kind its prefix names with exactly the fields the reference reads, and must re-serialise to
itself minus prefix and MDMF extension.  An unprefixed string inside the grammar must be
accepted (it IS the serialisation of a capability object).  Whether a *prefixed* valid
string is accepted is C16's business and only counted here.
"""
import itertools

from allmydata import uri
from .. import common
from .. import lib_caps as L

LEVEL = "exploration"
ASSUMPTIONS = [
    "small scope: field values from {00.., ff.., counting, seed-derived}; the parser is regex + base32 decode, uniform in the field values",
    "mutations: closure under ONE edit (thorough: TWO edits for one base string per kind) from the stated 12-character alphabet plus the field/prefix/extension catalogue; strings further than that from a valid capability are only covered by the exhaustive short-string families",
    "a single leading ro./imm. prefix is stripped by from_string by design; re-serialisation is compared with the string minus that prefix",
    "MDMF extension = anything after a ':' that follows the fingerprint (test_uri.test_mdmf_cap_ignore_extensions appends arbitrary bytes)",
]

SIGMA = [b"a", b"8", b"1", b"0", b":", b"-", b" ", b"\n", b"\t", b"A", b"=", b"%"]
SHORT_SIGMA = [b"a", b"y", b"q", b"7", b"8", b"0", b"1", b":", b"-", b"\n", b" ", b"A", b"="]


# ------------------------------------------------------------------ real objects
def make_obj(kindname, fields):
    k = L.KINDS[kindname]
    if k.is_dir:
        return getattr(uri, k.cls)(make_obj(k.inner, fields))
    cls = getattr(uri, k.cls)
    if k.layout == "lit":
        return cls(fields[0])
    return cls(*fields)


def file_cap_of(u):
    return u.get_filenode_cap() if isinstance(u, uri._DirectoryBaseURI) else u


def get_fields(u):
    f = file_cap_of(u)
    if isinstance(f, uri.LiteralFileURI):
        return (f.data,)
    if isinstance(f, uri.CHKFileURI):
        return (f.key, f.uri_extension_hash, f.needed_shares, f.total_shares, f.size)
    if isinstance(f, uri.CHKFileVerifierURI):
        return (f.storage_index, f.uri_extension_hash, f.needed_shares, f.total_shares, f.size)
    if isinstance(f, (uri.WriteableSSKFileURI, uri.WriteableMDMFFileURI)):
        return (f.writekey, f.fingerprint)
    if isinstance(f, (uri.ReadonlySSKFileURI, uri.ReadonlyMDMFFileURI)):
        return (f.readkey, f.fingerprint)
    return (f.storage_index, f.fingerprint)


# ------------------------------------------------------------------ (a) round trip
def check_roundtrip(kindname, fields):
    """-> (list of (sig, msg), number of parser evaluations)"""
    fields = tuple(fields)
    k = L.KINDS[kindname]
    out = []
    n = 0
    try:
        o = make_obj(kindname, fields)
        s = o.to_string()
    except Exception as e:  # noqa
        return [("serialize-raises:%s" % type(e).__name__, "%s%r: %r" % (kindname, fields, e))], 1
    want = L.build(kindname, fields)
    if s != want:
        out.append(("serialize-differs-from-spec", "%s%r.to_string() = %r, uri.rst says %r" % (k.cls, fields, s, want)))
        return out, 1
    parsers = [("from_string", uri.from_string, s),
               ("from_string(str)", uri.from_string, s.decode("ascii")),
               ("init_from_string", getattr(uri, k.cls).init_from_string, s)]
    for pname, parser, arg in parsers:
        n += 1
        try:
            o2 = parser(arg)
        except Exception as e:  # noqa
            out.append(("roundtrip-raises:%s" % type(e).__name__, "%s(%r) raised %r" % (pname, arg, e)))
            continue
        if type(o2) is not type(o):
            out.append(("roundtrip-kind-changed", "%s(%r) is a %s, the object serialised was a %s" % (pname, arg, type(o2).__name__, k.cls)))
        elif not (o2 == o) or (o2 != o) or hash(o2) != hash(o):
            out.append(("roundtrip-not-equal", "%s(%r) != the %s it was serialised from (==:%r !=:%r)" % (pname, arg, k.cls, o2 == o, o2 != o)))
        elif o2.to_string() != s:
            out.append(("roundtrip-not-fixed-point", "%s(%r).to_string() = %r" % (pname, arg, o2.to_string())))
        elif get_fields(o2) != fields:
            out.append(("roundtrip-fields-differ", "%s(%r) has fields %r, serialised from %r" % (pname, arg, get_fields(o2), fields)))
    return out, n


def roundtrip_cases(tier, seed):
    keys = L.patterns(16, seed, b"key")
    hashes = L.patterns(32, seed, b"hash")
    if tier == "thorough":
        kh = list(itertools.product(keys, hashes))
    else:
        kh = list(zip(keys, hashes)) + [(keys[0], hashes[1]), (keys[1], hashes[0])]
    lits = [L.seeded(b"lit", seed, n) for n in list(range(0, 10)) + [55]] + [b"\x00" * 5, b"\xff" * 5, b"\x00", b"\xff", b"hello"]
    cases = []
    for name in L.KIND_NAMES:
        lay = L.KINDS[name].layout
        if lay == "lit":
            for d in lits:
                cases.append((name, (d,)))
        elif lay == "chk":
            for (key, h) in kh:
                for (a, b, c) in itertools.product(L.NUMBERS, repeat=3):
                    cases.append((name, (key, h, a, b, c)))
        else:
            for (key, h) in itertools.product(keys, hashes):
                cases.append((name, (key, h)))
    # every FIRST and every LAST base32 character of every field: the first 5 bits of each field take all 32
    # values (the field then starts with each letter of the alphabet, also the ones occurring in the kind
    # prefixes), the last byte takes the values that give every canonical tail character
    for name in L.KIND_NAMES:
        lay = L.KINDS[name].layout
        for v in range(32):
            key = bytes([v << 3]) + keys[2][1:-1] + bytes([(v * 8 + 1) & 0xff])
            h = bytes([v << 3 | 1]) + hashes[2][1:-1] + bytes([(v * 8 + 3) & 0xff])
            if lay == "lit":
                cases.append((name, (bytes([v << 3]) + b"lit",)))
                cases.append((name, (bytes([v << 3]),)))
            elif lay == "chk":
                cases.append((name, (key, hashes[2], 3, 10, 1000)))
                cases.append((name, (keys[2], h, 3, 10, 1000)))
            else:
                cases.append((name, (key, hashes[2])))
                cases.append((name, (keys[2], h)))
    return cases


# ------------------------------------------------------------------ (b)/(c) one string
def check_string(s):
    """-> (outcome label, list of (sig, msg))"""
    pfx, body = L.split_alleged(s)
    ref = L.parse(body)
    try:
        u = uri.from_string(s)
    except Exception as e:  # noqa
        where = "a string of the grammar" if ref is not None else "a string outside the grammar (must be reported as unknown)"
        return "raised", [("raises:%s" % type(e).__name__, "from_string(%r) raised %r on %s" % (s, e, where))]
    if isinstance(u, uri.UnknownURI):
        if ref is not None and not pfx:
            return "rejected-valid", [("rejects-valid:%s" % ref.kind.inner,
                                       "from_string(%r) -> UnknownURI (error %r) but the string is a well-formed %s cap" % (s, u.get_error(), ref.kind.name))]
        if ref is not None:
            return "unknown:prefixed-valid", []
        return "unknown", []
    got_cls = type(u).__name__
    try:
        back = u.to_string()
    except Exception as e:  # noqa
        return "accepted", [("to_string-raises:%s" % type(e).__name__, "from_string(%r) -> %s whose to_string() raised %r" % (s, got_cls, e))]
    if ref is None:
        feats, k = L.classify_acceptance(body)
        sig = "accepts-" + "+".join(feats)
        if "trailing-garbage" in feats or "out-of-grammar" in feats:
            sig += ":" + (k.inner if k is not None else "none")
        named = k.name if k is not None else "no known kind"
        return "accepted:" + "+".join(feats), [(sig, "from_string(%r) -> %s which re-serialises to %r; the input is not a well-formed %s capability (%s) and is not what the object serialises to"
                                                   % (s, got_cls, back, named, ", ".join(feats)))]
    if got_cls != ref.kind.cls:
        return "accepted", [("misread-as-different-kind", "from_string(%r) -> %s, the prefix names %s (%s)" % (s, got_cls, ref.kind.name, ref.kind.cls))]
    if back != ref.canonical:
        return "accepted", [("reserialize-differs", "from_string(%r).to_string() = %r, expected %r" % (s, back, ref.canonical))]
    if get_fields(u) != ref.fields:
        return "accepted", [("fields-misread", "from_string(%r) has fields %r, the string says %r" % (s, get_fields(u), ref.fields))]
    if ref.extension is not None:
        return "accepted:mdmf-extension-dropped", []
    return ("accepted:prefix-stripped" if pfx else "accepted"), []


# ------------------------------------------------------------------ string generators
def generic_edits(s, sigma=SIGMA):
    for c in sigma:
        yield s + c
    for i in range(len(s) + 1):
        for c in sigma:
            yield s[:i] + c + s[i:]
    for i in range(len(s)):
        yield s[:i] + s[i + 1:]
    for i in range(len(s)):
        for c in sigma:
            yield s[:i] + c + s[i + 1:]


def field_edits(kindname, s):
    k = L.KINDS[kindname]
    body = s[len(k.prefix):]
    toks = body.split(b":")

    def rebuilt(i, new):
        t = list(toks)
        t[i] = new
        return k.prefix + b":".join(t)
    nb32 = 1 if k.layout == "lit" else 2
    for i in range(nb32):
        t = toks[i]
        for c in L.B32 + b"A=1089":
            yield rebuilt(i, t[:-1] + bytes([c]))
        for new in (t[:-1], t[:-2], t + b"a", t + b"y", t + b"aa", t + b"ay", t.upper(), t + b"=", t + b"======",
                    b"", t[:8], t + t, t[::-1], b"\n" + t, t + b"\n"):
            yield rebuilt(i, new)
    if k.layout == "chk":
        for i in (2, 3, 4):
            t = toks[i]
            us = t[:1] + b"_" + t[1:] if len(t) > 1 else t + b"_0"
            for new in (b"0" + t, b"00" + t, b"+" + t, b"-" + t, us, b"", "٣".encode(), "１".encode() + t,
                        b" " + t, t + b" ", b"0x1f", b"1e3", t + b".0", t + b"L", b"0", b"00", t + b"\n", b"\n" + t,
                        b"1" + b"0" * 40, b"0" * 40 + t):
                yield rebuilt(i, new)


def whole_string_edits(kindname, s):
    k = L.KINDS[kindname]
    body = s[len(k.prefix):]
    for p in (b"ro.", b"imm.", b"ro.imm.", b"imm.ro.", b"ro.ro.", b"imm.imm.", b"RO.", b"IMM.", b"ro", b"imm", b".",
              b" ", b"\n", b"ro. ", b"URI:", b"x-"):
        yield p + s
    yield s[4:]
    yield s.lower()
    yield s.upper()
    yield b"uri:" + s[4:]
    yield k.prefix[:-1] + body          # prefix without its colon
    yield k.prefix + b":" + body
    yield k.prefix.replace(b"-", b"_") + body
    for ext in (b":", b":ext", b":1:2", b":\n", b"::", b":ext\n", b":\xff\xfe", b":" + b"x" * 300, b":3:10:100",
                b"\n:ext", b" :ext", b"\r\n", b"\n\n", b"\x00", b"\r", b"\x0b", b"\x0c", b"\x85", b"\xc2\x85", b"\xe2\x80\xa8"):
        yield s + ext
    for other in L.KIND_NAMES:
        if other != kindname:
            yield L.KINDS[other].prefix + body


def base_fields(layout, which, seed):
    if which == "counting":
        key, h, nums, lit = bytes(range(1, 17)), bytes(range(1, 33)), (3, 10, 1000), b"hello world"
    elif which == "ff":
        key, h, nums, lit = b"\xff" * 16, b"\xff" * 32, (255, 256, 2 ** 64), b"\xff" * 5
    else:
        key, h, nums, lit = L.seeded(b"mk", seed, 16), L.seeded(b"mh", seed, 32), (3, 10, 12345), L.seeded(b"ml", seed, 7)
    if layout == "lit":
        return (lit,)
    if layout == "chk":
        return (key, h) + nums
    return (key, h)


def single_edit_closure(kindname, base):
    for g in (generic_edits(base), field_edits(kindname, base), whole_string_edits(kindname, base)):
        for m in g:
            yield m
    yield base


def short_strings(tier):
    n = 4 if tier == "thorough" else 3
    for name in L.KIND_NAMES:
        p = L.KINDS[name].prefix
        for ln in range(0, n + 1):
            for t in itertools.product(SHORT_SIGMA, repeat=ln):
                yield p + b"".join(t)
    lastchars = [bytes([c]) for c in L.B32 + b"A=18"]
    maxlen = 8 if tier == "thorough" else 6
    for name in ("LIT", "DIR2-LIT"):
        p = L.KINDS[name].prefix
        for ln in range(1, maxlen + 1):
            for t in itertools.product([b"a", b"y", b"7", b"2"], repeat=ln - 1):
                head = p + b"".join(t)
                for c in lastchars:
                    yield head + c


# ------------------------------------------------------------------ workers
def _chunk(chunk):
    """items: ("rt", kind, fields) | ("fixed"|"seeded", string)"""
    res = common.Result()
    for item in chunk:
        if item[0] == "rt":
            bad, n = check_roundtrip(item[1], item[2])
            res.count("evaluations", n)
            res.count("roundtrip_caps")
            for sig, msg in bad:
                res.violation(sig, {"t": "rt", "kind": item[1], "fields": list(item[2])}, msg)
            continue
        s = item[1]
        outcome, bad = check_string(s)
        res.count("evaluations")
        res.count("out:" + outcome)
        if item[0] == "fixed" and L.kind_of_prefix(L.split_alleged(s)[1]) is not None:
            res.count("nontrivial")
        for sig, msg in bad:
            res.violation(sig, {"t": "s", "s": s}, msg)
    return res


def _double_chunk(chunk):
    """chunk: strings that are one edit away from a valid cap; evaluate every edit of each"""
    res = common.Result()
    for m1 in chunk:
        for m2 in generic_edits(m1):
            outcome, bad = check_string(m2)
            res.count("evaluations")
            res.count("double_edit_evaluations")
            res.count("out:" + outcome)
            for sig, msg in bad:
                res.violation(sig, {"t": "s", "s": m2}, msg)
    return res


def replay(case):
    if case["t"] == "rt":
        return check_roundtrip(case["kind"], tuple(case["fields"]))[0]
    return check_string(case["s"])[1]


def _shortest_first(res):
    """reorder so that the first violations written out are one per signature, shortest input first"""
    def size(v):
        c = v["case"]
        return len(c["s"]["$b"]) if c.get("t") == "s" else 0
    by = {}
    for v in sorted(res.violations, key=lambda v: (size(v), repr(v["case"]))):
        by.setdefault(v["sig"], []).append(v)
    order = []
    for rank in range(max([len(x) for x in by.values()] or [0])):
        for sig in sorted(by):
            if rank < len(by[sig]):
                order.append(by[sig][rank])
    res.violations = order


def run(tier, seed):
    L.selfcheck()
    # (a)
    rt = roundtrip_cases(tier, seed)
    # (b) + (c)
    fixed = set()
    first_level = []
    for name in L.KIND_NAMES:
        lay = L.KINDS[name].layout
        for which in ("counting", "ff"):
            base = L.build(name, base_fields(lay, which, seed))
            ms = set(single_edit_closure(name, base))
            if which == "counting":
                first_level.extend(sorted(ms))
            for m in ms:
                fixed.add(m)
                fixed.add(b"ro." + m)
                fixed.add(b"imm." + m)
    fixed.update(short_strings(tier))
    # (d) GLUED strings: for every ordered pair of valid capabilities A (kind a), B (kind b):  A + B,
    # A + ":" + B, prefix(a) + B, prefix(a) + "junk:" + B  - a parser that anchors its pattern only at the
    # end of the string reads the tail and forgets the rest
    bases = {name: L.build(name, base_fields(L.KINDS[name].layout, "counting", seed)) for name in L.KIND_NAMES}
    glued = set()
    for a_name, A in bases.items():
        pa = L.KINDS[a_name].prefix
        for b_name, B in bases.items():
            for g in (A + B, A + b":" + B, pa + B, pa + b"junk:" + B, pa + b":" + B):
                glued.add(g)
    glued -= set(bases.values())
    fixed.update(glued)
    fixed = sorted(fixed, key=lambda s: (len(s), s))
    seeded = []
    for name in L.KIND_NAMES:
        base = L.build(name, base_fields(L.KINDS[name].layout, "seeded", seed))
        seeded.extend(single_edit_closure(name, base))
    items = [("fixed", s) for s in fixed] + [("rt", n, f) for (n, f) in rt] + [("seeded", s) for s in seeded]
    res = common.pmap(_chunk, items)
    spaces = ["%d capability objects round-tripped" % len(rt),
              "%d distinct strings = single-edit closure of 2 fixed bases x 18 kinds, bare and behind ro./imm., + short-string families + %d glued strings (two valid capabilities, or a kind prefix and a valid capability, concatenated)" % (len(fixed), len(glued)),
              "%d strings from the single-edit closure of the seed-derived base (not de-duplicated, not counted as distinct)" % len(seeded)]
    if tier == "thorough":
        res.merge(common.pmap(_double_chunk, first_level, chunks=common.NWORKERS * 16))
        spaces.append("every generic edit (alphabet SIGMA) of each of the %d single-edit strings of the counting base (two-edit closure)" % len(first_level))
    _shortest_first(res)
    for s in (fixed[len(fixed) // 2], fixed[-1]):
        res.sample({"string": s, "outcome": check_string(s)[0]})
    outcomes = {k[4:]: v for k, v in res.counts.items() if k.startswith("out:")}
    cov = {
        "evaluations": res.counts.get("evaluations", 0),
        "distinct_nontrivial": res.counts.get("nontrivial", 0) + res.counts.get("roundtrip_caps", 0),
        "rule": "non-trivial = a distinct string that, after at most one ro./imm. prefix, starts with one of the 18 URI:<kind>: prefixes (so it reaches a per-kind parser, not the catch-all), plus each distinct capability object round-tripped; enumerated: " + "; ".join(spaces),
        "exhaustive": True,
        "distinct_outcomes": len(outcomes),
        "outcomes": outcomes,
    }
    return res, cov


MANIFEST = {
    "engine": "E",
    "technique": "exhaustive small-scope enumeration: every capability kind over field alphabets, and the complete one-edit (thorough: two-edit) neighbourhood of valid strings, against an independent strict grammar",
    "text": "Every capability kind is built from every combination of small field alphabets and round-tripped through the real serialiser and parsers; every string one edit (thorough: two edits) away from a valid capability, a catalogue of field/prefix/extension malformations, and all short strings after every kind prefix are parsed by the real uri.from_string and compared with a strict reference grammar written from docs/specifications/uri.rst (canonical base32, canonical decimals, nothing after the last field). Every field of every kind also takes each of the 32 possible first base32 characters.",
    "note": "Small scope only: says nothing about strings more than two edits away from a valid capability other than the short-string families. Trusted: the reference parser in vt/lib_caps.py (its base32 is cross-checked against the stdlib and the uri.rst examples).",
}
