"""C43  Node and capability identity is consistent  (Engine E, exhaustive pairs).

Objects: every one of the 18 capability kinds x V key values (quick 2, thorough 4), each
built TWICE independently (once with the constructor, once by parsing its string), as raw
URI objects and wrapped in every node class that exists for the kind:
  ImmutableFileNode (CHK), LiteralFileNode (LIT), MutableFileNode via init_from_cap (SSK,
  SSK-RO, MDMF, MDMF-RO), DirectoryNode over each of the six directory-capable file nodes,
  UnknownNode (future caps in the ro slot, in both slots, alleged-immutable, verify-caps that
  have no node class, error-carrying opaque nodes), and - counted only - CiphertextFileNode
  and UnknownURI.
Enumerated: EVERY ordered pair (a, b) of these objects, including (a, a).

Oracle = the statement.  identity(x) = (class, capability string) where the capability
string is to_string() for URI objects, get_uri() for nodes, and for UnknownNode additionally
the (write uri, read uri) pair.
  * identity(a) == identity(b)            =>  a == b
  * capability strings differ             =>  not (a == b)
  * (a != b) is exactly not (a == b)
  * a == b (in particular a is b)         =>  hash(a), hash(b) do not raise and are equal
Pairs of different classes always have different capability strings here, so the "same
wrapper class" refinement of DESIGN.md is never needed.  CiphertextFileNode has no
capability-string accessor (no get_uri/get_cap) and UnknownURI is by definition not a
capability of a known kind: the statement is silent, their behaviour is only counted.
"""
from allmydata import uri
from allmydata.nodemaker import NodeMaker
from allmydata.immutable.filenode import ImmutableFileNode, CiphertextFileNode
from allmydata.immutable.literal import LiteralFileNode
from allmydata.mutable.filenode import MutableFileNode
from allmydata.dirnode import DirectoryNode
from allmydata.unknown import UnknownNode
from .. import common
from .. import lib_caps as L

LEVEL = "exploration"
ASSUMPTIONS = [
    "small scope: 2 (thorough 4) key/fingerprint values per kind; __eq__/__ne__/__hash__ only look at the capability string, never at its magnitude",
    "nodes are built directly (collaborators None) as nodemaker.NodeMaker builds them; no grid is involved in comparison",
    "CiphertextFileNode (no capability-string accessor) and UnknownURI (not a known capability) are outside the statement: counted, never flagged",
]

SILENT = ("CiphertextFileNode", "UnknownURI")
ENC = {"k": 3, "n": 10}


def fields_for(layout, v, seed):
    keys = L.patterns(16, seed, b"c43k")
    hashes = L.patterns(32, seed, b"c43h")
    order = [2, 3, 0, 1]            # counting, seed-derived, 00, ff
    key, h = keys[order[v]], hashes[order[v]]
    if layout == "lit":
        return (key[:5 + v],)
    if layout == "chk":
        return (key, h, 3, 10, 1000 + v)
    return (key, h)


# kinds that can be DERIVED from a stronger capability of the same object (how == 2): the derived
# object names the same file/directory as its parent but has a different capability string
DERIVED_FROM = {"SSK-RO": "SSK", "MDMF-RO": "MDMF", "DIR2-RO": "DIR2", "DIR2-MDMF-RO": "DIR2-MDMF",
                "SSK-Verifier": "SSK", "MDMF-Verifier": "MDMF", "DIR2-Verifier": "DIR2", "CHK-Verifier": "CHK"}


def make_uri(kindname, fields, how):
    k = L.KINDS[kindname]
    if how == 2:
        parent = make_uri(DERIVED_FROM[kindname], fields_for_parent(kindname, fields), 0)
        return parent.get_verify_cap() if kindname.endswith("Verifier") else parent.get_readonly()
    if how == 1:
        return uri.from_string(L.build(kindname, fields))
    if k.is_dir:
        return getattr(uri, k.cls)(make_uri(k.inner, fields, 0))
    cls = getattr(uri, k.cls)
    return cls(fields[0]) if k.layout == "lit" else cls(*fields)


def fields_for_parent(kindname, fields):
    return fields


def filenode_for(cap):
    if isinstance(cap, uri.CHKFileURI):
        return ImmutableFileNode(cap, None, None, None, None)
    if isinstance(cap, uri.LiteralFileURI):
        return LiteralFileNode(cap)
    if isinstance(cap, uri.CHKFileVerifierURI):
        return CiphertextFileNode(cap, None, None, None, None)
    return MutableFileNode(None, None, ENC, None).init_from_cap(cap)


FILE_NODE_KINDS = ("CHK", "LIT", "SSK", "SSK-RO", "MDMF", "MDMF-RO", "CHK-Verifier")
DIR_NODE_KINDS = ("DIR2", "DIR2-RO", "DIR2-CHK", "DIR2-LIT", "DIR2-MDMF", "DIR2-MDMF-RO")
# (label, rw template, ro template, deep_immutable); %d = value index
UNKNOWN_SHAPES = [
    ("future-ro", None, b"ro.x-tahoe-crazy://ro-%d", False),
    ("future-imm", None, b"imm.x-tahoe-crazy://imm-%d", False),
    ("future-rw+ro", b"x-tahoe-crazy://rw-%d", b"x-tahoe-crazy://ro-%d", False),
    ("future-samerw-otherro", b"x-tahoe-crazy://rw-%d", b"x-tahoe-crazy://other-ro-%d", False),
    ("future-imm-deep", None, b"imm.x-tahoe-crazy://imm-%d", True),
    ("opaque-error", b"x-tahoe-crazy://rw-only-%d", None, False),
]


def describe(spec):
    return "%s[%s v%d #%d%s]" % (spec["wrap"], spec["kind"], spec["v"], spec["how"],
                                 "" if spec.get("nm") is None else " near-miss field %d" % spec["nm"])


def build(spec, seed):
    """spec = {wrap, kind, v, how}; -> real object"""
    wrap, kind, v, how = spec["wrap"], spec["kind"], spec["v"], spec["how"]
    if wrap == "UnknownNode":
        for (label, rw, ro, deep) in UNKNOWN_SHAPES:
            if label == kind:
                return UnknownNode(rw % v if rw else None, ro % v if ro else None, deep_immutable=deep)
        # a verify-cap of a known kind: no node class exists, the node maker wraps it as unknown
        s = L.build(kind, fields_for(L.KINDS[kind].layout, v, seed))
        return UnknownNode(None, s)
    if wrap == "UnknownURI":
        return uri.from_string(b"x-tahoe-crazy://%d" % v)
    k = L.KINDS[kind]
    fields = fields_for(L.KINDS[DERIVED_FROM[kind]].layout if how == 2 else k.layout, v, seed)
    if spec.get("nm") is not None:
        # NEAR MISS: the capability of value v with exactly ONE field taken from value v+1 (same key
        # but another hash / k / N / size, or same hash but another key): a different capability string
        j, alt = spec["nm"], fields_for(k.layout, v + 1, seed)
        fields = list(fields)
        fields[j] = alt[j] if alt[j] != fields[j] else fields[j] + 1
        fields = tuple(fields)
    cap = make_uri(kind, fields, how)
    if wrap == "uri":
        return cap
    if wrap == "file":
        return filenode_for(cap)
    if wrap == "dir":
        nm = NodeMaker(None, None, None, None, None, ENC, None, None)
        return DirectoryNode(filenode_for(cap.get_filenode_cap()), nm, None)
    raise ValueError(wrap)


def identity(x):
    """(class name, capability string, extra) per the statement"""
    cls = type(x).__name__
    if isinstance(x, UnknownNode):
        return cls, x.get_uri(), (x.get_write_uri(), x.get_readonly_uri())
    if isinstance(x, CiphertextFileNode):
        return cls, x.get_verify_cap().to_string(), None
    if hasattr(x, "get_uri"):
        return cls, x.get_uri(), None
    return cls, x.to_string(), None


def specs(nvalues):
    out = []
    for v in range(nvalues):
        for how in (0, 1):
            for name in L.KIND_NAMES:
                out.append({"wrap": "uri", "kind": name, "v": v, "how": how})
            for name in FILE_NODE_KINDS:
                out.append({"wrap": "file", "kind": name, "v": v, "how": how})
            for name in DIR_NODE_KINDS:
                out.append({"wrap": "dir", "kind": name, "v": v, "how": how})
            for (label, _rw, _ro, _d) in UNKNOWN_SHAPES:
                out.append({"wrap": "UnknownNode", "kind": label, "v": v, "how": how})
            for name in ("SSK-Verifier", "MDMF-Verifier", "DIR2-Verifier"):
                out.append({"wrap": "UnknownNode", "kind": name, "v": v, "how": how})
            out.append({"wrap": "UnknownURI", "kind": "-", "v": v, "how": how})
        if v == 0:
            for name in L.KIND_NAMES:
                lay = L.KINDS[name].layout
                if lay == "lit":
                    continue
                for j in range(5 if lay == "chk" else 2):
                    out.append({"wrap": "uri", "kind": name, "v": v, "how": 0, "nm": j})
                    if name in FILE_NODE_KINDS:
                        out.append({"wrap": "file", "kind": name, "v": v, "how": 0, "nm": j})
                    if name in DIR_NODE_KINDS:
                        out.append({"wrap": "dir", "kind": name, "v": v, "how": 0, "nm": j})
        # derived forms: the read-cap / verify-cap OF the write-/read-cap object with the same value index
        for name in DERIVED_FROM:
            if name in L.KIND_NAMES:
                out.append({"wrap": "uri", "kind": name, "v": v, "how": 2})
            if name in FILE_NODE_KINDS:
                out.append({"wrap": "file", "kind": name, "v": v, "how": 2})
            if name in DIR_NODE_KINDS:
                out.append({"wrap": "dir", "kind": name, "v": v, "how": 2})
    return out


def check_pair(sa, sb, seed, same_object=False):
    """-> (list of (sig, msg), label)"""
    a = build(sa, seed)
    b = a if same_object else build(sb, seed)
    ida, idb = identity(a), identity(b)
    cls = ida[0]
    bad = []
    where = "a=%s cap=%r, b=%s cap=%r%s" % (describe(sa), ida[1], describe(sb), idb[1], " (the same object)" if same_object else "")
    try:
        eq = (a == b)
        ne = (a != b)
    except Exception as e:  # noqa
        return [("%s:compare-raises:%s" % (cls, type(e).__name__), "== / != raised %r; %s" % (e, where))], "raised"
    if cls in SILENT or idb[0] in SILENT:
        return [], "silent:%s" % ("eq" if eq else "ne")
    if ida == idb:
        want = True
    elif ida[1] != idb[1] or ida[0] != idb[0]:
        want = False
    else:
        want = None     # same class and get_uri(), other (write, read) pair: the statement is silent
    if eq is not True and eq is not False:
        bad.append(("%s:eq-not-bool" % cls, "a == b returned %r; %s" % (eq, where)))
    if want is True and not eq:
        bad.append(("%s:equal-caps-compare-unequal" % cls, "two %s objects with the same capability string compare unequal (a == b -> %r); %s" % (cls, eq, where)))
    if want is False and eq:
        bad.append(("%s:different-caps-compare-equal" % cls, "objects with different capability strings compare equal; %s" % where))
    if bool(ne) != (not bool(eq)):
        bad.append(("%s:ne-is-not-negation-of-eq" % cls, "a == b -> %r but a != b -> %r; %s" % (eq, ne, where)))
    hs = []
    for name, x in (("a", a), ("b", b)):
        try:
            hs.append(hash(x))
        except Exception as e:  # noqa
            hs.append(None)
            if name == "a" and eq:
                bad.append(("%s:hash-raises:%s" % (cls, type(e).__name__),
                            "hash(a) raised %r although a == a is %r: equal objects cannot hash equally; %s" % (e, a == a, where)))
    if eq and hs[0] is not None and hs[1] is not None and hs[0] != hs[1]:
        bad.append(("%s:equal-objects-hash-differently" % cls, "a == b but hash(a)=%r hash(b)=%r; %s" % (hs[0], hs[1], where)))
    label = "want-%s:got-%s" % ({True: "eq", False: "ne", None: "any"}[want], "eq" if eq else "ne")
    return bad, label


def _chunk(chunk, allspecs, seed):
    res = common.Result()
    for (i, j) in chunk:
        bad, label = check_pair(allspecs[i], allspecs[j], seed, same_object=(i == j))
        res.count("evaluations")
        res.count("out:" + label)
        if i != j:
            res.count("nontrivial")
        for sig, msg in bad:
            res.violation(sig, {"a": allspecs[i], "b": allspecs[j], "same_object": i == j, "seed": seed}, msg)
    return res


def replay(case):
    return check_pair(case["a"], case["b"], case["seed"], same_object=case["same_object"])[0]


def run(tier, seed):
    L.selfcheck()
    nvalues = 4 if tier == "thorough" else 2
    allspecs = specs(nvalues)
    n = len(allspecs)
    # simplest first: equal-cap pairs of the same spec family come early because specs are ordered v, how, kind
    pairs = [(i, j) for i in range(n) for j in range(n)]
    res = common.pmap(_chunk, pairs, (allspecs, seed))
    classes = sorted(set(identity(build(s, seed))[0] for s in allspecs))
    res.sample({"a": describe(allspecs[0]), "b": describe(allspecs[n // 2]), "identity_a": list(identity(build(allspecs[0], seed))[:2])})
    res.sample({"object_classes": classes})
    outcomes = {k[4:]: v for k, v in res.counts.items() if k.startswith("out:")}
    cov = {
        "evaluations": res.counts.get("evaluations", 0),
        "distinct_nontrivial": res.counts.get("nontrivial", 0),
        "exhaustive": True,
        "objects": n,
        "object_classes": len(classes),
        "distinct_outcomes": len(outcomes),
        "outcomes": outcomes,
        "rule": "every ordered pair of %d independently built objects (18 cap kinds x %d values x 2 constructions as URI objects; 7 file-node, 6 directory-node, 9 unknown-node shapes, 1 unknown URI each x values x 2); non-trivial = the two operands are different objects" % (n, nvalues),
    }
    return res, cov


MANIFEST = {
    "engine": "E",
    "technique": "exhaustive enumeration of all ordered pairs of capability and node objects over a small value alphabet, compared with the identity relation on capability strings",
    "text": "Every capability kind with several key values is built twice independently, bare and wrapped in every node class (immutable, literal, mutable, directory, unknown); every ordered pair is compared with ==, != and hash() on the real classes and the results are checked against equality of the capability strings. The universe also holds NEAR MISSES (the value-0 capability of every kind with exactly one field - key, hash, k, N or size - taken from another value, bare and as file/directory node) and DERIVED forms: the read-cap / verify-cap of the write-/read-cap object with the same value index, as URI, file node and directory node.",
    "note": "Small scope (2-4 values per kind). CiphertextFileNode and UnknownURI compare by object identity; the statement does not cover them (no capability string accessor / not a known capability), they are counted only.",
}
