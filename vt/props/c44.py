"""C44  Helper-assisted uploads are equivalent to direct uploads  (Engine G, model checking).

The real allmydata.immutable.offloaded.Helper runs in the same process as the uploading client
(real Uploader -> AssistedUploader / RemoteEncryptedUploadable); every callRemote between client
and helper, in both directions, and every call of the helper to the real storage servers goes
through the controlled scheduler.  CHKCiphertextFetcher.CHUNK_SIZE is rebound to 7, so the
ciphertext of a 56..100-byte file travels in 8..15 chunks.

One execution (a pure function of its choice list):
  pre-state (empty grid | all shares placed by a DIRECT upload of another client | that minus
  one share)  ->  upload #1 through the helper, EXPLORED: every delivery order / early timer
  within d deviations and every placement of <= f connection losses on ANY call of the
  client<->helper connection (get_version .. upload_chk .. upload .. get_size .. each
  read_encrypted chunk .. get_all_encoding_parameters .. close), i.e. an interruption after
  EVERY fetched chunk  ->  if #1 failed: the client reconnects to the helper (same helper
  process, or a restarted helper on the same directory) and uploads the same file again (#2,
  default schedule)  ->  upload #3 of the same file.
  Pre-state "concurrent": two clients upload the same file through the helper at the same time
  and only the first one's connection can be lost (the helper must go on with the other reader).
Oracle:
  * every successful upload returns exactly the read-cap and verify-cap of a direct upload with
    the same convergence secret and parameters (reference computed on a separate grid);
  * the resumed upload #2 succeeds; afterwards all N share numbers exist and EVERY share file's
    data region is byte-identical to the one an uninterrupted helper upload produced (which is
    also compared with the direct upload's);
  * a resumed fetch never re-fetches bytes the helper already has: the ciphertext file handed to
    the encoder is byte-identical to the reference ciphertext (follows from the share comparison);
  * upload #3 (file completely present) performs zero allocate_buckets / write calls and fetches
    no ciphertext, and so does #1 when a direct upload placed all shares first.
"""
import os

from .. import boot, common, grid, lib_imm, lib_helper
from allmydata import uri as tahoe_uri
from allmydata.immutable.upload import Data

LEVEL = "model_checking"
ASSUMPTIONS = [
    "files of 56..100 bytes, (k,N) in {(1,2),(2,3),(3,4)}, N honest servers, ciphertext chunk size 7",
    "calls on one connection are FIFO; the answer to a call that returned a Deferred is handed to the caller as soon as the Deferred fires (not a separately scheduled event)",
    "an interruption is the loss of the client<->helper connection (both directions, all outstanding requests errback); the helper process keeps running or is restarted on the same directory after everything pending has settled; partial writes of the helper's incoming file are not modelled (file closed on failure)",
    "after an interruption the execution continues at the default schedule; schedule deviations and fault placement are bounded (d, f in coverage)",
]
STAGGER_MAX = 60          # > number of scheduler steps of one helper upload of the files used (checked in coverage)
CONV = b"c44-convergence"
WRITE_METHS = ("allocate_buckets", "write", "close", "abort")


def region(blob):
    n = int.from_bytes(blob[8:12], "big")
    return blob[0xc:len(blob) - 72 * n]


def client_kw(case):
    return dict(k=case["k"], n=case["n"], happy=case["n"], max_segment_size=case["seg"], convergence=CONV)


_REF = {}


def reference(case, seed):
    """direct upload and uninterrupted helper upload on separate grids: caps and data regions"""
    key = (case["size"], case["k"], case["n"], case["seg"], seed)
    if key in _REF:
        return _REF[key]
    data = lib_imm.payload(case["size"], seed, b"c44")
    out = {"data": data}
    for via in ("direct", "helper"):
        g = grid.Grid(case["n"], nclients=2, client_kw=client_kw(case))
        rig = None
        try:
            if via == "helper":
                rig = lib_helper.Rig(g)
                rig.connect()
            b = g.wait(g.clients[0].upload(Data(data, convergence=CONV)))
            g.quiesce()
            if not b or b[0][0] != "ok":
                out[via] = {"err": "hang" if not b else lib_imm.failure_name(b[0][1]) + ": " + b[0][1].getErrorMessage()[:300]}
                continue
            ur = b[0][1]
            si = tahoe_uri.from_string(ur.get_uri()).get_storage_index()
            regs = {}
            for (sv, sh), blob in lib_imm.ground_truth_shares(g, si).items():
                regs[sh] = region(blob)
            out[via] = {"cap": ur.get_uri(), "vcap": ur.get_verifycapstr(), "si": si, "regions": regs,
                        "chunks": sum(1 for (kd, lbl, o) in g.sched.log if kd == "deliver" and lbl.endswith(":read_encrypted"))}
        finally:
            if rig:
                rig.close()
            g.close()
            boot.R.take_errors()
            boot.take_logged()
    _REF[key] = out
    return out


def execute(case, prefix, seed):
    ref = reference(case, seed)
    data = ref["data"]
    viol, obs = [], {"outcomes": []}
    ch = grid.Chooser(prefix)
    if "err" in ref["direct"] or "err" in ref["helper"]:
        viol.append(("reference-upload-failed", "direct: %r helper: %r" % (ref["direct"].get("err"), ref["helper"].get("err"))))
        return ch.trace, viol, obs
    dref, href = ref["direct"], ref["helper"]
    if (dref["cap"], dref["vcap"]) != (href["cap"], href["vcap"]):
        viol.append(("helper-cap-differs-from-direct", "uninterrupted helper upload: %r / %r, direct upload: %r / %r" % (href["cap"], href["vcap"], dref["cap"], dref["vcap"])))
    if dref["regions"] != href["regions"]:
        bad = sorted(sh for sh in set(dref["regions"]) | set(href["regions"]) if dref["regions"].get(sh) != href["regions"].get(sh))
        viol.append(("helper-shares-differ-from-direct", "uninterrupted helper upload and direct upload differ in the data regions of shares %r" % (bad,)))
    n = case["n"]
    g = grid.Grid(n, nclients=3 if case.get("pre") == "concurrent" else 2, chooser=ch, fault_kinds=("disconnect",) if case.get("faults") else (), client_kw=client_kw(case))
    g.sched.batch = bool(case.get("batch"))     # turn granularity, see grid.Sched.batch
    if case.get("cpu"):
        g.sched.cpu_events()     # thread-pool work completes as a scheduled event, see grid.Sched.cpu_events
    rig = lib_helper.Rig(g)
    try:
        g.sched.fault_filter = lambda e: e.conn.si >= lib_helper.HELPER_SI and e.conn.ci == 0
        counts = {}

        def observer(kind, ev, outcome):
            if kind in ("deliver", "execute", "fault:error-after"):
                counts[ev.meth] = counts.get(ev.meth, 0) + 1
        g.sched.observers.append(observer)
        pre = case.get("pre", "empty")
        if pre == "concurrent":
            return concurrent(case, g, rig, ch, data, dref, href, counts, viol, obs)
        if pre != "empty":
            b = g.wait(g.clients[1].upload(Data(data, convergence=CONV)))
            g.quiesce()
            if not b or b[0][0] != "ok":
                raise grid.HarnessError("direct pre-upload failed: %r" % (b,))
            if pre == "minus-one":
                for (sv, path) in g.share_files():
                    if path.endswith("/0"):
                        os.unlink(os.path.join(g.base, "s%d" % sv, "shares", path))
        rig.connect()

        def judge_cap(ur, tag):
            if ur.get_uri() != dref["cap"]:
                viol.append(("helper-cap-differs-from-direct", "%s returned read-cap %r, a direct upload with the same secret/parameters gives %r" % (tag, ur.get_uri(), dref["cap"])))
            if ur.get_verifycapstr() != dref["vcap"]:
                viol.append(("helper-verifycap-differs-from-direct", "%s returned verify-cap %r, direct upload gives %r" % (tag, ur.get_verifycapstr(), dref["vcap"])))

        def upload(explore, tag):
            counts.clear()
            b = g.wait(g.clients[0].upload(Data(data, convergence=CONV)), explore=explore)
            g.quiesce()
            c1 = dict(counts)
            if not b:
                viol.append(("helper-upload-hangs", "%s: the upload Deferred never fired although nothing is pending; log tail=%r" % (tag, g.sched.log[-6:])))
                obs["outcomes"].append("hang")
                return None, c1
            if b[0][0] == "ok":
                obs["outcomes"].append("ok")
                judge_cap(b[0][1], tag)
                return b[0][1], c1
            obs["outcomes"].append("err:" + lib_imm.failure_name(b[0][1]))
            return b[0][1], c1

        # ------------------------------------------------------------ upload #1 (explored)
        log0 = len(g.sched.log)
        r1, c1 = upload(True, "upload #1")
        faulted = [lbl for (kd, lbl, o) in g.sched.log if kd.startswith("fault")]
        early_timer = any(m[p][0] == "timer" for (n_, p, m) in ch.trace)
        if faulted:
            # interruption point: number of ciphertext chunks delivered before the connection loss
            idx = next(i for i, (kd, lbl, o) in enumerate(g.sched.log) if kd.startswith("fault"))
            obs["cut_after_chunks"] = sum(1 for (kd, lbl, o) in g.sched.log[log0:idx] if kd == "deliver" and lbl.endswith(":read_encrypted"))
            obs["cut_at"] = faulted[0].split(":", 1)[1]
        obs["helper_files_after_1"] = sorted(kk.split("/")[0] for kk in rig.incoming())
        if r1 is None:
            return ch.trace, viol, obs
        ok1 = obs["outcomes"][-1] == "ok"
        if not ok1 and not faulted and not early_timer:
            viol.append(("helper-upload-failed:" + obs["outcomes"][-1][4:], "upload #1 through the helper failed on honest servers without any interruption: %s" % r1.getErrorMessage()[:300]))
        if pre == "full" and ok1:
            nw = sum(c1.get(m, 0) for m in WRITE_METHS)
            if nw:
                viol.append(("already-present-shares-rewritten", "all %d shares were placed by a direct upload, yet the helper upload made %r" % (n, {m: c1[m] for m in WRITE_METHS if m in c1})))
            if c1.get("read_encrypted", 0) or c1.get("upload", 0):
                viol.append(("already-present-ciphertext-refetched", "all shares were already present, yet the helper asked for the ciphertext: %r" % ({m: c1[m] for m in ("upload", "read_encrypted") if m in c1},)))

        # ------------------------------------------------------------ upload #2 (resume)
        if not ok1:
            if case.get("resume") == "restart":
                rig.start_helper()
            up = g.clients[0].uploader
            if faulted and up._helper is not None:
                viol.append(("client-keeps-dead-helper", "the helper connection was lost but Uploader still holds the dead reference"))
            rig.connect()
            have = rig.incoming()
            r2, c2 = upload(False, "resumed upload #2")
            if r2 is None:
                return ch.trace, viol, obs
            if obs["outcomes"][-1] != "ok":
                viol.append(("resumed-upload-failed:" + obs["outcomes"][-1][4:], "upload #1 was interrupted (%s; helper held %r); after reconnecting (%s) upload #2 of the same file failed: %s" % (
                    faulted or "early timer", have, case.get("resume", "reconnect"), r2.getErrorMessage()[:400])))
                return ch.trace, viol, obs
            obs["refetched_chunks"] = c2.get("read_encrypted", 0)

        # ------------------------------------------------------------ shares on the grid
        truth = lib_imm.ground_truth_shares(g, dref["si"])
        nums = set(sh for (sv, sh) in truth)
        if nums != set(range(n)):
            viol.append(("shares-missing-after-helper-upload", "after a successful helper upload share numbers %r do not exist (have %r)" % (sorted(set(range(n)) - nums), sorted(truth))))
        for (sv, sh), blob in sorted(truth.items()):
            if region(blob) != href["regions"].get(sh):
                viol.append(("resumed-shares-differ" if not ok1 else "helper-shares-differ",
                             "share %d on server %d differs in its data region from the share an uninterrupted helper upload produces (%d vs %d bytes, first difference at %s); upload #1: %s" % (
                                 sh, sv, len(region(blob)), len(href["regions"].get(sh, b"")),
                                 next((i for i, (a, b_) in enumerate(zip(region(blob), href["regions"].get(sh, b""))) if a != b_), "length"), obs["outcomes"][0])))
        obs["copies"] = len(truth)
        if any(p.startswith("incoming") for (sv, p) in g.share_files()):
            obs["incoming_left"] = True
        obs["helper_files_end"] = sorted(rig.incoming())

        # ------------------------------------------------------------ upload #3: already present
        if g.clients[0].uploader._helper is None:
            rig.connect()
        r3, c3 = upload(False, "upload #3 (file already present)")
        if r3 is not None:
            if obs["outcomes"][-1] != "ok":
                viol.append(("upload-of-present-file-failed:" + obs["outcomes"][-1][4:], r3.getErrorMessage()[:300]))
            else:
                nw = sum(c3.get(m, 0) for m in WRITE_METHS)
                if nw:
                    viol.append(("already-present-shares-rewritten", "all %d shares are on the grid, yet another helper upload of the same file made %r" % (n, {m: c3[m] for m in WRITE_METHS if m in c3})))
                if c3.get("read_encrypted", 0) or c3.get("upload", 0):
                    viol.append(("already-present-ciphertext-refetched", "all shares are on the grid, yet the helper asked for the ciphertext again: %r" % ({m: c3[m] for m in ("upload", "read_encrypted") if m in c3},)))
        for e in boot.R.take_errors():
            viol.append(("exception-in-timer:" + type(e.value).__name__, e.getTraceback()[-400:]))
        obs["logged"] = sorted(set(type(f.value).__name__ for (why, f) in boot.take_logged()))
        obs["events"] = len(g.sched.log)
    finally:
        rig.close()
        g.close()
    return ch.trace, viol, obs


def concurrent(case, g, rig, ch, data, dref, href, counts, viol, obs):
    """clients 0 and 2 upload the same file through the helper at the same time; only client 0's
    connection can be lost.  The helper must carry on with client 2's reader: client 2's upload
    succeeds with the direct cap and the shares equal the reference."""
    from twisted.internet import defer
    n = case["n"]
    rig.connect(0)
    conn2 = rig.connect(2)
    log0 = len(g.sched.log)
    stagger = case.get("stagger")
    if stagger is None:
        ds = [g.clients[ci].upload(Data(data, convergence=CONV)) for ci in (0, 2)]
    else:
        # client B arrives when client A's upload has made `stagger` scheduler steps, and is served as
        # soon as it asks (its calls sort first): every arrival point of the second request relative
        # to the first one's progress through the helper is a case of its own
        ds = [g.clients[0].upload(Data(data, convergence=CONV))]
        g.sched.explore = False
        for _ in range(stagger):
            if not g.sched.step():
                break
        obs["a_steps_before_b"] = len(g.sched.log) - log0
        g.sched.priority = {conn2.key()}
        ds.append(g.clients[2].upload(Data(data, convergence=CONV)))
    b = g.wait(defer.DeferredList(ds, consumeErrors=True), explore=True)
    g.quiesce()
    faulted = [lbl for (kd, lbl, o) in g.sched.log if kd.startswith("fault")]
    early_timer = any(m[p][0] == "timer" for (n_, p, m) in ch.trace)
    if faulted:
        idx = next(i for i, (kd, lbl, o) in enumerate(g.sched.log) if kd.startswith("fault"))
        obs["cut_after_chunks"] = sum(1 for (kd, lbl, o) in g.sched.log[log0:idx] if kd == "deliver" and lbl.endswith(":read_encrypted"))
        obs["cut_at"] = faulted[0].split(":", 1)[1]
    # had the helper been handed client B's reader (its `upload` call delivered) when A was cut off?
    # If not, A's was the only reader the helper had: that upload fails as an interrupted one, B is
    # told so when its call arrives, and B's RETRY is the resumed upload the property speaks of.
    b_joined = True
    if faulted:
        b_joined = any(kd == "deliver" and lbl.startswith("c2>") and lbl.endswith(":upload") for (kd, lbl, o) in g.sched.log[log0:idx])
    obs["b_joined_before_cut"] = b_joined
    obs["helper_files_after_1"] = sorted(kk.split("/")[0] for kk in rig.incoming())
    if not b:
        viol.append(("helper-upload-hangs", "two concurrent helper uploads: at least one Deferred never fired; log tail=%r" % (g.sched.log[-6:],)))
        obs["outcomes"].append("hang")
        return ch.trace, viol, obs
    results = b[0][1]
    for who, (ok, r) in zip(("A", "B"), results):
        if ok:
            obs["outcomes"].append("ok")
            if r.get_uri() != dref["cap"] or r.get_verifycapstr() != dref["vcap"]:
                viol.append(("helper-cap-differs-from-direct", "concurrent upload %s returned %r / %r, direct upload gives %r / %r" % (who, r.get_uri(), r.get_verifycapstr(), dref["cap"], dref["vcap"])))
        else:
            obs["outcomes"].append("err:" + lib_imm.failure_name(r))
            if who == "B" and not b_joined and not early_timer:
                b3 = g.wait(g.clients[2].upload(Data(data, convergence=CONV)), explore=False)
                g.quiesce()
                if not b3 or b3[0][0] != "ok":
                    viol.append(("resumed-upload-failed", "client B retried after being told that the upload it joined had lost its only reader (%s): %r" % (faulted, b3 and lib_imm.failure_name(b3[0][1]))))
                else:
                    obs["outcomes"].append("B-retry-ok")
                    results = [results[0], (True, b3[0][1])]
                    if b3[0][1].get_uri() != dref["cap"]:
                        viol.append(("helper-cap-differs-from-direct", "client B's retried upload returned %r, direct upload gives %r" % (b3[0][1].get_uri(), dref["cap"])))
            elif who == "B" and not early_timer:
                viol.append(("concurrent-upload-failed:" + lib_imm.failure_name(r), "client B's helper upload failed although only client A's connection was lost (%s): %s" % (faulted, r.getErrorMessage()[:400])))
            if who == "A" and not faulted and not early_timer:
                viol.append(("helper-upload-failed:" + lib_imm.failure_name(r), "client A's helper upload failed without any interruption: %s" % r.getErrorMessage()[:300]))
    if results[1][0]:
        truth = lib_imm.ground_truth_shares(g, dref["si"])
        nums = set(sh for (sv, sh) in truth)
        if nums != set(range(n)):
            viol.append(("shares-missing-after-helper-upload", "after client B's successful helper upload share numbers %r do not exist" % (sorted(set(range(n)) - nums),)))
        for (sv, sh), blob in sorted(truth.items()):
            if region(blob) != href["regions"].get(sh):
                viol.append(("resumed-shares-differ" if faulted else "helper-shares-differ", "share %d on server %d differs in its data region from the reference after the helper switched readers (%s)" % (sh, sv, faulted)))
        obs["copies"] = len(truth)
    obs["helper_files_end"] = sorted(rig.incoming())
    for e in boot.R.take_errors():
        viol.append(("exception-in-timer:" + type(e.value).__name__, e.getTraceback()[-400:]))
    obs["logged"] = sorted(set(type(f.value).__name__ for (why, f) in boot.take_logged()))
    obs["events"] = len(g.sched.log)
    return ch.trace, viol, obs


def chunk(tasks, seed, d_bound, f_bound, max_exec, collect):
    res = common.Result()
    gate = {}          # one determinism gate per worker chunk
    for (case, root) in tasks:

        def ex(prefix):
            trace, viol, obs = execute(case, prefix, seed)
            return trace, (viol, obs)

        def on_exec(prefix, trace, info):
            viol, obs = info
            res.count("executions")
            res.count("transitions", obs.get("events", 0))
            res.count("choice_points", len(trace))
            res.distinct.add((case["size"], case["k"], case.get("pre"), case.get("resume"), tuple(obs["outcomes"]), obs.get("cut_at", "").split("#")[-1].split(":")[-1], tuple(obs.get("helper_files_after_1", ()))))
            res.count("outcomes:" + ",".join(obs["outcomes"]))
            if "cut_after_chunks" in obs:
                res.notes.setdefault("cuts", set()).add((case["size"], case["k"], case.get("resume", "reconnect"), obs["cut_after_chunks"]))
                res.notes.setdefault("cut_meths", set()).add(obs["cut_at"].split(":")[-1])
                res.count("interrupted_executions")
                if obs.get("refetched_chunks") is not None:
                    res.count("resumed_with_partial_ciphertext" if "CHK_incoming" in obs.get("helper_files_after_1", ()) else
                              ("resumed_with_complete_ciphertext" if "CHK_encoding" in obs.get("helper_files_after_1", ()) else "resumed_from_scratch"))
            for nm in obs.get("logged", ()):
                res.count("logged-exception:" + nm)
            if obs.get("incoming_left"):
                res.count("note:storage-incoming-left")
            if obs.get("helper_files_end"):
                res.count("note:helper-files-left")
            for sig, msg in viol:
                res.violation(sig, {"case": case, "prefix": prefix}, msg + " | case=%r schedule=%r" % (case, prefix))
            if any(prefix) and not gate:
                gate["x"] = 1
                t2, v2, o2 = execute(case, prefix, seed)
                # errors reported through twisted.python.log at garbage-collection time ("Unhandled error in
                # Deferred") are not a function of the schedule: excluded from the comparison, only counted
                strip = lambda o: {kk: v for kk, v in o.items() if kk != "logged"}
                if strip(o2) != strip(obs) or [(n_, p) for (n_, p, m) in t2] != [(n_, p) for (n_, p, m) in trace]:
                    raise grid.HarnessError("nondeterministic replay %r %r:\n%r\n%r" % (case, prefix, obs, o2))
                res.count("determinism_gates")
                if "cut_after_chunks" in obs:
                    res.sample({"case": case, "schedule": prefix, "interrupted_at": obs.get("cut_at"), "chunks_delivered_before": obs.get("cut_after_chunks"), "outcomes(#1,#2,#3)": obs["outcomes"], "helper_dir_after_#1": obs.get("helper_files_after_1")})
            if collect is not None and not prefix:
                for kid in grid.children(prefix, trace, collect[0], collect[1]):
                    res.notes.setdefault("children", []).append((case, kid))
        nex, capped = grid.explore_subtree(ex, root, d_bound, f_bound, on_exec, max_exec=max_exec)
        if not root:
            res.count("trees")
        if capped:
            res.count("capped_trees")
    return res


def all_cases(tier):
    files = [dict(size=56, k=2, n=3, seg=21), dict(size=100, k=2, n=3, seg=33), dict(size=64, k=3, n=4, seg=21)]
    if tier != "quick":
        files += [dict(size=100, k=1, n=2, seg=128), dict(size=57, k=3, n=4, seg=60), dict(size=99, k=2, n=3, seg=14)]
    out = []
    for f in files:
        for resume in ("reconnect", "restart"):
            out.append(dict(f, pre="empty", resume=resume, faults=True))
    for f in files[:2] if tier == "quick" else files:
        out.append(dict(f, pre="full", resume="reconnect", faults=True))
        out.append(dict(f, pre="minus-one", resume="reconnect", faults=True))
        out.append(dict(f, pre="concurrent", resume="reconnect", faults=True))
    return out


def replay(case):
    trace, viol, obs = execute(case["case"], case["prefix"], boot.SEED)
    return viol


def run(tier, seed):
    cases = all_cases(tier)
    # f <= 1 interruption at the default schedule for every case; d <= 1 (quick) / 2 (thorough) deviations without faults
    res = grid.split_tasks(common.pmap, chunk, cases, (seed,), 0, 1)
    n_f = res.counts.get("executions", 0)
    dcases = [dict(c, faults=False) for c in cases if c["resume"] == "reconnect" and c["pre"] != "concurrent" and (tier != "quick" or c["size"] != 100)]
    d_bound = 2 if tier == "quick" else 3
    res.merge(grid.split_tasks(common.pmap, chunk, dcases, (seed,), d_bound, 0))
    # two concurrent uploads have about three times as many choice points: one deviation less
    ccases = [dict(c, faults=False) for c in cases if c["pre"] == "concurrent"]
    res.merge(grid.split_tasks(common.pmap, chunk, ccases, (seed,), d_bound - 1, 0))
    # the second client arrives after j steps of the first one's upload, for every j (default schedule otherwise)
    scases = [dict(c, stagger=j) for c in ccases[: (1 if tier == "quick" else len(ccases))] for j in range(0, STAGGER_MAX)]
    res.merge(grid.split_tasks(common.pmap, chunk, scases, (seed,), 0, 0))
    n_d = res.counts.get("executions", 0) - n_f
    mixed = [c for c in cases if c["size"] == 56 and (tier != "quick" or (c["resume"] == "reconnect" and c["pre"] != "concurrent"))]
    if tier != "quick":
        mixed += [c for c in cases if c["size"] == 64 and c["pre"] == "empty"]
    res.merge(grid.split_tasks(common.pmap, chunk, mixed, (seed,), 1, 1))
    n_df = res.counts.get("executions", 0) - n_f - n_d
    # several calls per reactor turn (grid.Sched.batch): one loss at every call, default schedule
    res.merge(grid.split_tasks(common.pmap, chunk, [dict(c, batch=True) for c in cases if c["size"] != 100], (seed,), 0, 1))
    n_b = res.counts.get("executions", 0) - n_f - n_d - n_df
    cuts = res.notes.pop("cuts", set())
    meths = res.notes.pop("cut_meths", set())
    res.notes.pop("children", None)
    by_file = {}
    for (size, k, resume, c) in cuts:
        by_file.setdefault("%dB k=%d %s" % (size, k, resume), set()).add(c)
    cov = {
        "states": res.counts.get("executions", 0),
        "transitions": res.counts.get("transitions", 0),
        "traces_validated_against_impl": res.counts.get("executions", 0),
        "rule": "state = one complete execution (pre-state, explored helper upload #1, resumed upload #2 if needed, upload #3), all real code; transitions = remote calls delivered; "
                "%d executions: one connection loss at every call of the client<->helper connection at the default schedule (f<=1, d=0) for %d cases; %d executions: every schedule with <= %d deviations (<= %d for the %d two-client cases), no fault, %d cases; %d executions with d<=1 and f<=1 together (%d cases); %d executions with several calls per reactor turn, f<=1" % (
                    n_f, len(cases), n_d, d_bound, d_bound - 1, len(ccases), len(dcases) + len(ccases), n_df, len(mixed), n_b),
        "interruption_points_chunks_delivered": {kk: sorted(v) for kk, v in sorted(by_file.items())},
        "interrupted_calls": sorted(meths),
        "schedule_trees": res.counts.get("trees", 0),
        "capped_trees": res.counts.get("capped_trees", 0),
        "outcomes(#1,#2,#3)": {kk[9:]: v for kk, v in res.counts.items() if kk.startswith("outcomes:")},
        "resume_kinds": {kk: v for kk, v in res.counts.items() if kk.startswith("resumed_")},
        "distinct_outcome_vectors": len(res.distinct),
        "counted_not_judged": {kk: v for kk, v in res.counts.items() if kk.startswith("note:") or kk.startswith("logged-exception:")},
    }
    return res, cov


MANIFEST = {
    "engine": "G",
    "technique": "stateless model checking of the real upload helper and assisted uploader in one process: connection loss at every call of the client-helper protocol (hence after every ciphertext chunk), all delivery orders / early timers within a deviation bound, resumed and repeated uploads judged against a direct upload",
    "text": "The real offloaded.Helper, CHKUploadHelper, CHKCiphertextFetcher and the client's AssistedUploader/RemoteEncryptedUploadable talk through the controlled scheduler with 7-byte ciphertext chunks. Upload #1 is explored (connection loss before every protocol call, reordered deliveries, early timers); after an interruption the client reconnects (helper kept running or restarted on its directory) and uploads again; a third upload follows. Caps must equal a direct upload's, every share file's data region must equal an uninterrupted helper upload's, and an already-present file must cause no allocate_buckets/write calls and no ciphertext fetch. Pre-states: empty grid, shares placed by a direct upload, one share missing, and two clients uploading the same file concurrently. A second client arriving after j scheduler steps of the first one's upload, for every j, served as soon as it asks (stagger family); several calls per reactor turn as a further family.",
    "note": "vt/lib_helper.py patches the scheduler instance (late Deferred answers, abandoned requests on connection loss). Bounds d, f in evidence; an answer to a call is handed over as soon as the helper's Deferred fires.",
}
