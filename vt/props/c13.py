"""C13  One client serialises operations on a mutable node  (Engine G, model checking).

One client, a mutable file F and a directory D on 3 real storage servers.  The node is obtained
TWICE through NodeMaker.create_from_cap - once from the cap alone, once as (write-cap, read-cap) the way a
parent directory hands out its children - for the same capability (must be the same object) and the
operations of a sequence are requested back-to-back, alternating between the two references,
without waiting for each other:
   file:  EVERY ordered sequence of 2 (quick) / 3 (thorough) operations from
          {download_best_version, overwrite(A), overwrite(B), modify(append x), modify(raises),
           upload(C)};
   dir :  EVERY ordered sequence of 2 / 3 from {add a, add b, delete c, list, add a (no-overwrite)}.
Each under every schedule with <= d deviations; file sequences also with <= f injected faults, and
(default schedule; thorough d <= 1) on a file whose shares on two of the three servers are damaged, so
that reads and modifications fail - after going through the read-retry path - until an overwrite
replaces the shares.
The start and finish of every serialised body is observed by wrapping (not replacing) the
callable handed to MutableFileNode._do_serialized.
Oracle: bodies start in request order; a body never starts before the previous one finished
(its Deferred fired); a failed body is followed by the next one; every operation's Deferred fires;
without injected faults the final contents / directory listing equal the sequential application of
the operations in request order and every read result equals the contents at its turn.
"""
import itertools

from .. import boot, common, grid, lib_imm, lib_mut
from ..lib_mut import pattern
from twisted.internet import defer
from allmydata.mutable.publish import MutableData
from allmydata.mutable.filenode import MutableFileNode
from allmydata.interfaces import ExistingChildError

LEVEL = "model_checking"
ASSUMPTIONS = [
    "sequences of 2 (quick) / 3 (thorough) operations on one SDMF file / directory, 2-of-3, 3 servers",
    "calls on one connection are FIFO; bounds d (schedule deviations) and f (faults) in evidence",
]
FILE_OPS = ["download", "overwriteA", "overwriteB", "append", "boom", "uploadC"]
DIR_OPS = ["add_a", "add_b", "del_c", "list", "add_a_noover"]


class Boom(Exception):
    pass


def execute(case, prefix, seed):
    ch = grid.Chooser(prefix)
    g = grid.Grid(3, chooser=ch, fault_kinds=tuple(case.get("fault_kinds", ())), client_kw=dict(k=2, n=3, happy=2))
    g.sched.batch = bool(case.get("batch"))     # turn granularity, see grid.Sched.batch
    if case.get("cpu"):
        g.sched.cpu_events()     # thread-pool work completes as a scheduled event, see grid.Sched.cpu_events
    viol, obs = [], {}
    log = []
    counter = [0]
    orig = MutableFileNode._do_serialized

    def wrapped(self, cb, *a, **kw):
        idx = counter[0]
        counter[0] += 1
        log.append(("request", idx))

        def cb2(*a2, **kw2):
            log.append(("start", idx))
            r = defer.maybeDeferred(cb, *a2, **kw2)

            def fin(res):
                log.append(("finish", idx))
                return res
            r.addBoth(fin)
            return r
        return orig(self, cb2, *a, **kw)
    snaps = {}

    def newest(si):
        """(seqnum, root_hash) of the newest version held by >= k (=2) share numbers on disk"""
        vs = lib_mut.versions(lib_mut.mutable_shares(g, si))
        ok = [v for v, shs in vs.items() if len(shs) >= 2]
        return max(ok, key=lambda v: v[0]) if ok else None

    def watch(d, i, si):
        snaps[("req", i)] = newest(si)

        def cb(res):
            snaps[("done", i)] = newest(si)
            return res
        d.addCallback(cb)
        return d
    try:
        c = g.clients[0]
        init = pattern(0, 10)
        A, B, C, X = pattern(1, 11), pattern(2, 12), pattern(3, 13), pattern(4, 3)
        if case["kind"] == "file":
            b = lib_mut.create(g, "SDMF", init)
            cap = b[0][1].get_uri()
            del b
            n1 = c.nodemaker.create_from_cap(cap)
            # second reference by the other route: (write-cap, read-cap) as a parent directory hands it out
            n2 = c.nodemaker.create_from_cap(cap, n1.get_readonly_uri())
            n3 = c.nodemaker.create_from_cap(cap)
            if n1 is not n2 or n1 is not n3:
                viol.append(("same-cap-different-node-objects", "create_from_cap returned two distinct objects for one write-cap: operations through them would not be serialised"))
            from allmydata.mutable.common import MODE_WRITE
            bsm = g.wait(n1.get_servermap(MODE_WRITE))     # servermap for upload(), taken before the sequence starts
            sm0 = bsm[0][1]
            g.quiesce()
            readable = True
            if case.get("damaged"):
                # the block data of the shares on two of the three servers is damaged on disk: a read cannot gather
                # k good shares (its first attempt fails, the retry path runs and fails too) until an overwrite
                # replaces the shares
                from .. import lib_mshare as ms
                si_ = n1.get_storage_index()
                for (sv, sh), blob in sorted(ms.slots_of(g.share_files(), si_).items()):
                    if sv in (0, 1):
                        d_ = ms.share_data(blob)
                        f_ = ms.fields(d_)
                        ms.write_share(g, si_, sv, sh, ms.container(blob, ms.flip(d_, f_["share_data"][0] + 1)))
                readable = False
            MutableFileNode._do_serialized = wrapped
            boxes, exp, content = [], [], init
            for i, op in enumerate(case["ops"]):
                n = (n1, n2)[i % 2]
                if op == "download":
                    d = n.download_best_version(); exp.append(("read", content) if readable else ("err", "NotEnoughSharesError"))
                elif op == "overwriteA":
                    d = n.overwrite(MutableData(A)); content = A; exp.append(("ok", None)); readable = True
                elif op == "overwriteB":
                    d = n.overwrite(MutableData(B)); content = B; exp.append(("ok", None)); readable = True
                elif op == "uploadC":
                    d = n.upload(MutableData(C), sm0); content = C; exp.append(("ok", None)); readable = True
                elif op == "append" and not readable:
                    d = n.modify(lambda old, sm, first: old + X); exp.append(("err", "NotEnoughSharesError"))
                elif op == "append":
                    d = watch(n.modify(lambda old, sm, first: old + X), i, n.get_storage_index()); content = content + X; exp.append(("ok", None))
                else:
                    def boom(old, sm, first):
                        raise Boom()
                    d = n.modify(boom); exp.append(("err", "Boom" if readable else "NotEnoughSharesError"))
                boxes.append(grid.box(d))
            g.sched.explore = True
            g.sched.run()
            g.sched.explore = False
            MutableFileNode._do_serialized = orig
            # under injected faults (incl. refused write rounds = contention) an operation may fail and
            # may or may not have taken effect: only ordering, termination and "success => published"
            # are judged then
            faulted = any(k.startswith("fault") for (k, l, o) in g.sched.log)
            for i, (bx, e) in enumerate(zip(boxes, exp)):
                if not bx:
                    viol.append(("operation-never-completes", "operation %d (%s) of %r never fired" % (i, case["ops"][i], case["ops"])))
                elif not faulted:
                    if e[0] == "err" and (bx[0][0] != "err" or lib_imm.failure_name(bx[0][1]) != e[1]):
                        viol.append(("wrong-result", "operation %d (%s) should fail with %s, got %r" % (i, case["ops"][i], e[1], bx[0][0])))
                    if e[0] != "err" and bx[0][0] != "ok":
                        viol.append(("operation-failed:" + lib_imm.failure_name(bx[0][1]), "operation %d (%s) of %r failed without any injected fault: %s" % (i, case["ops"][i], case["ops"], bx[0][1].getErrorMessage()[:200])))
                    if e[0] == "read" and bx[0][0] == "ok" and bx[0][1] != e[1]:
                        viol.append(("read-out-of-order", "download requested as operation %d of %r returned contents that are not the contents at its turn (got %d bytes, expected %d)" % (i, case["ops"], len(bx[0][1]), len(e[1]))))
            if not faulted and not readable:
                b3 = lib_mut.download(g, n1)
                if not b3:
                    viol.append(("operation-never-completes", "a download after %r (shares still damaged) never fired" % (case["ops"],)))
                elif b3[0][0] == "ok" and b3[0][1] != content:
                    viol.append(("final-contents-not-sequential", "after %r the damaged file reads %d bytes that were never written" % (case["ops"], len(b3[0][1]))))
            elif not faulted:
                b3 = lib_mut.download(g, n1)
                if not b3 or b3[0][0] != "ok" or b3[0][1] != content:
                    viol.append(("final-contents-not-sequential", "after %r the file holds %r, sequential application gives %d bytes" % (case["ops"], b3 and (b3[0][0], b3[0][0] == "ok" and len(b3[0][1])), len(content))))
        else:
            bd = g.wait(c.nodemaker.create_new_mutable_directory())
            dn = bd[0][1]
            caps = {}
            for nm in ("a", "b", "c"):
                bb = lib_mut.create(g, "SDMF", pattern(ord(nm), 5))
                caps[nm] = bb[0][1].get_uri()
            g.wait(dn.set_uri(u"c", caps["c"], None))
            g.quiesce()
            d1 = c.nodemaker.create_from_cap(dn.get_uri())
            d2 = c.nodemaker.create_from_cap(dn.get_uri(), dn.get_readonly_uri())
            if d1._node is not d2._node or c.nodemaker.create_from_cap(dn.get_uri())._node is not d1._node:
                viol.append(("same-cap-different-node-objects", "two directory nodes for one cap do not share their backing mutable node"))
            MutableFileNode._do_serialized = wrapped
            boxes, exp, listing = [], [], {"c"}
            for i, op in enumerate(case["ops"]):
                n = (d1, d2)[i % 2]
                if op == "add_a":
                    d = watch(n.set_uri(u"a", caps["a"], None), i, n.get_storage_index()); listing = listing | {"a"}; exp.append(("ok", None))
                elif op == "add_b":
                    d = watch(n.set_uri(u"b", caps["b"], None), i, n.get_storage_index()); listing = listing | {"b"}; exp.append(("ok", None))
                elif op == "add_a_noover":
                    d = n.set_uri(u"a", caps["b"], None, overwrite=False)
                    if "a" in listing:
                        exp.append(("err", "ExistingChildError"))
                    else:
                        listing = listing | {"a"}; exp.append(("ok", None))
                elif op == "del_c":
                    d = n.delete(u"c")
                    if "c" in listing:
                        listing = listing - {"c"}; exp.append(("ok", None))
                    else:
                        exp.append(("err", "NoSuchChildError"))
                else:
                    d = n.list(); exp.append(("list", set(listing)))
                boxes.append(grid.box(d))
            g.sched.explore = True
            g.sched.run()
            g.sched.explore = False
            MutableFileNode._do_serialized = orig
            dfaulted = any(k.startswith("fault") for (k, l, o) in g.sched.log)
            for i, (bx, e) in enumerate(zip(boxes, exp)):
                if bx and dfaulted:
                    continue
                if not bx:
                    viol.append(("operation-never-completes", "directory operation %d (%s) of %r never fired" % (i, case["ops"][i], case["ops"])))
                    continue
                if e[0] == "err":
                    if bx[0][0] != "err" or lib_imm.failure_name(bx[0][1]) != e[1]:
                        viol.append(("wrong-result", "directory operation %d (%s) of %r should fail with %s, got %s" % (i, case["ops"][i], case["ops"], e[1], bx[0][0] if bx[0][0] == "ok" else lib_imm.failure_name(bx[0][1]))))
                elif bx[0][0] != "ok":
                    viol.append(("operation-failed:" + lib_imm.failure_name(bx[0][1]), "directory operation %d (%s) of %r failed: %s" % (i, case["ops"][i], case["ops"], bx[0][1].getErrorMessage()[:200])))
                elif e[0] == "list" and set(str(k) for k in bx[0][1].keys()) != e[1]:
                    viol.append(("read-out-of-order", "list requested as operation %d of %r returned %r, expected %r" % (i, case["ops"], sorted(bx[0][1].keys()), sorted(e[1]))))
            bl = g.wait(d1.list())
            got = set(str(k) for k in bl[0][1].keys()) if bl and bl[0][0] == "ok" else None
            if got != listing and not dfaulted:
                viol.append(("directory-edit-lost", "after %r the directory lists %r, sequential application gives %r" % (case["ops"], got and sorted(got), sorted(listing))))
        # an operation that changes the contents and reports success must have published: at the
        # moment its Deferred fires, the newest recoverable version on disk is newer than at request time
        for (what, i), v in sorted(snaps.items()):
            if what == "done":
                before = snaps.get(("req", i))
                if v is None or (before is not None and v[0] <= before[0]):
                    viol.append(("success-reported-before-published", "operation %d (%s) of %r reported success while the newest recoverable version on disk is still %r (at request time: %r)" % (i, case["ops"][i], case["ops"], v and v[0], before and before[0])))
        # ordering / mutual exclusion of the serialised bodies
        running = None
        last_started = -1
        for (what, idx) in log:
            if what == "start":
                if running is not None:
                    viol.append(("serialized-bodies-overlap", "body %d started while body %d was still running; log=%r" % (idx, running, log)))
                if idx < last_started:
                    viol.append(("serialized-bodies-out-of-order", "body %d started after body %d; log=%r" % (idx, last_started, log)))
                running, last_started = idx, max(last_started, idx)
            elif what == "finish":
                running = None
        started = set(i for (w, i) in log if w == "start")
        requested = set(i for (w, i) in log if w == "request")
        if started != requested:
            viol.append(("serialized-body-never-started", "requested %r, started %r" % (sorted(requested), sorted(started))))
        obs["bodies"] = len(requested)
        obs["events"] = len(g.sched.log)
        obs["results"] = [bx[0][0] if bx else "hang" for bx in boxes]
        boot.R.take_errors()
        boot.take_logged()
    finally:
        MutableFileNode._do_serialized = orig
        g.close()
    return ch.trace, viol, obs


def chunk(tasks, seed, d_bound, f_bound, max_exec, collect):
    res = common.Result()
    for (case, root) in tasks:
        gate = {}

        def ex(prefix):
            trace, viol, obs = execute(case, prefix, seed)
            return trace, (viol, obs)

        def on_exec(prefix, trace, info):
            viol, obs = info
            res.count("executions")
            res.count("transitions", obs.get("events", 0))
            res.distinct.add((case["kind"], tuple(obs.get("results", ()))))
            for sig, msg in viol:
                res.violation(sig, {"case": case, "prefix": prefix}, msg + " | case=%r schedule=%r" % (case, prefix))
            if collect and not prefix:
                res.notes.setdefault("children", []).extend((case, p) for p in grid.children([], trace, collect[0], collect[1]))
            if any(prefix) and not gate:
                gate["x"] = 1
                t2, v2, o2 = execute(case, prefix, seed)
                if o2 != obs:
                    raise grid.HarnessError("nondeterministic replay %r %r: %r vs %r" % (case, prefix, obs, o2))
                res.sample({"case": case, "schedule": prefix, "results": obs.get("results"), "serialized_bodies": obs.get("bodies")})
        n, capped = grid.explore_subtree(ex, root, d_bound, f_bound, on_exec, max_exec=max_exec)
        res.count("trees")
    return res


def replay(case):
    trace, viol, obs = execute(case["case"], case["prefix"], boot.SEED)
    return viol


def run(tier, seed):
    r = 2 if tier == "quick" else 3
    writers = ("overwriteA", "overwriteB", "append", "uploadC")
    # upload() takes a servermap made before the sequence: it is only valid while no earlier
    # operation of the sequence has published a new version
    fcases = [{"kind": "file", "ops": list(ops)} for ops in itertools.product(FILE_OPS, repeat=r)
              if not any(op == "uploadC" and any(p in writers for p in ops[:i]) for i, op in enumerate(ops))]
    dcases = [{"kind": "dir", "ops": list(ops)} for ops in itertools.product(DIR_OPS, repeat=r)]
    d = 1 if tier == "quick" else 2
    res = grid.split_tasks(common.pmap, chunk, fcases + dcases, (seed,), d, 0)
    # several answers per reactor turn (grid.Sched.batch)
    res.merge(grid.split_tasks(common.pmap, chunk, [dict(c, batch=True) for c in fcases + dcases], (seed,), d - 1, 0))
    # the file's shares on two of three servers are damaged: reads fail (after taking the retry path) until an
    # overwrite replaces them; failed operations must not block the ones queued behind
    dm = [dict(c, damaged=True) for c in fcases]
    res.merge(grid.split_tasks(common.pmap, chunk, dm, (seed,), 0 if tier == "quick" else 1, 0))
    sel = [dict(c, fault_kinds=["error", "disconnect"]) for c in fcases[:: (3 if tier == "quick" else 5)]]
    res.merge(grid.split_tasks(common.pmap, chunk, sel, (seed,), 0, 1))
    # contention: a server refuses a test-and-set write as if another writer had been there first, which
    # sends modify()-based operations into their retry loop while other operations are queued behind
    sel2 = [dict(c, fault_kinds=["refuse-round"]) for c in fcases + dcases if any(op in ("append", "add_a", "add_b", "del_c") for op in c["ops"])]
    res.merge(grid.split_tasks(common.pmap, chunk, sel2 if tier != "quick" else sel2[::2], (seed,), 0, 1 if tier == "quick" else 2))
    n4 = 0
    if tier != "quick":
        # up to FOUR concurrently requested operations (the statement's bound) at the canonical schedule
        f4 = [{"kind": "file", "ops": list(ops)} for ops in itertools.product(FILE_OPS, repeat=4)
              if not any(op == "uploadC" and any(p in writers for p in ops[:i]) for i, op in enumerate(ops))]
        d4 = [{"kind": "dir", "ops": list(ops)} for ops in itertools.product(DIR_OPS, repeat=4)]
        n4 = len(f4) + len(d4)
        res.merge(grid.split_tasks(common.pmap, chunk, f4 + d4, (seed,), 0, 0))
    cov = {
        "states": res.counts.get("executions", 0),
        "transitions": res.counts.get("transitions", 0),
        "traces_validated_against_impl": res.counts.get("executions", 0),
        "distinct_result_vectors": len(res.distinct),
        "deviation_bound_completed": d,
        "fault_bound_completed": 1,
        "rule": "all %d file and %d directory operation sequences of length %d at d<=%d (and at d<=%d with several answers per reactor turn); %d file sequences at f<=1 (error / disconnect on any call)" % (len(fcases), len(dcases), r, d, d - 1, len(sel)) + ("; all %d sequences of length 4 at the canonical schedule" % n4 if n4 else ""),
    }
    return res, cov


MANIFEST = {
    "engine": "G",
    "technique": "stateless model checking of back-to-back operations on one real MutableFileNode / DirectoryNode: all operation sequences x all delivery orders (and fault placements) within bounds, with the serialiser's bodies observed",
    "text": "Every sequence of 2 (quick) / 3 (thorough) whole-file or directory operations is requested without waiting on one client through two references obtained from the same cap; under every schedule within the bound the serialised bodies must run one at a time in request order, failures must not block successors, and the final state must equal sequential application. All file sequences are repeated on a file whose shares on two of three servers are damaged (reads fail after the retry path until an overwrite replaces them).",
    "note": "Bodies are observed by wrapping the callable passed to _do_serialized from the harness (no source change). Bounds in evidence.",
}
