"""C07  Share placement: complete, respects read-only servers, maximal spread (Engine E, exhaustive).

Space: EVERY layout (role of each of up to 4 servers in {absent, writable, read-only} with at
least one writable; shares {0..n-1}; existing relation = any subset of present-servers x shares)
fed to the real allmydata.immutable.happiness_upload.share_placement exactly as
PeerSelector.get_share_placements calls it (writable set, read-only set, share set,
{server: set(shares)} holding only non-empty rows).
Oracle: (i) every share number is mapped to a server of the layout; (ii) a read-only server is
only given shares it already holds; (iii) the number of distinct servers used equals the maximum
over all assignments satisfying (i),(ii) = maximum matching in the graph {share-writable server:
always, share-read-only server: iff held} (independent Kuhn matcher; brute force cross-check).
"""
import itertools

from allmydata.immutable.happiness_upload import share_placement
from .. import common

LEVEL = "exploration"
ASSUMPTIONS = [
    "small scope: <= 4 servers, <= 4 shares (quick) / 5 shares (thorough); larger layouts only through the structured families listed in coverage.rule",
    "server ids are 20-byte strings as in the uploader; set iteration order is fixed by PYTHONHASHSEED=0, exhaustiveness over all relations and roles covers relative orders by symmetry",
]

IDS = [bytes([c]) * 20 for c in b"abcdefghijklmnopqrst"]


def kuhn(nsh, adj):
    match = {}

    def aug(sh, seen):
        for sv in adj[sh]:
            if sv in seen:
                continue
            seen.add(sv)
            if sv not in match or aug(match[sv], seen):
                match[sv] = sh
                return True
        return False
    return sum(1 for sh in range(nsh) if aug(sh, set()))


def brute(nsh, adj):
    best = 0
    for pick in itertools.product(*[adj[sh] for sh in range(nsh)]):
        best = max(best, len(set(pick)))
    return best


def decode(case):
    roles = case["roles"]          # list per server: 0 absent, 1 rw, 2 ro
    nsh = case["nsh"]
    present = [i for i, r in enumerate(roles) if r]
    bits = case["bits"]
    existing = {}
    for pi, sv in enumerate(present):
        row = set(sh for sh in range(nsh) if (bits >> (pi * nsh + sh)) & 1)
        if row:
            existing[sv] = row
    rw = [i for i, r in enumerate(roles) if r == 1]
    ro = [i for i, r in enumerate(roles) if r == 2]
    return rw, ro, nsh, existing


def check_case(case, brute_check=False):
    rw, ro, nsh, existing = decode(case)
    peers = set(IDS[i] for i in rw)
    ropeers = set(IDS[i] for i in ro)
    shares = set(range(nsh))
    p2s = {IDS[sv]: set(row) for sv, row in existing.items()}
    desc = "rw=%r ro=%r shares=%d existing=%r" % (rw, ro, nsh, {k: sorted(v) for k, v in existing.items()})
    try:
        got = share_placement(peers, ropeers, shares, p2s)
    except Exception as e:  # noqa
        return [("exception:%s" % type(e).__name__, "share_placement raised %r for %s" % (e, desc))]
    name = {IDS[i]: i for i in rw + ro}
    out = []
    plan = {}
    for sh in range(nsh):
        sv = got.get(sh)
        if sv is None or sv not in name:
            out.append(("share-unassigned", "share %d mapped to %r; %s; placement=%r" % (sh, sv, desc, got)))
            return out
        plan[sh] = name[sv]
    if set(got.keys()) - shares:
        out.append(("extra-share", "placement names unknown shares %r; %s" % (sorted(set(got.keys()) - shares), desc)))
    for sh, sv in plan.items():
        if sv in ro and sh not in existing.get(sv, ()):
            out.append(("readonly-given-share-it-lacks", "read-only server %d is assigned share %d which it does not hold; %s; placement=%r" % (sv, sh, desc, plan)))
            return out
    adj = {sh: list(rw) + [sv for sv in ro if sh in existing.get(sv, ())] for sh in range(nsh)}
    best = kuhn(nsh, adj)
    if brute_check and nsh <= 5 and len(rw) + len(ro) <= 4 and brute(nsh, adj) != best:
        raise RuntimeError("reference disagreement on %s" % desc)
    used = len(set(plan.values()))
    if used > best:
        raise RuntimeError("oracle bug: used %d > best %d on %s" % (used, best, desc))
    if used < best:
        # classify (for the known-findings file): which structural situation is this?
        out.append((classify_not_maximal(rw, ro, nsh, existing, plan), "placement uses %d distinct servers, %d achievable; %s; placement=%r" % (used, best, desc, plan)))
    return out


def classify_not_maximal(rw, ro, nsh, existing, plan):
    unused_rw = [sv for sv in rw if sv not in plan.values()]
    if unused_rw:
        # an unused writable server exists while some server carries >= 2 shares
        held_by_unused = [sv for sv in unused_rw if existing.get(sv)]
        if held_by_unused and len(held_by_unused) == len(unused_rw):
            return "not-maximal:writable-server-with-existing-shares-left-unused"
        return "not-maximal:empty-writable-server-left-unused"
    return "not-maximal:readonly-server-with-needed-share-left-unused"


def layouts(nsv_max, nsh_list, full_roles_only=False):
    for nsv in range(1, nsv_max + 1):
        for roles in itertools.product((1, 2), repeat=nsv):   # all `nsv` servers present (absent = fewer servers)
            if 1 not in roles:
                continue
            for nsh in nsh_list:
                yield list(roles), nsh


def _chunk(chunk, brute_check):
    res = common.Result()
    for (roles, nsh, lo, hi) in chunk:
        for bits in range(lo, hi):
            case = {"roles": roles, "nsh": nsh, "bits": bits}
            bad = check_case(case, brute_check)
            res.count("evaluations")
            if bits & (bits - 1) and 2 in roles:
                res.count("nontrivial")
            for sig, msg in bad:
                res.violation(sig, case, msg)
        if lo == 0:
            res.sample({"roles(1=rw,2=ro)": roles, "shares": nsh, "existing_relations_enumerated": 1 << (len(roles) * nsh)})
    return res


def structured_family():
    """closed families beyond 4x5, fully enumerated (not sampled)"""
    out = []
    for nsv in (5, 6, 8):
        for nro in range(0, nsv):
            roles = [2] * nro + [1] * (nsv - nro)
            for nsh in (nsv - 1, nsv, nsv + 2):
                n = nsv * nsh
                fams = [0, (1 << n) - 1]                                  # nothing / everyone holds everything
                fams.append((1 << nsh) - 1)                                # first server holds everything
                fams.append(sum(1 << (i * nsh + (i % nsh)) for i in range(nsv)))          # diagonal
                fams.append(sum(1 << (i * nsh + ((i + 1) % nsh)) for i in range(nsv)))    # shifted diagonal (chain)
                fams.append(sum(1 << (i * nsh) for i in range(nsv)))       # everyone holds share 0
                for b in fams:
                    out.append((roles, nsh, b, b + 1))
    return out


def replay(case):
    return check_case(case, True)


def run(tier, seed):
    jobs = []
    max_sh = 4 if tier == "quick" else 5
    for roles, nsh in layouts(4, range(1, max_sh + 1)):
        if tier == "quick" and len(roles) == 4 and nsh == 4:
            continue  # 15 x 65536 layouts: thorough only
        total = 1 << (len(roles) * nsh)
        step = max(1, min(total, 4096))
        for lo in range(0, total, step):
            jobs.append((roles, nsh, lo, min(total, lo + step)))
    jobs += structured_family()
    res = common.pmap(_chunk, jobs, (tier == "quick",), chunks=min(len(jobs), 512))
    cov = {
        "evaluations": res.counts.get("evaluations", 0),
        "distinct_nontrivial": res.counts.get("nontrivial", 0),
        "exhaustive": True,
        "rule": "every (roles in {rw,ro}^s with >=1 rw, s<=4) x (n shares, n<=%d%s) x (every existing relation subset of servers x shares), plus closed structured families for 5/6/8 servers; non-trivial = at least one read-only server and >= 2 existing (server,share) pairs" % (max_sh, ", except 4 servers x 4 shares" if tier == "quick" else ""),
    }
    return res, cov


MANIFEST = {
    "engine": "E",
    "technique": "exhaustive small-scope enumeration of every placement problem (roles x existing-share relation) against a brute-force optimal assignment",
    "text": "Every layout with <=4 servers (any read-only subset), <=4 shares (5 in thorough) and any existing-share relation is given to the real share_placement; completeness, read-only discipline and maximal spread are compared with an independent maximum-matching reference. Complete for that universe.",
    "note": "Trusted: Kuhn matcher (cross-checked by brute force in quick tier). Outside the universe only closed structured families are covered.",
}
