"""C31  HTTP and direct storage access agree  (Engine H on twin servers + exhaustive upload plans).

Twin real StorageServers with the same node id on tmpfs, same virtual second:
  T1 is driven through  allmydata.storage_client._HTTPStorageServer  ->  StorageClient  ->
     treq StubTreq  ->  real HTTPServer (Klein)  ->  StorageServer            (HTTP path)
  T2 is driven through  allmydata.storage_client._StorageServer  ->  LocalRef (trivial
     IRemoteReference stand-in)  ->  FoolscapStorageServer.remote_*  ->  StorageServer
     (Foolscap path; BucketWriter/Reader references are LocalRefs to FoolscapBucketWriter/Reader)
The SAME IStorageServer-level operation is issued on both after every history.

Part 1 (BFS, immutable): storage index A, shares {0,1}, size 4.  Alphabet: allocate_buckets
  (2 variants of share set / lease secrets quick, 3 thorough), write of EVERY sub-range of share 0 with the share's
  bytes, 4 conflicting writes, 2 writes past the end, 1 (quick) / 3 (thorough) writes on share 1, a write through a dead
  handle, abort, add_lease (2 secrets, unknown index), advise_corrupt_share, and `sweep`: every
  read (offset 0..size+2, length 0..size+3) of every visible share.  A write that completes the
  share (by the reference bitmap) is followed by close() on both paths (the HTTP protocol
  completes on the last byte, Foolscap on close - documented difference, so "write last byte +
  close" is one step).  Depth 4 quick / 5 thorough.
Part 2 (BFS, mutable): slot M, shares {0,1}: 12 read-test-write requests (create, overwrite,
  gap write, truncate, delete, passing/failing test vectors, two shares, two write vectors +
  new_length, wrong write enabler, second lease secret, pure read), add_lease x2,
  advise_corrupt_share, slot_readv naming a missing share, and `sweep`: slot_readv of all shares
  with EVERY (offset 0..len+2, length 0..len+3).  Depth 4 quick / 5 thorough.
Part 3 (exhaustive plans): for share sizes 4 and 6, EVERY composition of the share into <= 3
  chunks written in EVERY order (25 + 71 plans), compared after every chunk, then the full read
  sweep (offset <= size+2) and get_buckets.

Part 4 (two uploads at once): all 20 interleavings of two three-step uploads (allocate share 0, first
  half, second half + close) of DIFFERENT storage indexes, compared after every step, then read back.

Part 5 (big shares): a 200000-byte immutable share (3 chunks) and a 200000-byte mutable share; 17 reads around
  the 64 KiB piece size of the HTTP server's streaming producer (65535/65536/65537, two pieces +-1, offsets 0, 1,
  70000, tail), compared between the paths and with the bytes written.

Oracle after every step: client-visible results equal after normalisation (sets/dicts/lists
to sorted lists, remote references to a marker, exceptions to a class table {conflict,
bad-write-enabler, error}); directory digests of T1 and T2 byte-equal (corruption advisory file
names without their microsecond time stamp); in-progress BucketWriter tables equal.
Accepted by-design differences (counted, not flagged): abort through a handle whose upload is
already complete/aborted (HTTP spec: 405, Foolscap: silently nothing); exception *types*.
"""
import hashlib
import itertools
import os

from .. import boot, common
from .. import lib_http as L

from foolscap.api import RemoteException
from allmydata.interfaces import BadWriteEnablerError, ConflictingWriteError
from allmydata.storage.http_client import ClientException

LEVEL = "model_checking"
ASSUMPTIONS = [
    "Foolscap path = _StorageServer over a local IRemoteReference stand-in calling FoolscapStorageServer.remote_* directly: foolscap's serialisation, schema constraints and RemoteException wrapping are not exercised (exception types are normalised instead)",
    "small scope: one immutable storage index (2 shares, size 4; upload plans also size 6), one mutable slot (2 shares, <= ~10 bytes); bounded history depth (4 quick / 5 thorough)",
    "no time passes inside a history (same whole second on both servers), no disconnects (HTTP has no notion of one), no zero-length immutable writes (RangeMap shim limitation)",
    "close() is only issued when the reference bitmap says the share is complete (HTTP has no way to close an incomplete upload; Foolscap would accept it: documented protocol difference)",
    "state merging: T2's directory digest + its BucketWriter table + liveness of the client's writer handles; T1 is checked equal to T2 at every step, so equal T2 states have equal futures on both paths",
]

REASON = b"reason: verif"


# ------------------------------------------------------------------ constants
class K(object):
    def __init__(self, seed):
        def h(label, n):
            out, i = b"", 0
            while len(out) < n:
                out += hashlib.sha256(b"c31:%d:%s:%d" % (seed, label, i)).digest()
                i += 1
            return out[:n]
        self.seed = seed
        self.A, self.M, self.Z = h(b"A", 16), h(b"M", 16), h(b"Z", 16)
        self.data = {0: h(b"d0", 8), 1: h(b"d1", 8)}
        self.alt = {0: bytes(b ^ 0x5a for b in self.data[0]), 1: bytes(b ^ 0x5a for b in self.data[1])}
        self.renew = {1: h(b"r1", 32), 2: h(b"r2", 32)}
        self.cancel = {1: h(b"c1", 32), 2: h(b"c2", 32)}
        self.W = {1: h(b"W1", 32), 2: h(b"W2", 32)}


# ------------------------------------------------------------------ normalisation
def norm(x):
    if isinstance(x, (set, frozenset)):
        return ["set"] + sorted(norm(i) for i in x)
    if isinstance(x, dict):
        return ["dict"] + sorted([norm(k), norm(v)] for k, v in x.items())
    if isinstance(x, (list, tuple)):
        return [norm(i) for i in x]
    if isinstance(x, (bytes, int, bool, str)) or x is None:
        return x
    if hasattr(x, "callRemote"):
        return "<ref>"
    return repr(x)


def classify(e):
    """exception -> class of the table"""
    code = None
    if isinstance(e, ClientException):
        code = e.code
    elif isinstance(e, RemoteException):
        inner = e.failure if hasattr(e, "failure") else None
        if isinstance(inner, tuple) and inner and isinstance(inner[0], int):
            code = inner[0]
        elif isinstance(inner, str) and "Unauthorized write" in inner:
            return "bad-write-enabler"
    if isinstance(e, ConflictingWriteError) or code == 409:
        return "conflict"
    if isinstance(e, BadWriteEnablerError):
        return "bad-write-enabler"
    return "error"


def detail(e):
    return "%s%s" % (type(e).__name__, (e.args[:1] if e.args else ""))


class Twins(object):
    def __init__(self, seed, label):
        boot.urandom.reset(seed, label)
        L.align_clock()
        self.k = K(seed)
        self.t1 = L.Node(label="-http")
        self.t2 = L.Node(label="-fs")
        self.h = self.t1.http_server_iface()
        self.f = self.t2.foolscap_iface()
        self.canary = L.Canary()
        self.handles = {}      # sh -> [http ref, foolscap ref, alive]
        self.notes = []

    def close(self):
        self.t1.close()
        self.t2.close()
        if L.clock_drift() > 0.9:
            raise RuntimeError("history pumped the virtual clock across a second boundary")

    def call(self, node, thunk):
        """-> (class, normalised value or exception detail)"""
        try:
            d = thunk()
            r = node.wait(d)
            return ("ok", norm(r), r)
        except L.NeverFired:
            return ("hang", None, None)
        except Exception as e:  # noqa
            return (classify(e), detail(e), None)

    def both(self, fn):
        """fn(iface) -> Deferred, run on both paths; returns (res_http, res_foolscap)"""
        a = self.call(self.t1, lambda: fn(self.h, 0))
        b = self.call(self.t2, lambda: fn(self.f, 1))
        return a, b

    def compare_state(self, viols, what, where=""):
        d1, d2 = self.t1.digest(True), self.t2.digest(True)
        where = where or what
        if d1 != d2:
            diff = sorted(set(d1) ^ set(d2))
            viols.append(("state-differs:" + what, "after %s the storage directories differ (HTTP twin vs Foolscap twin): %r" % (where, diff[:6])))
        b1 = tuple((p, c, r) for (p, c, r, _) in self.t1.uploads_table()[2])
        b2 = tuple((p, c, r) for (p, c, r, _) in self.t2.uploads_table()[2])
        if b1 != b2:
            viols.append(("bucketwriters-differ:" + what, "after %s in-progress BucketWriters differ: http=%r foolscap=%r" % (where, b1, b2)))

    def canon_state(self):
        bws = tuple((p, c, r) for (p, c, r, _) in self.t2.uploads_table()[2])
        return (self.t2.digest(True), bws, tuple(sorted((sh, v[2]) for sh, v in self.handles.items())))


def same(a, b):
    return a[0] == b[0] and (a[0] != "ok" or a[1] == b[1])


def show(r):
    return "%s:%r" % (r[0], r[1])


# ------------------------------------------------------------------ immutable part
TIER = "quick"     # set by run() before the workers are forked; only selects the alphabet offered


def imm_ops(size, handles):
    if TIER == "quick":
        ops = [["alloc", [0], 1], ["alloc", [0, 1], 2]]
    else:
        ops = [["alloc", [0], 1], ["alloc", [0, 1], 1], ["alloc", [0, 1], 2]]
    for sh in (0, 1):
        if sh in handles:
            if handles[sh][2]:
                if sh == 0:
                    for off in range(size):
                        for ln in range(1, size - off + 1):
                            ops.append(["write", 0, off, ln, "d"])
                    for (off, ln) in ((0, size), (0, 2), (2, 2), (1, 2)):
                        ops.append(["write", 0, off, ln, "x"])
                    ops.append(["write", 0, size - 2, 3, "d"])
                    ops.append(["write", 0, size, 1, "d"])
                else:
                    for (off, ln) in (((0, size),) if TIER == "quick" else ((0, size), (0, 2), (2, size - 2))):
                        ops.append(["write", 1, off, ln, "d"])
            else:
                ops.append(["write", sh, 0, size, "d"])
            ops.append(["abort", sh])
    ops += [["add_lease", "A", 1], ["add_lease", "A", 2], ["add_lease", "Z", 1], ["advise", "immutable", 0], ["read0"], ["sweep"]]
    return ops


class ImmModel(object):
    """reference bitmap of what each live handle has written (only used to decide when to close)"""

    def __init__(self, size):
        self.size = size
        self.w = {}     # sh -> bytearray or None per byte

    def open(self, sh):
        self.w[sh] = [None] * self.size

    def write(self, sh, off, data):
        """-> 'refused' | 'conflict' | 'ok' | 'complete'"""
        cur = self.w[sh]
        if off + len(data) > self.size:
            return "refused"
        for i, b in enumerate(data):
            if cur[off + i] is not None and cur[off + i] != b:
                return "conflict"
        for i, b in enumerate(data):
            cur[off + i] = b
        return "complete" if all(c is not None for c in cur) else "ok"


def imm_reads(tw, size, pairs, viols, tag):
    """get_buckets on both, then the given reads on every visible share."""
    k = tw.k
    a, b = tw.both(lambda s, i: s.get_buckets(k.A))
    if not same(a, b):
        viols.append(("get_buckets-differs", "%s: get_buckets http=%s foolscap=%s" % (tag, show(a), show(b))))
        return 0
    if a[0] != "ok":
        return 0
    n = 0
    for sh in sorted(a[2]):
        r1, r2 = a[2][sh], b[2][sh]
        for (o, l) in pairs:
            x = tw.call(tw.t1, lambda: r1.callRemote("read", o, l))
            y = tw.call(tw.t2, lambda: r2.callRemote("read", o, l))
            n += 1
            if not same(x, y):
                kind = "zero-length" if l == 0 else ("past-end" if o >= size else ("overrun" if o + l > size else "inside"))
                viols.append(("read-differs:" + kind, "%s: read(share %d, offset %d, length %d) http=%s foolscap=%s (share size %d)" % (tag, sh, o, l, show(x), show(y), size)))
    return n


def all_pairs(size):
    """every (offset <= size+2, 1 <= length <= size+3); zero-length reads are the separate op read0"""
    return [(o, l) for o in range(size + 3) for l in range(1, size + 4)]


def few_pairs(size):
    return [(0, size), (1, 2), (size - 1, 5), (size, 1), (size + 2, 2), (0, size + 3)]


def imm_apply(tw, model, size, op, viols, check):
    """apply one op on both paths; append violations when check."""
    k = tw.k
    name = op[0]
    tag = repr(op)
    if name == "alloc":
        shnums, lid = set(op[1]), op[2]
        a, b = tw.both(lambda s, i: s.allocate_buckets(k.A, k.renew[lid], k.cancel[lid], shnums, size, tw.canary))
        if check and not same(a, b):
            viols.append(("allocate-differs", "%s: http=%s foolscap=%s" % (tag, show(a), show(b))))
        if a[0] == "ok" and b[0] == "ok":
            for sh in set(a[2][1]) & set(b[2][1]):
                tw.handles[sh] = [a[2][1][sh], b[2][1][sh], True]
                model.open(sh)
    elif name == "write":
        _, sh, off, ln, var = op
        src = k.data[sh] if var == "d" else k.alt[sh]
        data = src[off:off + ln]
        h = tw.handles[sh]
        alive = h[2]
        a = tw.call(tw.t1, lambda: h[0].callRemote("write", off, data))
        b = tw.call(tw.t2, lambda: h[1].callRemote("write", off, data))
        if check and not same(a, b):
            viols.append(("write-differs:%s/%s" % (a[0], b[0]), "%s (handle %s): http=%s foolscap=%s" % (tag, "live" if alive else "dead", show(a), show(b))))
        if alive:
            verdict = model.write(sh, off, data)
            if verdict == "complete" and a[0] == "ok" and b[0] == "ok":
                ca = tw.call(tw.t1, lambda: h[0].callRemote("close"))
                cb = tw.call(tw.t2, lambda: h[1].callRemote("close"))
                # the value of close() is not compared (RIBucketWriter.close -> None, the HTTP
                # adapter returns its `finished` flag True): container/return-type difference by design
                if check and ca[0] != cb[0]:
                    viols.append(("close-differs:%s/%s" % (ca[0], cb[0]), "%s completed the share; close(): http=%s foolscap=%s" % (tag, show(ca), show(cb))))
                h[2] = False
    elif name == "abort":
        sh = op[1]
        h = tw.handles[sh]
        a = tw.call(tw.t1, lambda: h[0].callRemote("abort"))
        b = tw.call(tw.t2, lambda: h[1].callRemote("abort"))
        if check:
            if h[2]:
                if not same(a, b):
                    viols.append(("abort-differs", "%s on a live upload: http=%s foolscap=%s" % (tag, show(a), show(b))))
            else:
                tw.notes.append("abort-dead-handle:%s/%s" % (a[0], b[0]))   # documented difference (405 vs nothing)
        h[2] = False
    elif name == "add_lease":
        si = k.A if op[1] == "A" else k.Z
        a, b = tw.both(lambda s, i: s.add_lease(si, k.renew[op[2]], k.cancel[op[2]]))
        if check and not same(a, b):
            viols.append(("add_lease-differs", "%s: http=%s foolscap=%s" % (tag, show(a), show(b))))
    elif name == "advise":
        a, b = tw.both(lambda s, i: s.advise_corrupt_share(b"immutable", k.A, op[2], REASON))
        if check and not same(a, b):
            viols.append(("advise-differs", "%s: http=%s foolscap=%s" % (tag, show(a), show(b))))
    elif name == "sweep":
        n = imm_reads(tw, size, all_pairs(size), viols, "sweep")
        tw.notes.append("sweep-reads:%d" % n)
    elif name == "read0":
        if check:
            imm_reads(tw, size, [(1, 0)], viols, "read0")
    else:
        raise ValueError(op)


def imm_replay(hist, seed=None, size=4):
    seed = boot.SEED if seed is None else seed
    tw = Twins(seed, b"c31-imm")
    model = ImmModel(size)
    viols = []
    try:
        for i, op in enumerate(hist):
            last = i == len(hist) - 1
            imm_apply(tw, model, size, op, viols, last)
        if not hist or hist[-1][0] != "sweep":
            imm_reads(tw, size, few_pairs(size), viols, "after %r" % (hist[-1] if hist else "nothing"))
        tw.compare_state(viols, hist[-1][0] if hist else "start")
        canon = ("imm", tw.canon_state())
        ops = imm_ops(size, tw.handles)
    finally:
        tw.close()
    canon = hashlib.sha256(repr(canon).encode()).hexdigest()
    return canon, _dedup(viols), ops


def _dedup(viols):
    out, seen = [], set()
    for sig, msg in viols:
        if sig not in seen:
            seen.add(sig)
            out.append((sig, msg))
    return out


# ------------------------------------------------------------------ mutable part
def mut_requests():
    """name -> (enabler id, lease id, tw_vectors, read vector)"""
    return {
        "create": (1, 1, {0: ([], [(0, b"abcd")], None)}, [(0, 10)]),
        "patch": (1, 1, {0: ([], [(2, b"XY")], None)}, []),
        "gap": (1, 1, {0: ([], [(6, b"Z")], None)}, [(0, 100)]),
        "trunc": (1, 1, {0: ([], [], 2)}, [(1, 3)]),
        "delete": (1, 1, {0: ([], [], 0)}, []),
        "test-ab": (1, 1, {0: ([(0, 2, b"ab")], [(0, b"Q")], None)}, [(0, 3)]),
        "new1-if-empty": (1, 1, {1: ([(0, 1, b"")], [(0, b"1st")], None)}, []),
        "two-shares": (1, 1, {0: ([(0, 2, b"zz")], [(0, b"NO")], None), 1: ([], [(0, b"YES")], None)}, [(0, 2)]),
        "wrong-enabler": (2, 1, {0: ([], [(0, b"EVIL")], None)}, [(0, 4)]),
        "lease2": (1, 2, {0: ([], [(1, b"r")], None)}, []),
        "read-only": (1, 1, {}, [(0, 100), (3, 2)]),
        "two-writes": (1, 1, {0: ([], [(0, b"ab"), (4, b"cd")], 50)}, [(5, 1)]),
    }


MUT = mut_requests()


def mut_ops():
    ops = [["rtw", n] for n in MUT]
    ops += [["add_lease", "M", 1], ["add_lease", "M", 2], ["advise", "mutable", 0], ["readv-missing"], ["readv0"], ["sweep"]]
    return ops


def mut_observe(tw, viols, tag, full):
    k = tw.k
    lengths = []
    present = sorted(set(tw.t1.ss.enumerate_mutable_shares(k.M)) & set(tw.t2.ss.enumerate_mutable_shares(k.M)))
    for sh in present:
        try:
            lengths.append(tw.t2.ss.get_mutable_share_length(k.M, sh))
        except Exception:  # noqa
            pass
    ln = max(lengths or [0])
    n = 0
    # zero-length ranges and shares that are not stored are the separate ops readv0 / readv-missing
    if full:
        pairs = [(o, l) for o in range(ln + 3) for l in range(1, ln + 4)]
        queries = [([], pairs)]
        if present:
            queries += [(present[:1], [(0, ln + 1), (1, 2)]), (list(reversed(present)), [(0, 3)])]
    else:
        queries = [([], [(0, 100), (2, 3), (ln, 1), (ln + 2, 2)])]
        if present:
            queries.append((present[:1], [(0, 4)]))
    for shares, rv in queries:
        a, b = tw.both(lambda s, i: s.slot_readv(k.M, shares, rv))
        n += len(rv)
        if not same(a, b):
            if a[0] == "ok" and b[0] == "ok" and len(a[1]) == len(b[1]):
                # find the first differing read
                for (ka, va), (kb, vb) in zip(a[1][1:], b[1][1:]):
                    if ka != kb:
                        viols.append(("slot_readv-differs:shares", "%s: slot_readv(%r): share sets http=%r foolscap=%r" % (tag, shares, ka, kb)))
                        break
                    for j, (x, y) in enumerate(zip(va, vb)):
                        if x != y:
                            o, l = rv[j]
                            kind = "zero-length" if l == 0 else ("past-end" if o >= ln else ("overrun" if o + l > ln else "inside"))
                            viols.append(("slot_readv-differs:" + kind, "%s: slot_readv(shares=%r) share %r read (offset %d, length %d): http=%r foolscap=%r (longest share %d bytes)" % (tag, shares, ka, o, l, x, y, ln)))
                            break
                    else:
                        continue
                    break
            else:
                viols.append(("slot_readv-differs:%s/%s" % (a[0], b[0]), "%s: slot_readv(shares=%r, %d ranges, longest share %d bytes): http=%s foolscap=%s" % (tag, shares, len(rv), ln, show(a)[:300], show(b)[:300])))
    return n


def mut_apply(tw, op, viols, check):
    k = tw.k
    tag = repr(op)
    name = op[0]
    if name == "rtw":
        eid, lid, twv, rv = MUT[op[1]]
        secrets = (k.W[eid], k.renew[lid], k.cancel[lid])
        a, b = tw.both(lambda s, i: s.slot_testv_and_readv_and_writev(k.M, secrets, twv, rv))
        if check and not same(a, b):
            viols.append(("rtw-differs:%s/%s" % (a[0], b[0]), "%s %r: http=%s foolscap=%s" % (tag, MUT[op[1]][2:], show(a), show(b))))
    elif name == "add_lease":
        a, b = tw.both(lambda s, i: s.add_lease(k.M, k.renew[op[2]], k.cancel[op[2]]))
        if check and not same(a, b):
            viols.append(("add_lease-differs", "%s: http=%s foolscap=%s" % (tag, show(a), show(b))))
    elif name == "advise":
        a, b = tw.both(lambda s, i: s.advise_corrupt_share(b"mutable", k.M, op[2], REASON))
        if check and not same(a, b):
            viols.append(("advise-differs", "%s: http=%s foolscap=%s" % (tag, show(a), show(b))))
    elif name == "readv-missing":
        a, b = tw.both(lambda s, i: s.slot_readv(k.M, [7], [(0, 4)]))
        if check and not same(a, b):
            viols.append(("slot_readv-missing-share:%s/%s" % (a[0], b[0]), "slot_readv(shares=[7] (not stored), [(0,4)]): http=%s foolscap=%s" % (show(a), show(b))))
    elif name == "readv0":
        a, b = tw.both(lambda s, i: s.slot_readv(k.M, [], [(1, 0)]))
        if check and not same(a, b):
            viols.append(("slot_readv-zero-length:%s/%s" % (a[0], b[0]), "slot_readv(shares=[], [(offset 1, length 0)]): http=%s foolscap=%s" % (show(a), show(b))))
    elif name == "sweep":
        n = mut_observe(tw, viols, "sweep", True)
        tw.notes.append("sweep-reads:%d" % n)
    else:
        raise ValueError(op)


def mut_replay(hist, seed=None):
    seed = boot.SEED if seed is None else seed
    tw = Twins(seed, b"c31-mut")
    viols = []
    try:
        for i, op in enumerate(hist):
            mut_apply(tw, op, viols, i == len(hist) - 1)
        if not hist or hist[-1][0] != "sweep":
            mut_observe(tw, viols, "after %r" % (hist[-1] if hist else "nothing"), False)
        tw.compare_state(viols, hist[-1][0] if hist else "start")
        canon = ("mut", tw.canon_state())
    finally:
        tw.close()
    canon = hashlib.sha256(repr(canon).encode()).hexdigest()
    return canon, _dedup(viols), mut_ops()


# ------------------------------------------------------------------ upload plans
def compositions(n, maxparts):
    out = []
    for parts in range(1, maxparts + 1):
        for cuts in itertools.combinations(range(1, n), parts - 1):
            b = (0,) + cuts + (n,)
            out.append([(b[i], b[i + 1] - b[i]) for i in range(parts)])
    return out


def all_plans(size):
    plans = []
    for comp in compositions(size, 3):
        for order in itertools.permutations(range(len(comp))):
            plans.append([comp[i] for i in order])
    return plans


def plan_check(case, seed=None):
    """case = {"size": n, "plan": [(off, len), ...]}"""
    seed = boot.SEED if seed is None else seed
    size, plan = case["size"], [tuple(c) for c in case["plan"]]
    tw = Twins(seed, b"c31-plan")
    tw.k.data[0] = (tw.k.data[0] * 2)[:size]
    model = ImmModel(size)
    viols = []
    try:
        imm_apply(tw, model, size, ["alloc", [0], 1], viols, True)
        tw.compare_state(viols, "alloc")
        for j, (off, ln) in enumerate(plan):
            imm_apply(tw, model, size, ["write", 0, off, ln, "d"], viols, True)
            tw.compare_state(viols, "write", "chunk %d of upload plan %r" % (j + 1, plan))
            a, b = tw.both(lambda s, i: s.get_buckets(tw.k.A))
            if not same(a, b):
                viols.append(("get_buckets-differs", "after chunk %d of plan %r: get_buckets http=%s foolscap=%s" % (j + 1, plan, show(a), show(b))))
            elif a[0] == "ok":
                visible = bool(a[2])
                if visible != (j == len(plan) - 1):
                    viols.append(("completion-detection", "share visible=%r after chunk %d/%d of plan %r (both paths)" % (visible, j + 1, len(plan), plan)))
        n = imm_reads(tw, size, all_pairs(size), viols, "after upload plan %r" % (plan,))
        if n != len(all_pairs(size)) and not viols:
            viols.append(("plan-share-not-readable", "after plan %r only %d reads were possible" % (plan, n)))
    finally:
        tw.close()
    return _dedup(viols), n


def _plan_chunk(chunk, seed):
    res = common.Result()
    for case in chunk:
        viols, n = plan_check(case, seed)
        res.count("plan_transitions", len(case["plan"]) + 1)
        res.count("plan_reads", n)
        res.count("plans")
        for sig, msg in viols:
            res.violation(sig, {"kind": "plan", "size": case["size"], "plan": case["plan"], "seed": seed}, msg)
        if len(case["plan"]) == 3 and case["plan"][0][0] != 0:
            res.sample({"upload_plan": case})
    return res


# ------------------------------------------------------------------ part 5: shares larger than one streaming piece
BIG = 200000
BIG_PAIRS = [(0, BIG), (0, 65535), (0, 65536), (0, 65537), (1, 65536), (1, 65537), (65535, 2), (65536, 65536), (70000, 100000),
             (0, 131072), (0, 131073), (100, 131072), (131071, 3), (BIG - 70000, 70000), (BIG - 70000, 90000), (BIG - 1, 5), (BIG, 1)]


def big_check(case, seed=None):
    """a 200000-byte immutable share (uploaded in 3 chunks) and a 200000-byte mutable share: reads longer than the
    64 KiB pieces the HTTP server streams, at zero and non-zero offsets, compared between the two paths"""
    seed = boot.SEED if seed is None else seed
    tw = Twins(seed, b"c31-big")
    viols = []
    n = 0
    try:
        k = tw.k
        if case["what"] == "imm":
            tw.k.data[0] = bytes((i * 7 + (i >> 8) * 13 + seed) % 251 for i in range(BIG))
            model = ImmModel(BIG)
            imm_apply(tw, model, BIG, ["alloc", [0], 1], viols, True)
            for (off, ln) in ((0, 60000), (60000, 80000), (140000, 60000)):
                imm_apply(tw, model, BIG, ["write", 0, off, ln, "d"], viols, True)
            n = imm_reads(tw, BIG, BIG_PAIRS, viols, "200000-byte immutable share")
            if n != len(BIG_PAIRS) and not viols:
                viols.append(("big-share-not-readable", "only %d of %d reads were possible" % (n, len(BIG_PAIRS))))
        else:
            data = bytes((i * 11 + (i >> 8) * 5 + seed) % 251 for i in range(BIG))
            secrets = (k.W[1], k.renew[1], k.cancel[1])
            a, b = tw.both(lambda s, i: s.slot_testv_and_readv_and_writev(k.M, secrets, {0: ([], [(0, data)], None)}, []))
            if not same(a, b) or a[0] != "ok":
                viols.append(("rtw-differs:%s/%s" % (a[0], b[0]), "creating the 200000-byte mutable share: http=%s foolscap=%s" % (show(a), show(b))))
            for (o, l) in BIG_PAIRS:
                a, b = tw.both(lambda s, i: s.slot_readv(k.M, [0], [(o, l)]))
                n += 1
                if not same(a, b):
                    viols.append(("slot_readv-differs:big", "slot_readv(offset %d, length %d) of a 200000-byte mutable share: http=%s foolscap=%s" % (o, l, show(a)[:120], show(b)[:120])))
                elif a[0] == "ok" and a[2].get(0) != [data[o:o + l]]:
                    viols.append(("slot_readv-wrong:big", "slot_readv(offset %d, length %d) on both paths differs from the bytes written" % (o, l)))
            # several ranges in one request
            rv = [(0, 70000), (130000, 70000), (65536, 65537)]
            a, b = tw.both(lambda s, i: s.slot_readv(k.M, [0], rv))
            n += 1
            if not same(a, b):
                viols.append(("slot_readv-differs:big", "slot_readv(%r): http and foolscap differ" % (rv,)))
    finally:
        tw.close()
    return _dedup(viols), n


def _big_chunk(chunk, seed):
    res = common.Result()
    for case in chunk:
        viols, n = big_check(case, seed)
        res.count("big_reads", n)
        for sig, msg in viols:
            res.violation(sig, {"kind": "big", "what": case["what"], "seed": seed}, msg)
    return res


# ------------------------------------------------------------------ part 4: two uploads in progress at once
def twosi_orders():
    """every interleaving of two three-step uploads (allocate share 0, write first half, write second half
    + close) of DIFFERENT storage indexes that use the same share number"""
    out = []
    for pos in itertools.combinations(range(6), 3):
        out.append("".join("A" if i in pos else "B" for i in range(6)))
    return out


def twosi_check(case, seed=None):
    seed = boot.SEED if seed is None else seed
    order = case["order"]
    tw = Twins(seed, b"c31-2si")
    k = tw.k
    size = 4
    sis = {"A": k.A, "B": k.Z}
    data = {"A": k.data[0][:size], "B": k.alt[0][:size]}
    lease = {"A": 1, "B": 2}
    handles, step, viols = {}, {"A": 0, "B": 0}, []
    try:
        for j, who in enumerate(order):
            st = step[who]
            step[who] += 1
            tag = "step %d of interleaving %s (%s: %s)" % (j + 1, order, who, ("allocate", "write [0,2)", "write [2,4) + close")[st])
            if st == 0:
                a, b = tw.both(lambda s, i: s.allocate_buckets(sis[who], k.renew[lease[who]], k.cancel[lease[who]], {0}, size, tw.canary))
                if not same(a, b):
                    viols.append(("two-uploads:allocate-differs", "%s: http=%s foolscap=%s" % (tag, show(a), show(b))))
                if a[0] != "ok" or b[0] != "ok" or 0 not in a[2][1] or 0 not in b[2][1]:
                    viols.append(("two-uploads:allocate-refused", "%s: http=%s foolscap=%s" % (tag, show(a), show(b))))
                    break
                handles[who] = (a[2][1][0], b[2][1][0])
            else:
                off = 0 if st == 1 else 2
                chunk = data[who][off:off + 2]
                h = handles[who]
                a = tw.call(tw.t1, lambda: h[0].callRemote("write", off, chunk))
                b = tw.call(tw.t2, lambda: h[1].callRemote("write", off, chunk))
                if not same(a, b) or a[0] != "ok":
                    viols.append(("two-uploads:write-differs:%s/%s" % (a[0], b[0]), "%s: http=%s foolscap=%s" % (tag, show(a), show(b))))
                    break
                if st == 2:
                    ca = tw.call(tw.t1, lambda: h[0].callRemote("close"))
                    cb = tw.call(tw.t2, lambda: h[1].callRemote("close"))
                    if ca[0] != cb[0] or ca[0] != "ok":
                        viols.append(("two-uploads:close-differs:%s/%s" % (ca[0], cb[0]), "%s: http=%s foolscap=%s" % (tag, show(ca), show(cb))))
                        break
            tw.compare_state(viols, "two-uploads", tag)
        if not viols:
            for who in ("A", "B"):
                a, b = tw.both(lambda s, i: s.get_buckets(sis[who]))
                if not same(a, b) or a[0] != "ok" or 0 not in a[2] or 0 not in b[2]:
                    viols.append(("two-uploads:share-not-visible", "after interleaving %s upload %s: get_buckets http=%s foolscap=%s" % (order, who, show(a), show(b))))
                    continue
                x = tw.call(tw.t1, lambda: a[2][0].callRemote("read", 0, size))
                y = tw.call(tw.t2, lambda: b[2][0].callRemote("read", 0, size))
                if not same(x, y) or x[0] != "ok" or x[2] != data[who]:
                    viols.append(("two-uploads:wrong-contents", "after interleaving %s upload %s reads back http=%s foolscap=%s, written %r" % (order, who, show(x), show(y), data[who])))
    finally:
        tw.close()
    return _dedup(viols)


def _twosi_chunk(chunk, seed):
    res = common.Result()
    for order in chunk:
        case = {"kind": "twosi", "order": order, "seed": seed}
        res.count("twosi_interleavings")
        res.count("twosi_steps", 6)
        for sig, msg in twosi_check(case, seed):
            res.violation(sig, case, msg)
    return res


def version_check(seed):
    tw = Twins(seed, b"c31-ver")
    viols = []
    try:
        a, b = tw.both(lambda s, i: s.get_version())
        if a[0] != "ok" or b[0] != "ok":
            viols.append(("get_version-differs", "http=%s foolscap=%s" % (show(a)[:200], show(b)[:200])))
        else:
            v1 = b"http://allmydata.org/tahoe/protocols/storage/v1"
            x, y = dict(a[2][v1]), dict(b[2][v1])
            for kk in (b"available-space", b"maximum-immutable-share-size"):
                x.pop(kk, None), y.pop(kk, None)
            if x != y or a[2][b"application-version"] != b[2][b"application-version"]:
                viols.append(("get_version-differs", "http=%r foolscap=%r" % (x, y)))
    finally:
        tw.close()
    return viols


# ------------------------------------------------------------------ entry points
def replay_tagged(hist, seed):
    """hist[0] = ["domain", "imm"|"mut"|"plan"].  -> (canon, violations, ops, reads compared)"""
    dom, rest = hist[0][1], hist[1:]
    if dom == "imm":
        c, v, ops = imm_replay(rest, seed)
        return "imm:" + c, v, ops
    if dom == "mut":
        c, v, ops = mut_replay(rest, seed)
        return "mut:" + c, v, ops
    if not rest:
        return "plan:root", [], [["plan", sz, p] for sz in (4, 6) for p in all_plans(sz)]
    _, sz, plan = rest[0]
    v, n = plan_check({"size": sz, "plan": plan}, seed)
    return "plan:%d:%r" % (sz, plan), v, []


def replay(case):
    seed = case.get("seed")
    seed = boot.SEED if seed is None else seed
    if case.get("kind") == "plan":
        return plan_check(case, seed)[0]
    if case.get("kind") == "big":
        return big_check(case, seed)[0]
    if case.get("kind") == "version":
        return version_check(seed)
    if case.get("kind") == "twosi":
        return twosi_check(case, seed)
    hist = case["history"]
    if hist and hist[0][0] == "domain":
        return replay_tagged(hist, seed)[1]
    names = set(op[0] for op in hist)
    if names & {"rtw", "readv-missing", "readv0"} or any(op[0] in ("add_lease", "advise") and op[1] in ("M", "mutable") for op in hist):
        return mut_replay(hist, seed)[1]
    return imm_replay(hist, seed)[1]


def _level(chunk, seed):
    res = common.Result()
    out = []
    for hist in chunk:
        canon, viols, ops = replay_tagged(hist, seed)
        dom = hist[0][1]
        res.count("transitions:" + dom)
        for sig, msg in viols:
            res.violation(sig, {"history": hist, "seed": seed}, msg)
        out.append((hist, canon, bool(viols), ops))
    res.notes["out"] = out
    return res


def explore(depth, seed, max_states=40000):
    """hbfs.explore's algorithm (level-synchronous BFS over histories, dedup on canon, states with
    a violation not expanded, shortest counterexample first) with the three domains advanced in
    the SAME level so that one worker pool per level serves all of them (a pool costs seconds of
    copy-on-write warm-up per worker here), and with per-domain counters."""
    total = common.Result()
    seen = {}
    frontier = [[["domain", d]] for d in ("imm", "mut", "plan")]
    level = 0
    capped = False
    while frontier:
        part = common.pmap(_level, frontier, (seed,))
        outs = part.notes.pop("out", [])
        total.merge(part)
        nxt = []
        for hist, canon, bad, ops in outs:
            if canon in seen:
                continue
            seen[canon] = hist
            dom = hist[0][1]
            total.count("states:" + dom)
            if len(seen) % 211 == 1 and dom != "plan":
                total.sample({"history": hist})
            if bad or level >= depth:
                continue
            if len(seen) > max_states:
                capped = True
                continue
            for op in ops:
                nxt.append(hist + [op])
        frontier = nxt
        level += 1
    total.notes["capped"] = capped
    return total


def run(tier, seed):
    global TIER
    TIER = tier
    depth = 4 if tier == "quick" else 5
    if os.environ.get("VERIF_MAXDEPTH"):      # development / detection demos only: shallower search
        depth = min(depth, int(os.environ["VERIF_MAXDEPTH"]))
    total = common.Result()
    for sig, msg in version_check(seed):
        total.violation(sig, {"kind": "version"}, msg)
    total.merge(explore(depth, seed))
    total.merge(common.pmap(_twosi_chunk, twosi_orders(), (seed,)))
    total.merge(common.pmap(_big_chunk, [{"what": "imm"}, {"what": "mut"}], (seed,), chunks=2))
    c = total.counts
    nplans = c.get("transitions:plan", 0) - 1
    plan_steps = sum(len(p) + 1 for sz in (4, 6) for p in all_plans(sz)) if nplans > 0 else 0
    tr = c.get("transitions:imm", 0) + c.get("transitions:mut", 0) + plan_steps
    cov = {
        "states": c.get("states:imm", 0) + c.get("states:mut", 0) + max(0, c.get("states:plan", 0) - 1),
        "transitions": tr,
        "traces_validated_against_impl": tr,
        "immutable_states": c.get("states:imm", 0), "immutable_transitions": c.get("transitions:imm", 0),
        "mutable_states": c.get("states:mut", 0), "mutable_transitions": c.get("transitions:mut", 0),
        "upload_plans": nplans, "upload_plan_steps": plan_steps,
        "reads_per_plan_sweep": {"size4": len(all_pairs(4)), "size6": len(all_pairs(6))},
        "big_share_reads": c.get("big_reads", 0), "two_upload_interleavings": c.get("twosi_interleavings", 0), "two_upload_steps": c.get("twosi_steps", 0),
        "bfs_depth": depth,
        "state_cap_hit": bool(total.notes.get("capped")),
        "rule": "twin real servers (HTTP path / Foolscap path); BFS to depth %d over the immutable alphabet (allocate x2 quick / x3 thorough, every sub-range write of a 4-byte share, conflicting and overflowing writes, dead-handle write, abort, add_lease, advise, zero-length read, full read sweep) and over the mutable alphabet (12 read-test-write requests, add_lease, advise, readv of a missing share, zero-length readv, full slot_readv sweep); every transition runs both real paths and compares results, directory digests and BucketWriter tables; plus every composition of a 4- and a 6-byte share into <= 3 chunks in every order (%d plans; each chunk is a compared step, a plan whose share cannot be read back completely is a violation) with every (offset <= size+2, 1 <= length <= size+3) read; plus all 20 interleavings of two three-step uploads of different storage indexes using the same share number, compared after every step and read back" % (depth, nplans),
    }
    return total, cov


MANIFEST = {
    "engine": "H",
    "technique": "differential explicit-state search: the same IStorageServer operation histories are executed on twin real storage servers, one through the HTTP client/server stack (StubTreq, no network) and one through the Foolscap-side wrappers called directly, with breadth-first enumeration of histories (hbfs's algorithm, one worker pool per level for all domains) and exhaustive enumeration of chunked-upload plans",
    "text": "Every history up to depth 4 (thorough 5) over an immutable alphabet (allocate, every sub-range write of a 4-byte share, conflicting/overflowing/dead-handle writes, abort, add_lease, advise, zero-length read, full read sweep) and a mutable alphabet (12 read-test-write requests, add_lease, advise, reads of missing shares and zero-length ranges, full slot_readv sweep) is run on both paths; after every step the client-visible results (exception types mapped through a class table), the byte digests of the two storage directories and the in-progress upload tables must be equal. In addition every way of cutting a 4- and a 6-byte share into at most 3 chunks, in every order, is uploaded on both paths and every read with offset <= size+2 is compared. Part 5: 200000-byte immutable and mutable shares read around the HTTP server's 64 KiB streaming piece size.",
    "note": "Trusted: the local IRemoteReference stand-in (no foolscap serialisation or schema checks) and the reference bitmap that decides when close() is issued. By-design differences accepted: value returned by close(), abort through a handle of a finished/aborted upload (HTTP 405 vs silent), exception types, incomplete-share close (not issued). Known disagreements on the unchanged tree have their own signatures: read-differs:zero-length, slot_readv-zero-length:error/ok, slot_readv-missing-share:error/ok.",
}
