"""C09  Mutable files read back what one writer wrote  (Engine H over Engine G, model checking).

State = (format, content) of one mutable file on a 2-of-3 grid (3 real storage servers, MDMF
segment size rebound to 12 bytes).  BFS over ALL histories of operations
    overwrite(size)  modify(append | replace-all | no-op | None)  update(len, offset)
from every initial size, de-duplicated on (format, size): the code never branches on byte
values (contents are position-dependent patterns, so any misplaced byte is still visible to the
oracle, which tracks the exact bytes of the history actually replayed).  Every transition is
executed on a fresh grid by replaying its history; the LAST operation is additionally executed
under every schedule with <= d deviations.  After it: download_best_version() and a catalogue of
range reads must equal the reference bytearray; an operation that errbacks must leave the
contents unchanged, and is itself a violation for operations the API documents as valid.
"""
from .. import boot, common, grid, lib_imm, lib_mut
from ..lib_mut import SEG, pattern
from allmydata.mutable.publish import MutableData

LEVEL = "model_checking"
ASSUMPTIONS = [
    "MDMF segment size rebound to 12 bytes: segment arithmetic does not depend on the absolute segment size",
    "2-of-3 encoding on 3 servers, one writer, honest servers",
    "states are merged on (format, size): no branch of the code depends on plaintext byte values",
    "history length 8 of the property is reached only through de-duplication (every state reachable within the depth bound is a start state)",
]

INIT_SIZES = [0, 1, SEG, SEG + 1, 2 * SEG, 4 * SEG, 4 * SEG + 1]
OVERWRITE_SIZES = [0, 1, SEG, 2 * SEG + 1, 4 * SEG]
UPD_LENS = [1, SEG - 1, SEG, SEG + 1, 2 * SEG + 1]
RANGES = [(0, None), (0, 1), (SEG - 1, 2), (SEG, SEG), (1, 3 * SEG), (5, 0)]


def ops_for(size):
    ops = [["overwrite", s] for s in OVERWRITE_SIZES]
    ops += [["modify", "append"], ["modify", "replace"], ["modify", "noop"], ["modify", "none"]]
    offs = sorted(set(o for o in [0, 1, SEG - 1, SEG, SEG + 1, 2 * SEG, size - 1, size] if 0 <= o <= size))
    for off in offs:
        for ln in UPD_LENS:
            ops.append(["update", ln, off])
    # growth across 2->3 and 4->5 segments
    ops.append(["update", 3 * SEG - size + 1 if size < 3 * SEG else 1, size])
    return ops


def apply_ref(ref, op, tag):
    """reference semantics; returns new bytes"""
    if op[0] == "overwrite":
        return pattern(tag, op[1])
    if op[0] == "modify":
        if op[1] == "append":
            return ref + pattern(tag, 5)
        if op[1] == "replace":
            return pattern(tag, 7)
        return ref
    ln, off = op[1], op[2]
    data = pattern(tag, ln)
    return ref[:off] + data + ref[off + ln:]


def start_op(g, node, ref, op, tag):
    """returns a Deferred for the operation"""
    if op[0] == "overwrite":
        return node.overwrite(MutableData(pattern(tag, op[1])))
    if op[0] == "modify":
        kind = op[1]

        def modifier(old, servermap, first_time):
            if kind == "append":
                return old + pattern(tag, 5)
            if kind == "replace":
                return pattern(tag, 7)
            if kind == "noop":
                return old
            return None
        return node.modify(modifier)
    ln, off = op[1], op[2]
    d = node.get_best_mutable_version()
    d.addCallback(lambda mv: mv.update(MutableData(pattern(tag, ln)), off))
    return d


def classify_errback(op, size, name):
    if op[0] == "update" and op[2] == size and size % SEG == 0:
        return "update-append-at-segment-boundary:errback"
    return "%s:errback:%s" % (op[0], name)


def run_history(fmt, init, hist, prefix, check_ranges=True, batch=False):
    """replay hist (default schedule), the last op under `prefix`.  returns trace, viols, obs"""
    ch = grid.Chooser(prefix)
    g = grid.Grid(3, chooser=ch, client_kw=dict(k=2, n=3, happy=2))
    g.sched.batch = batch     # turn granularity, see grid.Sched.batch
    viol, obs = [], {}
    try:
        ref = pattern(0, init)
        b = lib_mut.create(g, fmt, ref)
        if not b or b[0][0] != "ok":
            viol.append(("create-failed", "create(%s, %d bytes) failed: %r" % (fmt, init, b)))
            return ch.trace, viol, obs
        node = b[0][1]
        for i, op in enumerate(hist):
            last = (i == len(hist) - 1)
            tag = i + 1
            want = apply_ref(ref, op, tag)
            size_before = len(ref)
            b = g.wait(start_op(g, node, ref, op, tag), explore=last)
            if not b:
                viol.append(("operation-hangs", "op %r on %s file of %d bytes never completed" % (op, fmt, size_before)))
                return ch.trace, viol, obs
            if b[0][0] == "ok":
                ref = want
                obs["last"] = "ok"
            else:
                name = lib_imm.failure_name(b[0][1])
                obs["last"] = "err:" + name
                if last:
                    viol.append((classify_errback(op, size_before, name),
                                 "%s on a %s file of %d bytes (history %r) failed: %s" % (op, fmt, size_before, hist[:-1], b[0][1].getErrorMessage()[:200])))
                # contents must be unchanged by a failed operation
            if last:
                g.quiesce()
                b2 = lib_mut.download(g, node)
                if not b2 or b2[0][0] != "ok":
                    viol.append(("download-failed-after:" + op[0], "download_best_version after %r failed: %r" % (op, b2 and lib_imm.failure_name(b2[0][1]))))
                elif b2[0][1] != ref:
                    got = b2[0][1]
                    diff = next((j for j, (x, y) in enumerate(zip(got, ref)) if x != y), min(len(got), len(ref)))
                    kind = "wrong-contents-after-failed-op" if obs["last"] != "ok" else "wrong-contents"
                    viol.append(("%s:%s" % (kind, op[0]), "after %r on %s file of %d bytes (history %r): read back %d bytes, expected %d, first difference at offset %d" % (op, fmt, size_before, hist[:-1], len(got), len(ref), diff)))
                elif check_ranges and not any(prefix):
                    for (off, sz) in RANGES:
                        if off >= len(ref) or (sz is not None and (sz == 0 or off + sz > len(ref))):
                            continue   # IMutableFileVersion.read requires an in-bounds, non-empty range
                        b3, cons = lib_mut.read_range(g, node, off, sz)
                        exp = ref[off:] if sz is None else ref[off:off + sz]
                        if not b3 or b3[0][0] != "ok":
                            if exp:
                                viol.append(("range-read-failed", "read(%d,%r) of %d-byte %s file failed: %r" % (off, sz, len(ref), fmt, b3 and lib_imm.failure_name(b3[0][1]))))
                        elif cons.data() != exp:
                            viol.append(("range-read-wrong-bytes", "read(%d,%r) of %d-byte %s file returned %d bytes, expected %d" % (off, sz, len(ref), fmt, len(cons.data()), len(exp))))
        obs["size"] = len(ref)
        obs["events"] = len(g.sched.log)
        for e in boot.R.take_errors():
            viol.append(("exception-in-timer:" + type(e.value).__name__, e.getTraceback()[-400:]))
        for (why, e) in boot.take_logged():
            viol.append(("uncaught-exception-in-callback:" + type(e.value).__name__, e.getTraceback()[-600:]))
    finally:
        g.close()
    return ch.trace, viol, obs


def _transitions(chunk, d_bound, batch=False):
    res = common.Result()
    out = []
    for (fmt, init, hist) in chunk:
        info = {}

        def ex(prefix):
            trace, viol, obs = run_history(fmt, init, hist, prefix, batch=batch)
            return trace, (viol, obs)

        def on_exec(prefix, trace, pair):
            viol, obs = pair
            res.count("executions")
            res.count("events", obs.get("events", 0))
            res.count("outcome:" + obs.get("last", "?"))
            if not any(prefix):
                info["size"] = obs.get("size")
                info["bad"] = bool(viol)
            for sig, msg in viol:
                res.violation(sig, {"fmt": fmt, "init": init, "history": hist, "prefix": prefix, "batch": batch}, msg + " schedule=%r%s" % (prefix, " (several answers per reactor turn)" if batch else ""))
        grid.explore_subtree(ex, [], d_bound, 0, on_exec, max_exec=400)
        res.count("transitions")
        out.append((fmt, init, hist, info.get("size"), info.get("bad", True)))
    res.notes["out"] = out
    return res


def replay(case):
    trace, viol, obs = run_history(case["fmt"], case["init"], case["history"], case["prefix"], batch=bool(case.get("batch")))
    return viol


def run(tier, seed):
    depth = 2 if tier == "quick" else 3
    total = common.Result()
    seen = {}
    frontier = []
    for fmt in ("SDMF", "MDMF"):
        for init in INIT_SIZES:
            seen[(fmt, init)] = (init, [])
            for op in ops_for(init):
                frontier.append((fmt, init, [op]))
    level = 1
    while frontier and level <= depth:
        # schedules: every first-level transition with d<=1 (quick) / d<=2 (thorough); deeper levels d=0 / d<=1
        d_bound = (1 if level == 1 else 0) if tier == "quick" else (2 if level == 1 else 1 if level == 2 else 0)
        r = common.pmap(_transitions, frontier, (d_bound,), chunks=min(len(frontier), 256))
        outs = r.notes.pop("out", [])
        total.merge(r)
        if level <= 2:
            # the same transitions with several answers delivered per reactor turn (grid.Sched.batch)
            r2 = common.pmap(_transitions, frontier, (max(0, d_bound - 1), True), chunks=min(len(frontier), 256))
            r2.notes.pop("out", None)
            r2.counts.pop("transitions", None)
            total.merge(r2)
        nxt = []
        for (fmt, init, hist, size, bad) in outs:
            if bad or size is None:
                continue
            if (fmt, size) in seen:
                continue
            seen[(fmt, size)] = (init, hist)
            if len(seen) % 9 == 0:
                total.sample({"format": fmt, "initial_size": init, "history": hist, "size_reached": size})
            if level < depth:
                for op in ops_for(size):
                    nxt.append((fmt, init, hist + [op]))
        frontier = nxt
        level += 1
    cov = {
        "states": len(seen),
        "transitions": total.counts.get("transitions", 0),
        "traces_validated_against_impl": total.counts.get("executions", 0),
        "executions_incl_schedules": total.counts.get("executions", 0),
        "remote_calls_delivered": total.counts.get("events", 0),
        "bfs_depth": depth,
        "outcomes": {k[8:]: v for k, v in total.counts.items() if k.startswith("outcome:")},
        "rule": "BFS over operation histories from %d initial sizes x {SDMF, MDMF}, states merged on (format, size), depth %d; last operation of every history under every schedule within the deviation bound of its level; levels 1-2 again with several answers delivered per reactor turn (one deviation less)" % (len(INIT_SIZES), depth),
    }
    return total, cov


MANIFEST = {
    "engine": "H over G",
    "technique": "explicit-state BFS over operation histories of a real mutable file on a virtual grid, bytearray reference stepped alongside, last operation under all delivery orders within a deviation bound",
    "text": "Every history of overwrite/modify/update operations up to the depth bound, from 7 initial sizes and both formats, is replayed on real MutableFileNode/Publish/Retrieve over 3 real storage servers; after each operation the full contents and a catalogue of range reads are compared with a bytearray reference. Offsets and lengths sit on and around segment boundaries and power-of-two segment counts.",
    "note": "States are merged on (format, size) - sound because no code path depends on plaintext byte values; the oracle uses the exact bytes of the replayed history. MDMF segment size rebound to 12 bytes.",
}
