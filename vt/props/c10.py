"""C10  Mutable reads return only published versions  (Engine G, fault enumeration).

File A: SDMF (1 segment) and MDMF (3 segments of 12 bytes; thorough also 1 segment), 2-of-3, one
share per server, two published versions v1, v2 of equal length; file B: another file (other key
pair, three versions) of the same shape; an attacker key pair.  The share files of the really
published versions are captured, damaged with an independent field map (vt/lib_mshare.py) and
written back; then a FRESH client (thorough: also one that has read the intact file before and so
already holds the verification key) built from the read-cap / write-cap calls
download_best_version() and a ranged MutableFileVersion.read().

Damage catalogue (each with all other shares intact AND with exactly k-1 other shares present):
 (a) every single-byte flip of the share data region of every share;
 (b) every header field and every offset-table entry set to edge values; every hash-chain node,
     block-hash-tree node, block, salt, the signature, the verification key, the encrypted private
     key, the signed prefix, and the whole hash chain / hash tree / share data region replaced by
     zeros, by the same field of v1, of file B, of a sibling share of v2;
 (c) every assignment share -> {v2 intact, v1 (rollback), B's share (seqnum 3), B's share of
     seqnum 2 carrying A's verification key, v2 re-signed by the attacker
     with pubkey+signature swapped, the same with a higher seqnum, higher seqnum + attacker's
     signature under the genuine pubkey, v2 prefix+signature+hashes over v1's blocks, v1's body
     under v2's prefix+signature, missing};
 (e) truncation of the share data at every length (container consistent) and of the file itself;
 (f) a share number stored TWICE (home server + a fourth server), every pair of 9 x 8 states;
 (g) two cooperating servers (single-segment SDMF and MDMF): share A's hash chain plants "leaf of share B = X"
     before contradicting the signed root, share B carries a changed block whose (recomputed) block hash tree
     root is X and a chain that only repeats that leaf - every ordered pair (A, B), the third share intact,
     also with a second intact copy of A's / B's share number on a fourth server.
Oracle: the result is content(v1), content(v2) or an error - never other bytes - and exactly
content(v2) whenever >= k untouched v2 shares are present; the read terminates.
"""
import gc
import itertools

from .. import boot, common, grid, lib_imm, lib_mut
from .. import lib_mshare as ms
from ..lib_mut import pattern, SEG
from allmydata.mutable.publish import MutableData
from allmydata import uri as tahoe_uri

LEVEL = "fault_enumeration"
ASSUMPTIONS = [
    "SHA-256d and RSA-PSS are treated as unforgeable/collision-free; the attacker holds B's and his own key pair, never A's signing key",
    "single-fault catalogue as listed; multi-share damage through the complete assignment of 10 share states to 3 shares",
    "allmydata's CPU thread pool is run synchronously by the harness; the substitution and field classes are repeated with CPU results delivered in a later reactor turn (as in production)",
    "2-of-3 files of 31 bytes (SDMF 1 segment, MDMF 3 segments of 12 bytes / 1 segment of 9 bytes), one share per server, default delivery order",
    "v1, v2 and file B have equal length, so that swapped fields are layout-compatible (the strongest substitution)",
]
K, N = 2, 3
FILES = {"SDMF": ("SDMF", 31), "MDMF": ("MDMF", 31), "MDMF1": ("MDMF", 9)}
SUBST_STATES = ["v2", "v1", "other", "other-genuinekey", "resigned", "resigned-newer", "badsig-newer", "v2prefix-v1blocks", "v1body-v2prefix", "missing",
                # the SAME unsigned edit of a signed header field on several shares (same seqnum and root hash as the genuine v2):
                "v2-datalen+1", "v2-iv-ff"]

_PREP = {}


def _publish_series(g, fmt, contents, ci=0):
    """create + overwrites on an honest grid; returns node, [snapshot after each publish]"""
    snaps = []
    b = lib_mut.create(g, fmt, contents[0], ci=ci)
    assert b and b[0][0] == "ok", b
    node = b[0][1]
    g.quiesce()
    snaps.append(g.save_disk())
    for c in contents[1:]:
        b = g.wait(node.overwrite(MutableData(c)))
        assert b and b[0][0] == "ok", b
        g.quiesce()
        snaps.append(g.save_disk())
    return node, snaps


def prepare(fkey, seed):
    key = (fkey, seed)
    if key in _PREP:
        return _PREP[key]
    fmt, size = FILES[fkey]
    boot.urandom.reset(seed, b"c10-prep-" + fkey.encode())
    ms.reset_clock()
    c1, c2 = pattern(10 * seed + 1, size), pattern(10 * seed + 2, size)
    g = grid.Grid(N, client_kw=dict(k=K, n=N, happy=1))
    try:
        node, snaps = _publish_series(g, fmt, [c1, c2])
        si = node.get_storage_index()
        cap_w, cap_r = node.get_uri(), node.get_readonly_uri()
        v1 = {sh: (sv, blob) for (sv, sh), blob in ms.slots_of(snaps[0], si).items()}
        v2 = {sh: (sv, blob) for (sv, sh), blob in ms.slots_of(snaps[1], si).items()}
    finally:
        g.close()
    g = grid.Grid(N, client_kw=dict(k=K, n=N, happy=1, key_start=5))
    try:
        nodeb, snapsb = _publish_series(g, fmt, [pattern(10 * seed + 5, size), pattern(10 * seed + 6, size), pattern(10 * seed + 7, size)])
        other = {sh: blob for (sv, sh), blob in ms.slots_of(snapsb[2], nodeb.get_storage_index()).items()}
        other2 = {sh: blob for (sv, sh), blob in ms.slots_of(snapsb[1], nodeb.get_storage_index()).items()}
    finally:
        g.close()
    boot.take_logged()
    boot.R.take_errors()
    assert sorted(v1) == sorted(v2) == sorted(other) == list(range(N))
    assert all(v1[sh][0] == v2[sh][0] for sh in v1)
    attacker = grid.fixture_keys()[9]
    out = {"fmt": fmt, "c1": c1, "c2": c2, "si": si, "cap": {"rw": cap_w, "ro": cap_r},
           "server": {sh: v2[sh][0] for sh in v2},
           "v1": {sh: v1[sh][1] for sh in v1}, "v2": {sh: v2[sh][1] for sh in v2}, "other": other, "other2": other2, "attacker": attacker,
           "datalen": len(ms.share_data(v2[0][1]))}
    # ground truth sanity through the independent parser
    for sh in range(N):
        assert ms.version_id(ms.share_data(out["v1"][sh]))[0] == 1 and ms.version_id(ms.share_data(out["v2"][sh]))[0] == 2
        assert ms.version_id(ms.share_data(other[sh]))[0] == 3
    _PREP[key] = out
    return out


def build(prep, sh, spec):
    """container file bytes of share `sh` in the state `spec` (None = no file)"""
    op = spec[0]
    blob = prep["v2"][sh]
    d2 = ms.share_data(blob)
    if op == "v2":
        return blob
    if op == "missing":
        return None
    if op == "rawtrunc":
        return blob[:spec[1]]
    d1 = ms.share_data(prep["v1"][sh])
    do = ms.share_data(prep["other"][sh])
    f = ms.fields(d2)
    if op == "v1":
        new = d1
    elif op == "other":
        new = do
    elif op == "flip":
        new = ms.flip(d2, spec[1], spec[2])
    elif op == "trunc":
        new = d2[:spec[1]]
    elif op == "set":
        new = ms.setint(d2, f[spec[1]], spec[2])
    elif op == "from":
        name, src = spec[1], spec[2]
        a, b = f[name]
        if src == "zeros":
            repl = b"\x00" * (b - a)
        else:
            sd = {"v1": d1, "other": do, "sib": ms.share_data(prep["v2"][(sh + 1) % N])}[src]
            fs = ms.fields(sd)
            if name not in fs or fs[name][1] - fs[name][0] != b - a:
                return "skip"            # (MDMF: the encrypted private key of another key pair has another length)
            repl = sd[fs[name][0]:fs[name][1]]
        if repl == d2[a:b]:
            return "skip"
        new = ms.put(d2, (a, b), repl)
    elif op == "other-genuinekey":
        # B's share of the SAME seqnum as v2, carrying A's verification key (B's signature)
        do2 = ms.share_data(prep["other2"][sh])
        fo = ms.fields(do2)
        if fo["verification_key"][1] - fo["verification_key"][0] != f["verification_key"][1] - f["verification_key"][0] or ms.version_id(do2)[0] != ms.version_id(d2)[0]:
            return "skip"
        new = ms.put(do2, fo["verification_key"], d2[f["verification_key"][0]:f["verification_key"][1]])
    elif op == "v2-datalen+1":
        new = ms.setint(d2, f["datalen"], ms._int(d2, *f["datalen"]) + 1)
    elif op == "v2-iv-ff":
        if "salt" not in f or f["salt"] != (41, 57):
            return "skip"           # MDMF has per-segment salts, no header IV
        new = ms.put(d2, f["salt"], b"\xff" * 16)
    elif op == "resigned":
        new = ms.resign(d2, prep["attacker"])
    elif op == "resigned-newer":
        new = ms.resign(d2, prep["attacker"], seqnum=3)
    elif op == "badsig-newer":
        new = ms.resign(d2, prep["attacker"], seqnum=3, swap_key=False)
    elif op in ("plant-block", "plant-chain"):
        # two servers cooperate (no key needed): `plant-block` = this share with a changed block, a block hash
        # tree recomputed over it (root X) and a share hash chain that only repeats "my leaf = X";
        # `plant-chain` (spec[1] = the other share) = this share with a share hash chain that first names
        # "leaf of the other share = X" and then contradicts the signed root (so this share is rejected).
        # Nothing ties X to the signed root: both must be rejected.
        from allmydata.util import hashutil as _hu
        target = sh if op == "plant-block" else spec[1]
        dt = ms.share_data(prep["v2"][target])
        ft = ms.fields(dt)
        if "block1" in ft or (ft["block_hash_tree"][1] - ft["block_hash_tree"][0]) != 32 or "block0" not in ft:
            return "skip"            # single-segment files only (one-leaf block hash tree)
        nb = ms.flip(dt, ft["block0"][0], 0x01)[ft["block0"][0]:ft["block0"][1]]
        X = _hu.block_hash((dt[ft["salt0"][0]:ft["salt0"][1]] + nb) if dt[0] == 1 else nb)
        leaf = (1 << (N - 1).bit_length()) - 1 + target
        entry = leaf.to_bytes(2, "big") + X
        a, b = f["share_hash_chain"]
        nent = (b - a) // 34
        if op == "plant-block":
            new = ms.put(d2, f["block0"], nb)
            new = ms.put(new, f["block_hash_tree"], X)
            new = ms.put(new, (a, b), entry * nent)
        else:
            junk = (0).to_bytes(2, "big") + b"\x5a" * 32
            if nent < 2:
                return "skip"
            new = ms.put(d2, (a, b), entry + junk * (nent - 1))
    elif op == "v2prefix-v1blocks":
        f1 = ms.fields(d1)
        if f1["share_data"][1] - f1["share_data"][0] != f["share_data"][1] - f["share_data"][0]:
            return "skip"
        new = ms.put(d2, f["share_data"], d1[f1["share_data"][0]:f1["share_data"][1]])
    elif op == "v1body-v2prefix":
        new = d1
        for name in ("signed_prefix", "signature"):
            new = ms.put(new, f[name], d2[f[name][0]:f[name][1]])
    else:
        raise ValueError(spec)
    return ms.container(blob, new)


def execute(case, seed):
    if case.get("cpu") == "async":
        with ms.async_cpu():
            return _execute(case, seed)
    return _execute(case, seed)


def _execute(case, seed):
    """case: fkey, cap ('ro'|'rw'), warm (bool), slots {str(shnum): spec}.  returns viol, obs"""
    prep = prepare(case["fkey"], seed)
    c1, c2 = prep["c1"], prep["c2"]
    viol, obs = [], {"outcomes": []}
    blobs = {}
    for sh in range(N):
        b = build(prep, sh, case["slots"][str(sh)])
        if isinstance(b, str):
            obs["skipped"] = True
            return viol, obs
        blobs[sh] = b
    intact = [sh for sh in range(N) if case["slots"][str(sh)][0] == "v2"]
    boot.urandom.reset(seed, b"c10-exec")
    ms.reset_clock()
    dup = case.get("dup")          # [shnum, spec]: a second copy of that share on a further server
    if dup is not None:
        blobs["dup"] = build(prep, dup[0], dup[1])
        if isinstance(blobs["dup"], str):
            obs["skipped"] = True
            return viol, obs
        if dup[1][0] == "v2" and dup[0] not in intact:
            intact.append(dup[0])
    g = grid.Grid(N + (1 if dup is not None else 0), nclients=2, client_kw=dict(k=K, n=N, happy=1))
    g.sched.batch = bool(case.get("batch"))     # turn granularity, see grid.Sched.batch
    ms.bound_pending(g)
    try:
        si = prep["si"]
        cap = prep["cap"][case["cap"]]
        node = g.clients[0].create_node_from_uri(cap)
        if case.get("warm"):
            for sh in range(N):
                ms.write_share(g, si, prep["server"][sh], sh, prep["v2"][sh])
            b0 = lib_mut.download(g, node)
            if not b0 or b0[0][0] != "ok" or b0[0][1] != c2:
                viol.append(("intact-file-unreadable", "download of the undamaged file gave %r" % (b0,)))
                return viol, obs
            g.quiesce()
        for sh in range(N):
            ms.write_share(g, si, prep["server"][sh], sh, blobs[sh])
        if dup is not None:
            ms.write_share(g, si, N, dup[0], blobs["dup"])
        desc = "%s %s-cap%s%s slots=%r%s" % (case["fkey"], case["cap"], " (node has read the intact file before)" if case.get("warm") else "", " (CPU-pool results in a later reactor turn)" if case.get("cpu") == "async" else "", case["slots"], " + second copy of share %d on a 4th server in state %r" % (dup[0], dup[1]) if dup is not None else "")

        def judge(what, b, got, w1, w2):
            if b == "livelock":
                obs["outcomes"].append("livelock")
                viol.append(("read-livelock", "%s: %s keeps issuing calls without completing" % (desc, what)))
                return
            if not b:
                obs["outcomes"].append("hang")
                viol.append(("read-never-completes", "%s: %s never fired although nothing is pending; log tail %r" % (desc, what, g.sched.log[-4:])))
                return
            if b[0][0] == "ok":
                if got == w2:
                    obs["outcomes"].append("v2")
                elif got == w1:
                    obs["outcomes"].append("v1")
                    if len(intact) >= K:
                        viol.append(("stale-version-with-k-intact-newest-shares", "%s: %s returned v1's contents although %d untouched v2 shares are present" % (desc, what, len(intact))))
                else:
                    obs["outcomes"].append("other-bytes")
                    kind = "wrong-bytes"
                    if got is not None and (w2.startswith(got) or w1.startswith(got)):
                        kind = "short-read-reported-success"
                    viol.append((kind, "%s: %s returned %d bytes %r that are neither v1's nor v2's contents" % (desc, what, len(got or b""), (got or b"")[:40])))
            else:
                name = lib_imm.failure_name(b[0][1])
                obs["outcomes"].append("err:" + name)
                if name == "HarnessError":
                    viol.append(("retrieve-spins-on-damaged-duplicate-share", "%s: %s never returns to the reactor: Retrieve re-activates the same damaged (server, share) for ever, issuing one advise_corrupt_share call per round (%s)" % (desc, what, b[0][1].getErrorMessage()[:120])))
                elif len(intact) >= K:
                    viol.append(("read-failed-with-k-intact-shares:" + name, "%s: %s failed (%s) although shares %r of v2 are untouched" % (desc, what, b[0][1].getErrorMessage()[:300], intact)))

        try:
            b = lib_mut.download(g, node)
        except grid.HarnessError:
            b = "livelock"
        judge("download_best_version()", b, b[0][1] if b and b != "livelock" and b[0][0] == "ok" else None, c1, c2)
        if case.get("ranged") and b != "livelock":
            g.quiesce()
            node2 = g.clients[1].create_node_from_uri(cap)
            off, ln = 5, len(c2) - 9
            try:
                b2, cons = lib_mut.read_range(g, node2, off, ln)
            except grid.HarnessError:
                b2, cons = "livelock", None
            judge("get_best_readable_version().read(%d,%d)" % (off, ln), b2, cons.data() if cons is not None else None, c1[off:off + ln], c2[off:off + ln])
        for e in boot.R.take_errors():
            viol.append(("exception-in-timer:" + type(e.value).__name__, e.getTraceback()[-400:]))
        obs["logged"] = sorted(set(type(e.value).__name__ for (why, e) in boot.take_logged()))
        obs["events"] = len(g.sched.log)
    finally:
        g.close()
    return viol, obs


# ------------------------------------------------------------------ intact shares beyond the servers asked first
SPREAD_S, SPREAD_N = 10, 6


def spread_prepare(fmt, seed):
    key = ("spread", fmt, seed)
    if key in _PREP:
        return _PREP[key]
    boot.urandom.reset(seed, b"c10-spread")
    ms.reset_clock()
    g = grid.Grid(SPREAD_S, client_kw=dict(k=K, n=SPREAD_N, happy=1))
    try:
        data = pattern(10 * seed + 3, 30)
        b = lib_mut.create(g, fmt, data)
        assert b and b[0][0] == "ok", b
        node = b[0][1]
        g.quiesce()
        si = node.get_storage_index()
        blobs = {sh: blob for (sv, sh), blob in ms.slots_of(g.save_disk(), si).items()}
        assert sorted(blobs) == list(range(SPREAD_N))
        out = {"si": si, "data": data, "blobs": blobs, "cap": {"ro": node.get_readonly_uri(), "rw": node.get_uri()}}
    finally:
        g.close()
    boot.take_logged()
    boot.R.take_errors()
    _PREP[key] = out
    return out


def execute_spread(case, seed):
    """2-of-6 on 10 servers, share number i at position place[i] of the reader's permuted server list, the
    first `nbad` share numbers damaged where only the retrieve can see it (one block byte).  A fresh client
    (read-cap / write-cap) reads: with >= k intact shares on answering servers the read must succeed."""
    fmt, place, nbad, cap = case["fmt"], case["place"], case["nbad"], case["cap"]
    prep = spread_prepare(fmt, seed)
    boot.urandom.reset(seed, b"c10-spread-exec")
    ms.reset_clock()
    g = grid.Grid(SPREAD_S, nclients=2, client_kw=dict(k=K, n=SPREAD_N, happy=1))
    g.sched.batch = bool(case.get("batch"))
    viol, obs = [], {"outcomes": []}
    ms.bound_pending(g)
    try:
        si = prep["si"]
        perm = [g.ids.index(s_.get_serverid()) for s_ in g.clients[1].storage_broker.get_servers_for_psi(si)]
        for sh, pos in enumerate(place):
            blob = prep["blobs"][sh]
            if sh < nbad:
                d = ms.share_data(blob)
                f = ms.fields(d)
                last = max(int(nm[5:]) for nm in f if nm.startswith("block") and nm[5:].isdigit())
                blob = ms.container(blob, ms.flip(d, f["block%d" % last][0] + 1))
            ms.write_share(g, si, perm[pos], sh, ms.rehome(blob, perm[pos], prep["cap"]["rw"]))
        node = g.clients[1].create_node_from_uri(prep["cap"][cap])
        try:
            b = lib_mut.download(g, node)
        except grid.HarnessError as e:
            b = None
            viol.append(("read-livelock", str(e)[:200]))
        intact = SPREAD_N - nbad
        desc = "%s 2-of-6 on 10 servers, shares at positions %r of the permuted list, shares 0..%d damaged in their last block, fresh %s-cap reader" % (fmt, place, nbad - 1, cap)
        if b is None:
            pass
        elif not b:
            obs["outcomes"].append("hang")
            viol.append(("read-never-completes", desc))
        elif b[0][0] == "ok":
            obs["outcomes"].append("ok")
            if b[0][1] != prep["data"]:
                viol.append(("wrong-bytes", "%s: read returned %d bytes that were never published" % (desc, len(b[0][1]))))
        else:
            name = lib_imm.failure_name(b[0][1])
            obs["outcomes"].append("err:" + name)
            if intact >= K:
                viol.append(("read-failed-with-k-intact-shares-beyond-first-servers:" + name, "%s: %d intact shares sit on answering servers, yet the read fails: %s" % (desc, intact, b[0][1].getErrorMessage()[:160])))
        obs["events"] = len(g.sched.log)
        obs["logged"] = sorted(set(type(f_.value).__name__ for (why, f_) in boot.take_logged()))
        boot.R.take_errors()
    finally:
        g.close()
    return viol, obs


def spread_damage_cases(tier):
    out = []
    places = list(itertools.combinations(range(SPREAD_S), SPREAD_N))
    if tier == "quick":
        places = places[::6]
    for fmt in ("SDMF", "MDMF"):
        for place in places:
            for nbad in (1, 2, 3, 4):
                for cap in ("ro", "rw"):
                    out.append({"fmt": fmt, "place": list(place), "nbad": nbad, "cap": cap, "cls": "spread-damage"})
    return out


def chunk(cases, seed):
    res = common.Result()
    gc.freeze()      # forked worker: keep the collector off the pages inherited from the parent
    for case in cases:
        viol, obs = (execute_spread if case.get("cls") == "spread-damage" else execute)(case, seed)
        if obs.get("skipped"):
            res.count("skipped_identical_or_incompatible")
            continue
        res.count("executions")
        res.count("class:" + case["cls"])
        res.count("remote_calls", obs.get("events", 0))
        res.distinct.add((case["cls"], tuple(obs["outcomes"])))
        for o in obs["outcomes"]:
            res.count("outcome:" + o)
        for o in obs.get("logged", ()):
            res.count("logged-exception:" + o)
        for sig, msg in viol:
            res.violation(sig, {"case": case}, msg)
        if case["cls"] in ("subst", "field") and obs["outcomes"] and obs["outcomes"][0].startswith("err") and res.counts.get("sampled", 0) < 2:
            res.count("sampled")
            res.sample({"case": case, "outcomes": obs["outcomes"]})
    return res


# ------------------------------------------------------------------ the catalogue
def single(fkey, cap, victim, mode, spec, cls, warm=False, ranged=False, other=None):
    slots = {}
    for sh in range(N):
        if sh == victim:
            slots[str(sh)] = spec
        elif mode == "intact":
            slots[str(sh)] = ["v2"]
        else:
            keep = other if other is not None else (victim + 1) % N
            slots[str(sh)] = ["v2"] if sh == keep else ["missing"]
    return {"fkey": fkey, "cap": cap, "warm": warm, "ranged": ranged, "slots": slots, "cls": cls}


def edge_values(v, width, total, is_offset):
    top = (1 << (8 * width)) - 1
    vals = {0, 1, v - 1, v + 1, v + 32, total, total + 1, top, 1 << (8 * width - 1)}
    if is_offset:
        vals |= {v - 32, v + 1000}
    else:
        vals |= {2, 3, 255, v * 2}
    return sorted(x for x in vals if 0 <= x <= top and x != v)


def field_cases(fkey, seed, caps, victims, modes, warm_too):
    prep = prepare(fkey, seed)
    out = []
    for victim in victims:
        d = ms.share_data(prep["v2"][victim])
        f = ms.fields(d)
        specs = []
        for name, (a, b) in sorted(f.items(), key=lambda kv: kv[1]):
            if name in ("root_hash", "salt"):
                continue
            if b <= 123 and name != "signed_prefix" and (name.startswith("o_") or name in ("version", "seqnum", "k", "N", "segsize", "datalen")):
                v = int.from_bytes(d[a:b], "big")
                for nv in edge_values(v, b - a, len(d), name.startswith("o_")):
                    specs.append(["set", name, nv])
        for name in sorted(f):
            if name.startswith("o_") or name in ("version", "seqnum", "k", "N", "segsize", "datalen", "gap"):
                continue
            for src in ("zeros", "v1", "other", "sib"):
                specs.append(["from", name, src])
        for spec in specs:
            for cap in caps:
                for mode in modes:
                    out.append(single(fkey, cap, victim, mode, spec, "field", ranged=True))
                    if warm_too:
                        out.append(single(fkey, cap, victim, mode, spec, "field", warm=True))
    return out


def flip_cases(fkey, seed, caps, victims, modes, masks=(0x01,), step=1, others=(None,)):
    prep = prepare(fkey, seed)
    out = []
    L = prep["datalen"]
    for victim in victims:
        for cap in caps:
            for mode in modes:
                for other in (others if mode == "needed" else (None,)):
                    if other == victim:
                        continue
                    for mask in masks:
                        for pos in range(0, L, step):
                            out.append(single(fkey, cap, victim, mode, ["flip", pos, mask], "flip", other=other))
    return out


def trunc_cases(fkey, seed, caps, victims, modes, step=1, raw_step=None):
    prep = prepare(fkey, seed)
    out = []
    L = prep["datalen"]
    for victim in victims:
        for cap in caps:
            for mode in modes:
                for n in range(0, L, step):
                    out.append(single(fkey, cap, victim, mode, ["trunc", n], "trunc"))
                if raw_step:
                    for n in range(0, ms.CONT + L + 4, raw_step):
                        out.append(single(fkey, cap, victim, mode, ["rawtrunc", n], "rawtrunc"))
    return out


def subst_cases(fkey, caps, warm_too):
    out = []
    for combo in itertools.product(SUBST_STATES, repeat=N):
        if all(s == "v2" for s in combo):
            continue
        for cap in caps:
            for warm in ((False, True) if warm_too else (False,)):
                out.append({"fkey": fkey, "cap": cap, "warm": warm, "ranged": not warm, "cls": "subst",
                            "slots": {str(sh): [combo[sh]] for sh in range(N)}})
    return out


def plant_cases(fkey, caps):
    """every ordered pair (A, B) of shares: A carries a chain planting a leaf for B, B carries the matching forged
    block; the third share is intact, or missing with a second intact copy of A/B's numbers elsewhere"""
    out = []
    for a_, b_ in itertools.permutations(range(N), 2):
        for cap in caps:
            slots = {str(sh): ["v2"] for sh in range(N)}
            slots[str(a_)] = ["plant-chain", b_]
            slots[str(b_)] = ["plant-block"]
            out.append({"fkey": fkey, "cap": cap, "warm": False, "ranged": False, "cls": "plant", "slots": slots})
            out.append({"fkey": fkey, "cap": cap, "warm": False, "ranged": False, "cls": "plant", "slots": slots, "dup": [a_, ["v2"]]})
            out.append({"fkey": fkey, "cap": cap, "warm": False, "ranged": False, "cls": "plant", "slots": slots, "dup": [b_, ["v2"]]})
    return out


def dup_cases(fkey, seed, caps):
    """a share number stored twice (home server + a 4th server), each copy in one of several states"""
    prep = prepare(fkey, seed)
    f = ms.fields(ms.share_data(prep["v2"][0]))
    last = max(int(nm[5:]) for nm in f if nm.startswith("block") and nm[5:].isdigit())
    states = [["v2"], ["flip", f["block%d" % last][0] + 1, 1], ["flip", f["block0"][0], 1], ["v1"], ["resigned-newer"], ["trunc", f["share_hash_chain"][0] + 43],
              ["from", "share_hash_chain", "zeros"], ["from", "signature", "zeros"]]
    out = []
    for sh in range(N):
        for home in states + [["missing"]]:
            for spare in states:
                if home == ["v2"] and spare == ["v2"]:
                    continue
                for cap in caps:
                    for mode in ("intact", "needed"):
                        c = single(fkey, cap, sh, mode, home, "dup", ranged=False)
                        c["dup"] = [sh, spare]
                        out.append(c)
    return out


def readonly_cannot_publish(seed):
    """(d) a node built from the read-cap refuses to write; a verify-cap yields no readable node"""
    res = common.Result()
    for fkey in ("SDMF", "MDMF"):
        prep = prepare(fkey, seed)
        g = grid.Grid(N, client_kw=dict(k=K, n=N, happy=1))
        try:
            for sh in range(N):
                ms.write_share(g, prep["si"], prep["server"][sh], sh, prep["v2"][sh])
            before = g.disk_digest()
            node = g.clients[0].create_node_from_uri(prep["cap"]["ro"])
            evil = pattern(99, len(prep["c2"]))
            for opname, start in (("overwrite", lambda: node.overwrite(MutableData(evil))),
                                  ("modify", lambda: node.modify(lambda old, sm, first: evil)),
                                  ("upload", lambda: node.upload(MutableData(evil), None))):
                try:
                    b = g.wait(start())
                    outcome = "hang" if not b else ("ok" if b[0][0] == "ok" else "err:" + lib_imm.failure_name(b[0][1]))
                except grid.HarnessError:
                    outcome = "livelock"
                except Exception as e:  # noqa  (a synchronous refusal is a refusal)
                    outcome = "raise:" + type(e).__name__
                g.quiesce()
                res.count("executions")
                res.count("class:readonly-write")
                res.count("outcome:ro-%s:%s" % (opname, outcome))
                res.distinct.add(("ro", opname, outcome))
                if g.disk_digest() != before:
                    res.violation("read-cap-holder-changed-shares", {"fkey": fkey, "op": opname}, "%s on a node built from the read-cap of a %s file changed the stored shares (outcome %s)" % (opname, fkey, outcome))
                elif outcome == "ok":
                    res.violation("read-cap-write-reported-success", {"fkey": fkey, "op": opname}, "%s on a read-only %s node reported success" % (opname, fkey))
            vcap = tahoe_uri.from_string(prep["cap"]["ro"]).get_verify_cap().to_string()
            vnode = g.clients[0].create_node_from_uri(vcap)
            can_read = hasattr(vnode, "download_best_version")
            res.count("outcome:verify-cap-node:%s" % type(vnode).__name__)
            if can_read or hasattr(vnode, "overwrite"):
                res.violation("verify-cap-yields-readable-or-writable-node", {"fkey": fkey}, "create_from_cap(verify-cap) returned %r" % (vnode,))
            boot.take_logged()
            boot.R.take_errors()
        finally:
            g.close()
    return res


def replay(case):
    if "op" in case:
        r = readonly_cannot_publish(boot.SEED)
        return [(v["sig"], v["msg"]) for v in r.violations]
    viol, obs = (execute_spread if case["case"].get("cls") == "spread-damage" else execute)(case["case"], boot.SEED)
    return viol


def run(tier, seed):
    cases = []
    if tier == "quick":
        for fkey in ("SDMF", "MDMF"):
            cases += flip_cases(fkey, seed, ["ro"], [1, 2], ["intact"])      # share 1 is the first one answered, 2 the last
            cases += flip_cases(fkey, seed, ["ro"], [0], ["needed"])
            cases += trunc_cases(fkey, seed, ["ro"], [0], ["needed"], step=3)
            cases += trunc_cases(fkey, seed, ["ro"], [1], ["intact"], step=7, raw_step=61)
            cases += field_cases(fkey, seed, ["ro"], [0, 1, 2], ["intact", "needed"], warm_too=False)
            cases += field_cases(fkey, seed, ["rw"], [0], ["intact", "needed"], warm_too=True)
            cases += subst_cases(fkey, ["ro"], warm_too=False)
            cases += [c for c in subst_cases(fkey, ["rw"], warm_too=True) if c["warm"]]
            cases += [dict(c, cpu="async", ranged=False) for c in subst_cases(fkey, ["ro"], warm_too=False)]
            cases += dup_cases(fkey, seed, ["ro"])
        for fkey in ("SDMF", "MDMF1"):
            cases += plant_cases(fkey, ["ro"])
    else:
        for fkey in ("SDMF", "MDMF", "MDMF1"):
            caps = ["ro", "rw"] if fkey != "MDMF1" else ["ro"]
            cases += flip_cases(fkey, seed, caps, [0, 1, 2], ["intact", "needed"], others=(0, 1, 2))
            cases += flip_cases(fkey, seed, ["ro"], [0, 1, 2], ["intact"], masks=(0x80,))
            cases += trunc_cases(fkey, seed, caps, [0, 1, 2], ["intact", "needed"], step=1, raw_step=1 if fkey == "SDMF" else 7)
            cases += field_cases(fkey, seed, caps, [0, 1, 2], ["intact", "needed"], warm_too=True)
            cases += subst_cases(fkey, caps, warm_too=True)
            cases += [dict(c, cpu="async") for c in subst_cases(fkey, ["ro"], warm_too=False) + field_cases(fkey, seed, ["ro"], [0, 1, 2], ["intact", "needed"], warm_too=False)]
            cases += dup_cases(fkey, seed, caps) + [dict(c, cpu="async") for c in dup_cases(fkey, seed, ["ro"])]
            cases += plant_cases(fkey, caps) + [dict(c, cpu="async") for c in plant_cases(fkey, ["ro"])]
    # several answers per reactor turn (grid.Sched.batch): the substitution, field and duplicate cases again
    cases += [dict(c, batch=True) for c in cases if c.get("cls") in ("subst", "field", "dup") or ("dup" in c and c.get("cls") != "plant")][:: (2 if tier == "quick" else 1)]
    # (every cooperating-servers case again: found there first - a rejected copy's block hashes held against the other copy)
    cases += [dict(c, batch=True) for c in cases if c.get("cls") == "plant" and not c.get("batch")]
    # a flip in "needed" mode with other == victim is meaningless
    cases = [c for c in cases if sum(1 for s in c["slots"].values() if s[0] != "missing") >= 1]
    for fkey in sorted(set(c["fkey"] for c in cases)):
        prepare(fkey, seed)            # in the parent: forked workers inherit the captured shares
    for fmt in ("SDMF", "MDMF"):
        spread_prepare(fmt, seed)
    sp = spread_damage_cases(tier)
    cases += sp + [dict(c, batch=True) for c in sp[::4]]
    res = common.pmap(chunk, cases, (seed,), chunks=max(1, min(len(cases), common.NWORKERS * 12)))
    res.merge(readonly_cannot_publish(seed))
    execs = res.counts.get("executions", 0)
    cov = {
        "evaluations": execs,
        "distinct_nontrivial": execs,
        "exhaustive": True,
        "rule": "one execution per damaged layout; every layout differs from the published one in at least one stored share (replacements identical to the original bytes and layout-incompatible swaps are skipped and counted), so every case is non-trivial; classes: %s" % ", ".join("%s=%d" % (k[6:], v) for k, v in sorted(res.counts.items()) if k.startswith("class:")),
        "skipped_identical_or_incompatible": res.counts.get("skipped_identical_or_incompatible", 0),
        "outcomes": {k[8:]: v for k, v in sorted(res.counts.items()) if k.startswith("outcome:")},
        "logged_exceptions": {k[17:]: v for k, v in sorted(res.counts.items()) if k.startswith("logged-exception:")},
        "distinct_class_outcome_vectors": len(res.distinct),
        "remote_calls_delivered": res.counts.get("remote_calls", 0),
    }
    return res, cov


MANIFEST = {
    "engine": "G",
    "technique": "exhaustive fault enumeration on the real mutable reader: share files of really published versions are captured, damaged with an independent field map (every byte flip, every truncation length, every header field / offset at edge values, every hash node / block / salt / signature / key swapped with zeros, the other version, another file, a sibling share; every assignment of 10 substitution states to the shares, incl. shares re-signed by an attacker; duplicated share numbers) and read back through MutableFileNode",
    "text": "Each damaged layout is written as real share files to real storage servers and read with download_best_version() and a ranged MutableFileVersion.read() through nodes built from the read-cap and the write-cap (fresh, and after a previous read). The result must be the contents of v1 or v2 or an error, never other bytes, exactly v2 whenever k untouched v2 shares are present, and the read must terminate; a read-cap node must not be able to write and a verify-cap must not yield a readable node. Also cooperating servers: one share's hash chain plants a leaf for another share whose forged block matches it (every ordered pair).",
    "note": "Catalogue is closed and fully enumerated (counts per class in evidence); SHA-256d/RSA-PSS assumed unforgeable; default delivery order; substitution/field/duplicate classes are repeated with CPU-pool results delivered in a later reactor turn as in production.",
}
